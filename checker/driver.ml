(* Correspondence driver: reads harness records on stdin, evaluates the extracted Coq oracle
   [Model.check] on each, and writes a JSON summary.

   Record format (one per line, decimal integers):
     <tag> <in_1> ... <in_n> | <obs_1> ... <obs_m> | <allocs>
   Lines starting with '#' are metadata: "#DIST <key> <count>" is accumulated.

   Modes:
     normal : agree = impl obs = model obs ; holds = property decider on the impl obs
     c18    : only the panic shape of the observation (positions equal to -2) and the
              allocation counter are compared (real-time safety).                      *)

let rec pos_of_int n =
  if n = 1 then Model.XH
  else if n land 1 = 0 then Model.XO (pos_of_int (n lsr 1))
  else Model.XI (pos_of_int (n lsr 1))

let z_of_int n =
  if n = 0 then Model.Z0
  else if n > 0 then Model.Zpos (pos_of_int n)
  else Model.Zneg (pos_of_int (-n))

let rec int_of_pos = function
  | Model.XH -> 1
  | Model.XO p -> 2 * int_of_pos p
  | Model.XI p -> (2 * int_of_pos p) + 1

let int_of_z = function
  | Model.Z0 -> 0
  | Model.Zpos p -> int_of_pos p
  | Model.Zneg p -> -int_of_pos p

let ints_of_string s =
  String.split_on_char ' ' s |> List.filter (fun x -> x <> "") |> List.map int_of_string

let json_escape s =
  let b = Buffer.create (String.length s + 2) in
  String.iter
    (fun c ->
      match c with
      | '"' -> Buffer.add_string b "\\\""
      | '\\' -> Buffer.add_string b "\\\\"
      | '\n' -> Buffer.add_string b "\\n"
      | c -> Buffer.add_char b c)
    s;
  Buffer.contents b

let () =
  let mode = ref "normal" in
  let out = ref "" in
  let max_report = ref 20 in
  let nsamples = ref 6 in
  let dump_vcases = ref "" in
  let nvcases = ref 0 in
  Arg.parse
    [ ("--mode", Arg.Set_string mode, "normal|c18");
      ("--out", Arg.Set_string out, "summary json path");
      ("--max-report", Arg.Set_int max_report, "max reported failures");
      ("--samples", Arg.Set_int nsamples, "number of sample records kept");
      ("--vcases", Arg.Set_string dump_vcases, "write a sample of (record, verdict) for the in-Coq self-check");
      ("--nvcases", Arg.Set_int nvcases, "how many self-check cases") ]
    (fun _ -> ())
    "driver";
  let records = ref 0 and agree = ref 0 and holds = ref 0 in
  let panics = ref 0 and alloc_records = ref 0 in
  let seen : (string, unit) Hashtbl.t = Hashtbl.create 100000 in
  let distinct = ref 0 and nontrivial = ref 0 in
  let samples = ref [] in
  let violations = ref [] and nviol = ref 0 in
  let disagreements = ref [] and ndis = ref 0 in
  let allocs_bad = ref [] in
  let dist : (string, int) Hashtbl.t = Hashtbl.create 64 in
  let tags : (int, int) Hashtbl.t = Hashtbl.create 16 in
  let vcases = ref [] in
  let nv = ref 0 in
  (try
     while true do
       let line = input_line stdin in
       if String.length line > 0 && line.[0] = '#' then begin
         match String.split_on_char ' ' line with
         | [ "#DIST"; k; c ] ->
             let c = int_of_string c in
             let old = try Hashtbl.find dist k with Not_found -> 0 in
             Hashtbl.replace dist k (old + c)
         | _ -> ()
       end
       else if String.length line > 0 then begin
         match String.split_on_char '|' line with
         | [ a; b; c ] ->
             let a = ints_of_string a and b = ints_of_string b in
             let allocs = match ints_of_string c with [ x ] -> x | _ -> 0 in
             let tag, inp = match a with t :: r -> (t, r) | [] -> (-1, []) in
             incr records;
             Hashtbl.replace tags tag (1 + try Hashtbl.find tags tag with Not_found -> 0);
             let v = Model.check (z_of_int tag) (List.map z_of_int inp) (List.map z_of_int b) in
             let model = List.map int_of_z v.Model.v_model in
             let impl_panic = List.mem (-2) b in
             if impl_panic then incr panics;
             let ag, ho =
               if !mode = "c18" then begin
                 let shape l = List.map (fun x -> x = -2) l in
                 let same = shape b = shape model in
                 let alloc_ok = impl_panic || allocs = 0 in
                 if not alloc_ok then begin
                   incr alloc_records;
                   if List.length !allocs_bad < !max_report then allocs_bad := line :: !allocs_bad
                 end;
                 (same, same && alloc_ok)
               end
               else (v.Model.v_agree, v.Model.v_holds)
             in
             if ag then incr agree;
             if ho then incr holds;
             if not ho then begin
               incr nviol;
               if List.length !violations < !max_report then
                 violations := (line, model) :: !violations
             end
             else if not ag then begin
               incr ndis;
               if List.length !disagreements < !max_report then
                 disagreements := (line, model) :: !disagreements
             end;
             let key = Digest.string (String.trim (List.hd (String.split_on_char '|' line))) in
             if not (Hashtbl.mem seen key) then begin
               Hashtbl.add seen key ();
               incr distinct;
               if List.exists (fun x -> x <> -1) b then incr nontrivial;
               if List.length !samples < !nsamples && (!distinct mod 97 = 1 || !distinct < 3) && String.length line < 2000 then
                 samples := line :: !samples
             end;
             if !nv < !nvcases && !records mod 211 = 1 && List.length inp < 3000 then begin
               incr nv;
               vcases := (tag, inp, b, v.Model.v_agree, v.Model.v_holds, model) :: !vcases
             end
         | _ ->
             incr records;
             incr nviol;
             if List.length !violations < !max_report then violations := (line, [ -98 ]) :: !violations
       end
     done
   with End_of_file -> ());
  let buf = Buffer.create 4096 in
  let p fmt = Printf.bprintf buf fmt in
  let str_list l = String.concat "," (List.map (fun s -> "\"" ^ json_escape s ^ "\"") l) in
  let int_list l = String.concat "," (List.map string_of_int l) in
  let fails l =
    String.concat ","
      (List.map
         (fun (line, model) ->
           Printf.sprintf "{\"record\":\"%s\",\"model\":[%s]}" (json_escape line) (int_list model))
         (List.rev l))
  in
  p "{\n";
  p "\"mode\":\"%s\",\n" !mode;
  p "\"records\":%d,\n\"agree\":%d,\n\"holds\":%d,\n" !records !agree !holds;
  p "\"violations\":%d,\n\"disagreements_holding\":%d,\n" !nviol !ndis;
  p "\"panicking_records\":%d,\n\"allocating_records\":%d,\n" !panics !alloc_records;
  p "\"distinct\":%d,\n\"distinct_nontrivial\":%d,\n" !distinct !nontrivial;
  p "\"tags\":{%s},\n"
    (String.concat ","
       (Hashtbl.fold (fun k v acc -> Printf.sprintf "\"%d\":%d" k v :: acc) tags []));
  p "\"dist\":{%s},\n"
    (String.concat ","
       (Hashtbl.fold (fun k v acc -> Printf.sprintf "\"%s\":%d" (json_escape k) v :: acc) dist []));
  p "\"samples\":[%s],\n" (str_list (List.rev !samples));
  p "\"first_violations\":[%s],\n" (fails !violations);
  p "\"first_disagreements\":[%s],\n" (fails !disagreements);
  p "\"first_allocating\":[%s]\n" (str_list (List.rev !allocs_bad));
  p "}\n";
  (if !out <> "" then begin
     let oc = open_out !out in
     Buffer.output_buffer oc buf;
     close_out oc
   end
   else print_string (Buffer.contents buf));
  if !dump_vcases <> "" then begin
    (* cases for the in-Coq self-check of the extraction: the same records, evaluated by
       vm_compute, must give the same verdicts *)
    let oc = open_out !dump_vcases in
    let zl l = "[" ^ String.concat "; " (List.map (fun x -> Printf.sprintf "(%d)" x) l) ^ "]" in
    Printf.fprintf oc "From Verif Require Import Base.Prelude Checker.\nOpen Scope Z_scope.\n";
    Printf.fprintf oc "Definition cases : list (Z * list Z * list Z * (bool * bool * list Z)) := [\n";
    let first = ref true in
    List.iter
      (fun (tag, inp, b, ag, ho, model) ->
        if not !first then Printf.fprintf oc ";\n";
        first := false;
        Printf.fprintf oc "((%d), %s, %s, (%b, %b, %s))" tag (zl inp) (zl b) ag ho (zl model))
      (List.rev !vcases);
    Printf.fprintf oc "].\n";
    Printf.fprintf oc
      "Definition same (c : Z * list Z * list Z * (bool * bool * list Z)) : bool :=\n\
      \  let '(tag, inp, obs, (ag, ho, model)) := c in\n\
      \  let v := check tag inp obs in\n\
      \  Bool.eqb (v_agree v) ag && Bool.eqb (v_holds v) ho && listZ_eqb (v_model v) model.\n";
    Printf.fprintf oc "Definition bad : list Z := map (fun c => fst (fst (fst c))) (filter (fun c => negb (same c)) cases).\n";
    Printf.fprintf oc "Eval vm_compute in (length cases, bad).\n";
    close_out oc
  end
