#!/usr/bin/env python3
"""Writes MANIFEST.json from bin/props.py (claimed properties) and the not_applicable list."""
import json, os, sys
ROOT = os.path.dirname(os.path.dirname(os.path.abspath(__file__)))
sys.path.insert(0, os.path.join(ROOT, "bin"))
import props
ALL = ["C%02d" % i for i in range(1, 20)]
checks = []
for pid in ALL:
    if pid not in props.PROPS:
        continue
    sp = props.PROPS[pid]
    checks.append({
        "property_id": pid,
        "quick_cmd": "bin/check %s --tier quick" % pid,
        "thorough_cmd": "bin/check %s --tier thorough" % pid,
        "evidence_file": "evidence/%s.json" % pid,
        "replay_cmd_template": "bin/check %s --replay {path}" % pid,
        "engine": "coq-proof+correspondence",
        "level_claimed": {
            "category": "proof",
            "text": sp.get("level_text", "Coq theorems over a hand-written Gallina model (all inputs/histories, by induction or complete finite sweeps), tied to /repo on every run by a differential correspondence check through the extracted model"),
            "design_ref": sp.get("design_ref", "DESIGN.md section 5"),
        },
        "level_note": sp.get("level_note", "trusted: Coq kernel + vm_compute, the hand-written model (validated differentially against the implementation on this run's inputs), translator tables, extraction (ExtrOcamlBasic), harness; no axioms"),
        "technique": sp.get("technique", "machine-checked proof in Coq 8.16 (induction over histories / complete finite sweeps) + model-vs-implementation correspondence"),
    })
na = []
for pid in ALL:
    if pid not in props.PROPS:
        na.append({"property_id": pid, "reason": props.NOT_YET.get(pid, "check not built yet (work in progress; planned, see DESIGN.md section 5)")})
m = {
    "version": 1,
    "setup_cmd": "bin/setup",
    "hooks": {
        "guard": "--cfg helgoboss_midi_verif",
        "enable": "RUSTFLAGS=\"--cfg helgoboss_midi_verif\" cargo build (the harness crate depends on helgoboss-midi by path=/repo)",
        "baseline_off_cmd": "cd /repo && cargo test --workspace --no-fail-fast --offline",
        "source_commits": props.HOOK_COMMITS,
        "add_only": True,
    },
    "engines": [{
        "name": "coq-proof+correspondence",
        "path": "bin/check",
        "serves_properties": [c["property_id"] for c in checks],
        "kind_free_text": "Coq 8.16 development (coq/), Python translator for declarative tables, Rust harness running the implementation, OCaml checker extracted from the Coq model",
    }],
    "checks": checks,
    "not_applicable": na,
    "notes": "See DESIGN.md. Every check rebuilds the harness against /repo's working tree, regenerates the translator tables, rebuilds the Coq theorems of the property and runs the correspondence.",
}
json.dump(m, open(os.path.join(ROOT, "MANIFEST.json"), "w"), indent=1)
print("checks:", len(checks), "not_applicable:", len(na))
