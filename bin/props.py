"""Per-property configuration of the orchestrator."""

TRUSTED_BASE = [
    "Coq 8.16.1 kernel incl. vm_compute (no native_compute); coqchk re-check in the thorough tier",
    "axioms: none (every property theorem must print 'Closed under the global context')",
    "hand-written Gallina model of the Rust code (coq/Model/*.v), tied to /repo by the differential correspondence check of this run",
    "translator/gen_tables.py for the declarative tables in coq/Generated/",
    "extraction: ExtrOcamlBasic only (Extract Inductive bool, option, unit, list, prod, sumbool, sumor; no Extract Constant), OCaml 4.13.1, checker/driver.ml; cross-checked on a sample of this run's records by vm_compute inside Coq",
    "Rust harness (harness/): generators, third-party implementors, panic monitor, counting allocator, mock clock hook (src/verif_hooks.rs)",
    "modelled, not verified: Rust language semantics (casts, shifts, match, derive(PartialEq, Ord, Copy, Default)), num_enum, derive_more, core integer parsing/printing, serde/serde_json, 64-bit usize",
]

# appended to every property's rule in the evidence
COMMON_RULE = (
    "configurations: std = default features + serde + serde_repr, debug profile with overflow checks; rel = the same in "
    "cargo's release profile (optimised, no debug assertions, no overflow checks); nostd = --no-default-features; "
    "nostdrel = no default features + release; nostdserde = serde + serde_repr without std; miri_i686 / miri_s390x "
    "(thorough tier) = the no-default-features harness interpreted by Miri for a 32-bit / a big-endian target on the "
    "cross-target generator XT. Message-level tags: implementors raw, structured, Getters (three getters only), Tuple "
    "(+to_bytes), Overrider (overrides from_bytes / from_other in terms of other provided methods), and &M if the crate "
    "implements the trait for references. "
    "Scanner histories (all tags that feed scanners): messages as raw / structured / third-party implementors; scanners "
    "created by new(), Default::default() (kinds 10-12, op 8, negative timeout); resets repeated 1..65537 times (2^32 "
    "in the thorough tier of C14, optimised build); one block of 1-4 operations repeated 254-258 times in one of 30 "
    "histories; op 9 = the previous operation again 70000 (optimised builds: 2^24+5) times, every count 65529..65541, "
    "and 2^32+5 times in the thorough tier (optimised build); marker 11 = a block of two operations 65534..65539 times "
    "between two observed copies; values and controller numbers "
    "sometimes taken from other fields of the same history; system and non-CC messages with construct-like data bytes; "
    "polling scanner on the mock clock with timeouts {0,1,5,1000 ns, 1 ms, 10 ms, 1.234567891 s, 60 s, 2^60 ns, 2^55 s, "
    "2^64+1 ns, Duration::MAX, Default} and time steps around the timeout at ns resolution and whole seconds / "
    "milliseconds later; tag 133 = a poll during which the timeout expires (clock readings advance the clock). "
    "A panic anywhere while a record is executed is an observation ([-2]), never a crash of the run")

# tag -> (number of header integers, integers per operation) for history-shaped inputs
HISTORY_TAGS = {
    71: (4, 4),
    80: (0, 4),
    100: (6, 4),
    110: (0, 4),
    120: (2, 4),
    130: (1, 4),
    140: (1, 4),
    150: (6, 4),
    160: (3, 4),
    170: (3, 4),
}

PROPS = {
    "C07": {
        "runs": [("C07", "std", "normal"), ("XT", "miri_i686", "normal", "thorough"), ("XT", "miri_s390x", "normal", "thorough"), ("C07", "rel", "normal"), ("C07", "nostd", "normal"), ("C07", "nostdrel", "normal")],
        "rule": "scanner histories include Default-constructed scanners (op 8). tag 70: every (channel, controller number) pair x boundary/seeded values (thorough: all 16384 values) through new/getters/to_short_messages for RawShortMessage and StructuredShortMessage; tag 71: seeded messages fed as encoded pairs after a seeded random prior history (any implementor kind). distinct = distinct input vectors; non-trivial = the observation contains a value other than None",
        "exhaustive": {"thorough": True},
        "assumptions": ["restricted integers are built through the checked public constructors",
                        "feeds use valid short messages (status >= 0x80, 7-bit data bytes)"],
    },
    "C08": {
        "runs": [("C08", "std", "normal"), ("C08", "rel", "normal"), ("C08", "nostd", "normal")],
        "rule": "tag 80: all histories of depth 4 (thorough: 6) over a 10-symbol abstract alphabet (MSB/LSB matching and non-matching, other controller, other message, second channel, reset, system message; raw / structured / third-party implementors) plus seeded random histories over the full alphabet on 1-16 channels. distinct = distinct histories; non-trivial = at least one report",
        "exhaustive": {},
        "assumptions": ["feeds use valid short messages"],
    },
}

PROPS.update({
    "C09": {
        "runs": [("C09", "std", "normal"), ("XT", "miri_i686", "normal", "thorough"), ("XT", "miri_s390x", "normal", "thorough"), ("C09", "rel", "normal"), ("C09", "nostd", "normal")],
        "rule": "tag 90: for each of the 8 constructors and both byte orders: all 16 channels, a sweep of the parameter numbers (thorough: all 16384) and of the values with the other arguments on boundary/seeded values, plus seeded random tuples; observation = getters, 4 slots for RawShortMessage and StructuredShortMessage, and the array conversion. distinct = distinct argument tuples; every record is non-trivial (a message is always built)",
        "exhaustive": {},
        "assumptions": ["arguments are valid restricted integers (built through the checked constructors)"],
    },
    "C10": {
        "runs": [("C10", "std", "normal"), ("C10", "rel", "normal"), ("C10", "nostd", "normal")],
        "rule": "tag 100: seeded messages of all 8 kinds, encoded (7-bit: both orders; 14-bit: LSB first) and fed, as any implementor kind, after a seeded random prior history; tag 101: running forms (single data bytes on controller 6/96/97, or LSB,MSB pairs) of length 0-12 and seeded long ones (200-500) after one selection and a random prior history",
        "exhaustive": {},
        "assumptions": ["feeds use valid short messages"],
    },
    "C11": {
        "runs": [("C11", "std", "normal"), ("C11", "rel", "normal"), ("C11", "nostd", "normal")],
        "rule": "tag 110: all histories of depth 4 (thorough: 5) over a 14-symbol abstract alphabet (each of the 8 contributing controllers, a non-contributing controller, a non-CC message, a second channel, reset, a system message) plus seeded random histories over the full alphabet on 1-16 channels; non-trivial = at least one report",
        "exhaustive": {},
        "assumptions": ["feeds use valid short messages"],
    },
})

PROPS.update({
    "C13": {
        "runs": [("C13", "std", "normal"), ("C13", "rel", "normal")],
        "rule": "mock clock. tag 130: histories of feeds/polls/ticks/resets (all depth-4 (thorough 5) sequences over a 14-symbol abstract alphabet after an optional number selection, timeouts 0 and 5; seeded random histories on 1-16 channels with timeouts 0,1,5,1000,2^60 and time steps below/at/above the timeout), only poll results observed; tag 131: the same feeds under two different clocks (results must be equal); tag 132: histories with polls placed before the timeout, run with and without them (they must return nothing and change nothing). non-trivial = some value observed",
        "exhaustive": {},
        "assumptions": ["the mock clock (src/verif_hooks.rs) stands in for std::time::Instant; the real clock is assumed monotone"],
    },
    "C14": {
        "runs": [("C14", "std", "normal"), ("C14", "rel", "normal")],
        "rule": "mock clock. tag 140: same history generators as C13 (abstract bounded-exhaustive + seeded random over the full alphabet incl. malformed and mixed registered/non-registered traffic, resets, polls, time steps); the implementation's complete trace is judged by the extracted C14 monitor (check_C14), independently of the model; agreement with the model is checked too",
        "exhaustive": {},
        "assumptions": ["the mock clock stands in for std::time::Instant"],
    },
})

PROPS.update({
    "C15": {
        "runs": [("C15", "std", "normal"), ("C15", "rel", "normal")],
        "rule": "tag 150, for each of the three scanners: every ordered pair of the 16 channels x all depth-2 (thorough 4) sequences over an abstracted two-channel alphabet (incl. polls and time for the polling scanner), and seeded random interleavings on up to 16 channels over the full alphabet; the interleaved run is compared with own-scanner runs of the projected per-channel histories (metamorphic, model-free) and with the model; scanners are created by new() and (kinds 10-12, the whole pair sweep and one in five random histories) by Default::default(); histories of the non-polling scanners also contain 'replace the scanner by a Default one' (op 8), polling histories a negative timeout = Default-constructed",
        "exhaustive": {},
        "assumptions": ["mock clock for the polling scanner"],
    },
    "C16": {
        "runs": [("C16", "std", "normal"), ("C16", "rel", "normal")],
        "rule": "tag 161: all 128 controller numbers (predicates + whether each scanner reacts); tag 162: every controller_numbers constant of the regenerated table; tag 160: for each scanner, after seeded random prior histories: every non-Control-Change status byte with seeded data bytes and every non-contributing controller number x {0,127,seeded} (thorough: all 128 values), fed as raw/structured/third-party implementors; observation = nothing reported and scanner == its copy taken before; plus 12000 (thorough 300000) records 'seeded history, then an open construct on channel c (MSB / selected number / pending first value byte), for the polling scanner a time step around the timeout, then a non-contributing message (non-CC with construct-like data bytes, system message, non-contributing CC) mostly on the same channel'; scanners created by new() and by Default::default()",
        "exhaustive": {"quick": False},
        "assumptions": ["derived PartialEq of the scanners is the notion of equal state"],
    },
    "C17": {
        "runs": [("C17", "std", "normal"), ("C17", "rel", "normal")],
        "rule": "tag 170, for each scanner and timeouts {0,1,5,1000,2^60}: seeded random history, then reset: == new(timeout); default()==new (polling: new(0)); continuation outputs equal to a new scanner's; copies taken before the reset evolve identically and independently",
        "exhaustive": {},
        "assumptions": ["mock clock for the polling scanner", "copy independence is a language guarantee of derive(Copy) on plain data: modelled, exercised by the harness, not proved"],
    },
})

PROPS.update({
    "C01": {
        "runs": [("C01", "std", "normal"), ("XT", "miri_i686", "normal", "thorough"), ("XT", "miri_s390x", "normal", "thorough"), ("C01", "rel", "normal"), ("C01", "nostd", "normal")],
        "rule": "tag 10: from_bytes for 4 factory implementations (raw, structured, two harness-defined third-party types) on all 256 status bytes x boundary data bytes, every type x all values of one data byte, seeded random triples (thorough: all 256x128x128 triples); tag 11: StructuredShortMessage values built through the public enum (all variants; quick: full sweep of one field with the others on boundaries, all 120 quarter frames, all 16384 song positions; thorough: every value); tag 12: all 128 quarter-frame bytes; tag 13: all 256 type codes",
        "exhaustive": {"thorough": True},
        "assumptions": ["data bytes are valid U7 values"],
    },
    "C02": {
        "runs": [("C02", "std", "normal"), ("C02", "rel", "normal"), ("C02", "nostd", "normal")],
        "rule": "tag 20: every classification / accessor method on raw, structured and third-party implementors for all 128 valid status bytes x boundary data bytes (incl. 119,120,121,127), every type x all values of one data byte, seeded random triples (thorough: all 2^21 triples x 3 implementors); tag 13: all 256 values of the ShortMessageType conversion",
        "exhaustive": {"thorough": True},
        "assumptions": [],
    },
    "C03": {
        "runs": [("C03", "std", "normal"), ("C03", "rel", "normal"), ("C03", "nostd", "normal")],
        "rule": "tag 30: all ordered pairs of the 4 implementors x {to_other, from_other} plus to_structured; all methods of the trait on the original and on the converted message; all valid status bytes x boundary data bytes + seeded random triples (thorough: every valid triple, cycling through the combinations). The decider compares the implementations with each other",
        "exhaustive": {},
        "assumptions": [],
    },
    "C06": {
        "runs": [("C06", "std", "normal"), ("XT", "miri_i686", "normal", "thorough"), ("XT", "miri_s390x", "normal", "thorough"), ("C06", "rel", "normal"), ("C06", "nostd", "normal"), ("C06", "nostdrel", "normal")],
        "rule": "tag 60: the 19 named constructors for RawShortMessage and StructuredShortMessage (quick: full sweep per argument with the others on boundaries; thorough: every argument tuple), all 16384 14-bit values x channels (quick: stride 11), all 128 quarter-frame bytes; tag 61: 23 types x 3 generic constructors x channels x boundary data; tag 62: test_util shorthands with in- and out-of-range primitives",
        "exhaustive": {"thorough": True},
        "assumptions": [],
    },
})

PROPS.update({
    "C04": {
        "runs": [("C04", "std", "normal"), ("C04", "rel", "normal"), ("C04", "nostd", "normal"), ("C04", "nostdrel", "normal"),
                 # values obtained by deserialization are values of the safe public API too
                 ("C19", "std", "normal"), ("C19", "nostdserde", "normal")],
        "rule": "two builds of the harness: default features (+serde) and --no-default-features. tag 40: every conversion impl of the regenerated table (harness dispatch generated from it) on every value of 8/16-bit and newtype sources, and on boundaries, 2^k +-1, type min/max and seeded random values of 32/64/128-bit and pointer-sized sources; only in-range/failed/panicked is observed; tag 41: T::new on every value of the representation type, in both configurations; tag 42: all strings over {0,1,2,5,9,+,-,space,a} up to length 4 (thorough 5) plus boundary and leading-zero numerals; tag 43: MIN/MAX/Default; tags 62-64: the test_util scalar helpers on every value of their argument type and the test_util shorthands with in- and out-of-range primitives (checked constructors too). The conversion table is what rustc sees (autoref probes over the 18x18 grid of numeric types), not a list parsed from the source",
        "exhaustive": {},
        "assumptions": ["usize/isize are 64-bit"],
    },
    "C05": {
        "runs": [("C05", "std", "normal"), ("XT", "miri_i686", "normal", "thorough"), ("XT", "miri_s390x", "normal", "thorough"), ("C05", "rel", "normal"), ("C05", "nostd", "normal"), ("C05", "nostdrel", "normal")],
        "rule": "tag 50: same conversion inputs as C04 with exact result values; tag 42: parsing alphabet as C04; tag 51: Display of every value of every type (formatted into a stack buffer) and parse-back; tag 52: equality/ordering/hash-equality for all pairs of the <=7-bit types and boundaries+neighbours+seeded pairs for U14; tag 43: MIN/MAX/Default",
        "exhaustive": {},
        "assumptions": ["usize/isize are 64-bit"],
    },
})

PROPS.update({
    "C19": {
        "runs": [("C19", "std", "normal"), ("C19", "rel", "normal"), ("C19", "nostdserde", "normal")],
        "rule": "harness built with features serde + serde_repr; inputs are serde_json::Value trees fed through serde_json::from_value. tag 190: every integer of -300..17000 (thorough -70000..70000) plus boundaries for each restricted integer type; all u8-ish values for ShortMessageType; names/forms for TimeCodeType and DataType; for every composite type the product of boundary values per field x {map, map with unknown key, sequence, missing field, short sequence, long sequence, wrong-typed field}, unknown variants, unit/newtype/struct variant forms, wrong JSON types; after a successful deserialization the panicking accessors (type(), lsb_controller_number(), to_short_messages()) are called. tag 191: serialize -> deserialize round trip of valid values of every type",
        "exhaustive": {},
        "assumptions": ["serde, serde_derive, serde_repr, serde_json are trusted (modelled in Model/Serde.v, tied by the correspondence)"],
    },
})

PROPS.update({
    "C12": {
        "runs": [("C12", "std", "normal"), ("C12", "rel", "normal")],
        "rule": "mock clock. tag 120: (a) every conforming action sequence of the documented-forms grammar up to depth 6 (thorough 8) on one channel over {number MSB/LSB, cc38, cc6, increment, poll, tick(timeout), tick(timeout-1)}, timeouts 0 and 5; (b) seeded random: arbitrary prior traffic, then conforming streams interleaved on up to 16 channels with random values, polls, non-contributing messages and time steps below/at/above the timeout, timeouts 0,1,5,1000,2^60; (c) encode any ParameterNumberMessage (8 kinds, both byte orders), feed, poll after the timeout, after arbitrary prior traffic. The decider is the extracted grammar transducer (g_run), independent of the scanner model; conformance of the generated stream is re-checked by it",
        "exhaustive": {},
        "assumptions": ["the mock clock stands in for std::time::Instant"],
    },
})

_C18_GENS = ["C01", "C02", "C06", "C07", "C09", "C10", "C11", "C14", "C16", "C17", "C19"]
_C18_MORE = ["C03", "C05", "C08", "C15"]
PROPS.update({
    "C18": {
        "runs": [(g, "std", "c18") for g in _C18_GENS] + [("C04", "std", "c18"), ("C04", "nostd", "c18")]
                + [(g, "nostd", "c18") for g in ["C02", "C06", "C07", "C09", "C10", "C11"]]
                + [(g, "std", "c18", "thorough") for g in _C18_MORE],
        "rule": "the generators of the other checks (quick: C01 C02 C04(both feature configurations) C06 C07 C09 C10 C11 C14 C16 C17 C19; thorough: all of them) are re-run with every implementation call inside catch_unwind and an allocation-counting region of the harness's global allocator (harness built with opt-level 1, overflow checks and debug assertions on). A record fails if the implementation panics where the model does not (or vice versa), or if a non-panicking call allocated. distinct = distinct inputs; non-trivial = some value observed",
        "exhaustive": {},
        "level_text": "PARTIAL. Proved in Coq: every modelled panic site (assert!, expect, unreachable!, array indexing, overflow) is dead on valid input, for all inputs and all histories, and the documented panics occur exactly when documented. Not provable in a Gallina model: absence of heap allocation, which is a property of the compiled Rust code; it is monitored on every implementation call of this run by a counting global allocator",
        "technique": "machine-checked proof in Coq 8.16 (panic freedom of the model) + runtime monitoring of allocations and panics on the implementation (counting allocator, catch_unwind)",
        "assumptions": ["heap-allocation freedom is monitored on the explored calls only, not proved",
                        "opt-level 1 so that allocations are not optimised away"],
    },
})

HOOK_COMMITS = ["8ffd056", "ffdf5e8"]
FIX_COMMITS = ["f23ae2b", "0a7a8ec", "6f3a6a3", "7110a3c", "3bb8a42", "efa1406"]
NOT_YET = {}

# which regenerated tables a property's theorems / deciders depend on
TABLE_DEPS = {
    "C02": ["CtrlConsts", "EnumTables"],
    "C04": ["NewtypeTables", "CtrlConsts", "SerdeShapes"],
    "C05": ["NewtypeTables"],
    "C16": ["CtrlConsts"],
    "C18": ["NewtypeTables"],
    "C19": ["SerdeShapes"],
}
