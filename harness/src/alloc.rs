//! Counting global allocator: counts heap allocations performed while an API region is active.
use std::alloc::{GlobalAlloc, Layout, System};
use std::sync::atomic::{AtomicBool, AtomicU64, Ordering};

pub struct Counting;

static ACTIVE: AtomicBool = AtomicBool::new(false);
static COUNT: AtomicU64 = AtomicU64::new(0);

unsafe impl GlobalAlloc for Counting {
    unsafe fn alloc(&self, layout: Layout) -> *mut u8 {
        if ACTIVE.load(Ordering::Relaxed) {
            COUNT.fetch_add(1, Ordering::Relaxed);
        }
        System.alloc(layout)
    }
    unsafe fn dealloc(&self, ptr: *mut u8, layout: Layout) {
        System.dealloc(ptr, layout)
    }
    unsafe fn realloc(&self, ptr: *mut u8, layout: Layout, new_size: usize) -> *mut u8 {
        if ACTIVE.load(Ordering::Relaxed) {
            COUNT.fetch_add(1, Ordering::Relaxed);
        }
        System.realloc(ptr, layout, new_size)
    }
    unsafe fn alloc_zeroed(&self, layout: Layout) -> *mut u8 {
        if ACTIVE.load(Ordering::Relaxed) {
            COUNT.fetch_add(1, Ordering::Relaxed);
        }
        System.alloc_zeroed(layout)
    }
}

#[global_allocator]
static GLOBAL: Counting = Counting;

pub fn begin() {
    ACTIVE.store(true, Ordering::SeqCst);
}
pub fn end() {
    ACTIVE.store(false, Ordering::SeqCst);
}
pub fn take() -> u64 {
    COUNT.swap(0, Ordering::SeqCst)
}
