//! Compile-time probe of the crate's numeric conversion surface.
//!
//! For every ordered pair (S, D) of the 18 numeric types (the six restricted integer types and
//! the twelve primitive integer types) with at least one restricted type in it, the compiler is
//! asked -- through autoref specialisation, on stable Rust -- whether `D: From<S>` and whether
//! `D: TryFrom<S>` hold, and when they do the conversion is callable by grid position.  The table
//! of conversions the Coq development quantifies over is *this* table (`harness dump`), so it is
//! what rustc sees, whichever macro or hand-written impl produced it.
use crate::common::*;
use core::convert::TryFrom;
use core::marker::PhantomData;
use helgoboss_midi::*;

pub type Sm = (bool, u128);

/// A numeric type of the grid.
pub trait Val: Copy {
    /// the value `(-1)^neg * mag` if the type can hold it (restricted types: through `new`)
    fn from_sm(x: Sm) -> Option<Self>;
    fn out(self) -> i64;
}

macro_rules! impl_val_unsigned {
    ($($t:ty),*) => {$(
        impl Val for $t {
            fn from_sm(x: Sm) -> Option<Self> {
                if x.0 && x.1 != 0 { return None; }
                <$t>::try_from(x.1).ok()
            }
            fn out(self) -> i64 { i64::try_from(self).unwrap_or(i64::MAX) }
        }
    )*};
}
macro_rules! impl_val_signed {
    ($($t:ty),*) => {$(
        impl Val for $t {
            fn from_sm(x: Sm) -> Option<Self> {
                if x.0 {
                    if x.1 > (<$t>::MAX as u128) + 1 { return None; }
                    if x.1 == (<$t>::MAX as u128) + 1 { return Some(<$t>::MIN); }
                    Some(-(x.1 as $t))
                } else {
                    <$t>::try_from(x.1).ok()
                }
            }
            fn out(self) -> i64 {
                i64::try_from(self).unwrap_or(if self < 0 { i64::MIN } else { i64::MAX })
            }
        }
    )*};
}
macro_rules! impl_val_nt {
    ($($t:ty : $r:ty),*) => {$(
        impl Val for $t {
            fn from_sm(x: Sm) -> Option<Self> {
                if x.0 && x.1 != 0 { return None; }
                if x.1 > <$t>::MAX.get() as u128 { return None; }
                let v = x.1 as $r;
                region(|| <$t>::new(v))
            }
            fn out(self) -> i64 { self.get() as i64 }
        }
    )*};
}
impl_val_unsigned!(u8, u16, u32, u64, u128, usize);
impl_val_signed!(i8, i16, i32, i64, i128, isize);
impl_val_nt!(U4: u8, U7: u8, U14: u16, Channel: u8, KeyNumber: u8, ControllerNumber: u8);

pub struct P<S, D>(PhantomData<(S, D)>);
impl<S, D> P<S, D> {
    pub fn new() -> Self {
        P(PhantomData)
    }
}

// --- From: the impl on `P` (needs `D: From<S>`) wins over the blanket impl on `&P` -------------
pub trait FromYes<S, D> {
    fn run_from(&self, x: S) -> Option<D>;
}
impl<S, D: From<S>> FromYes<S, D> for P<S, D> {
    fn run_from(&self, x: S) -> Option<D> {
        Some(D::from(x))
    }
}
pub trait FromNo<S, D> {
    fn run_from(&self, _x: S) -> Option<D> {
        None
    }
}
impl<S, D> FromNo<S, D> for &P<S, D> {}

// --- TryFrom ----------------------------------------------------------------------------------
pub trait TryYes<S, D> {
    fn run_try(&self, x: S) -> Option<Result<D, ()>>;
}
impl<S, D: TryFrom<S>> TryYes<S, D> for P<S, D> {
    fn run_try(&self, x: S) -> Option<Result<D, ()>> {
        Some(D::try_from(x).map_err(|_| ()))
    }
}
pub trait TryNo<S, D> {
    fn run_try(&self, _x: S) -> Option<Result<D, ()>> {
        None
    }
}
impl<S, D> TryNo<S, D> for &P<S, D> {}

/// kind 0: `D::from(x)`; kind 1: `D::try_from(x)`.
/// Observation: [0, v] Ok / infallible, [1, NONE] Err, [PANIC], [-95] no such impl,
/// [-96] the source type cannot hold x.
macro_rules! probe_pair {
    ($s:ty, $d:ty, $kind:expr, $x:expr) => {{
        match <$s as Val>::from_sm($x) {
            None => vec![-96],
            Some(s) => {
                if $kind == 0 {
                    match region(|| (&P::<$s, $d>::new()).run_from(s)) {
                        None => vec![PANIC],
                        Some(None) => vec![-95],
                        Some(Some(d)) => vec![0, d.out()],
                    }
                } else {
                    match region(|| (&P::<$s, $d>::new()).run_try(s)) {
                        None => vec![PANIC],
                        Some(None) => vec![-95],
                        Some(Some(Ok(d))) => vec![0, d.out()],
                        Some(Some(Err(()))) => vec![1, NONE],
                    }
                }
            }
        }
    }};
}

/// The grid, in this order everywhere (harness records, `dump`, Coq's `grid_types`).
pub const TYPES: [&str; 18] = ["U4", "U7", "U14", "Channel", "KeyNumber", "ControllerNumber",
    "u8", "u16", "u32", "u64", "u128", "usize", "i8", "i16", "i32", "i64", "i128", "isize"];
pub const N_NT: usize = 6;

macro_rules! row {
    ($s:ty, $d:expr, $kind:expr, $x:expr) => {
        match $d {
            0 => probe_pair!($s, U4, $kind, $x),
            1 => probe_pair!($s, U7, $kind, $x),
            2 => probe_pair!($s, U14, $kind, $x),
            3 => probe_pair!($s, Channel, $kind, $x),
            4 => probe_pair!($s, KeyNumber, $kind, $x),
            5 => probe_pair!($s, ControllerNumber, $kind, $x),
            6 => probe_pair!($s, u8, $kind, $x),
            7 => probe_pair!($s, u16, $kind, $x),
            8 => probe_pair!($s, u32, $kind, $x),
            9 => probe_pair!($s, u64, $kind, $x),
            10 => probe_pair!($s, u128, $kind, $x),
            11 => probe_pair!($s, usize, $kind, $x),
            12 => probe_pair!($s, i8, $kind, $x),
            13 => probe_pair!($s, i16, $kind, $x),
            14 => probe_pair!($s, i32, $kind, $x),
            15 => probe_pair!($s, i64, $kind, $x),
            16 => probe_pair!($s, i128, $kind, $x),
            17 => probe_pair!($s, isize, $kind, $x),
            _ => vec![-97],
        }
    };
}

/// Runs conversion `kind` from grid type `s` to grid type `d` on `x`.
pub fn run(kind: i64, s: usize, d: usize, x: Sm) -> Vec<i64> {
    if s == d || (s >= N_NT && d >= N_NT) {
        // identical types (the reflexive blanket impls) and primitive-to-primitive pairs belong
        // to the standard library
        return vec![-95];
    }
    match s {
        0 => row!(U4, d, kind, x),
        1 => row!(U7, d, kind, x),
        2 => row!(U14, d, kind, x),
        3 => row!(Channel, d, kind, x),
        4 => row!(KeyNumber, d, kind, x),
        5 => row!(ControllerNumber, d, kind, x),
        6 => row!(u8, d, kind, x),
        7 => row!(u16, d, kind, x),
        8 => row!(u32, d, kind, x),
        9 => row!(u64, d, kind, x),
        10 => row!(u128, d, kind, x),
        11 => row!(usize, d, kind, x),
        12 => row!(i8, d, kind, x),
        13 => row!(i16, d, kind, x),
        14 => row!(i32, d, kind, x),
        15 => row!(i64, d, kind, x),
        16 => row!(i128, d, kind, x),
        17 => row!(isize, d, kind, x),
        _ => vec![-97],
    }
}

/// Does the impl exist?  (zero is a value of every type of the grid)
pub fn exists(kind: i64, s: usize, d: usize) -> bool {
    run(kind, s, d, (false, 0)) != vec![-95]
}

/// Every conversion the compiler sees: (kind, s, d).  A fallible conversion that exists only
/// through the standard library's blanket `impl<T, U: Into<T>> TryFrom<U> for T` (i.e. whenever
/// the infallible one exists) is not listed separately.
pub fn table() -> Vec<(i64, usize, usize)> {
    let mut v = Vec::new();
    for s in 0..TYPES.len() {
        for d in 0..TYPES.len() {
            let f = exists(0, s, d);
            if f {
                v.push((0, s, d));
            }
            if !f && exists(1, s, d) {
                v.push((1, s, d));
            }
        }
    }
    v
}

/// restricted types: (name, repr, MAX), via the crate's own constants
pub fn newtypes() -> Vec<(&'static str, &'static str, i64)> {
    fn repr<T>(_: T) -> &'static str {
        match core::mem::size_of::<T>() {
            1 => "u8",
            2 => "u16",
            _ => "?",
        }
    }
    vec![
        ("U4", repr(U4::MAX.get()), U4::MAX.get() as i64),
        ("U7", repr(U7::MAX.get()), U7::MAX.get() as i64),
        ("U14", repr(U14::MAX.get()), U14::MAX.get() as i64),
        ("Channel", repr(Channel::MAX.get()), Channel::MAX.get() as i64),
        ("KeyNumber", repr(KeyNumber::MAX.get()), KeyNumber::MAX.get() as i64),
        ("ControllerNumber", repr(ControllerNumber::MAX.get()), ControllerNumber::MAX.get() as i64),
    ]
}
