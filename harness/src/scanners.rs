//! C15 / C16 / C17: properties shared by the three scanners (kind 0: 14-bit CC, 1: (N)RPN,
//! 2: polling (N)RPN on the mock clock).
use crate::common::*;
use crate::polling::Clock;
use crate::rng::Rng;
use crate::{cc14, nrpn, polling};
use helgoboss_midi::*;

#[derive(Copy, Clone, PartialEq, Debug)]
pub enum Sc {
    Cc(ControlChange14BitMessageScanner),
    Pn(ParameterNumberMessageScanner),
    Po(PollingParameterNumberMessageScanner),
}

impl Sc {
    /// kinds 0..2: created by `new` (the polling scanner with `timeout`); kinds 10..12: the same
    /// scanners created by `Default::default()` (the polling scanner then has timeout zero)
    pub fn new(kind: i64, timeout: i64) -> Sc {
        if kind >= 10 {
            return Sc::default(kind - 10);
        }
        match kind {
            0 => Sc::Cc(ControlChange14BitMessageScanner::new()),
            1 => Sc::Pn(ParameterNumberMessageScanner::new()),
            _ => Sc::Po(polling::new_scanner(timeout)),
        }
    }
    pub fn default(kind: i64) -> Sc {
        match kind {
            0 => Sc::Cc(Default::default()),
            1 => Sc::Pn(Default::default()),
            _ => Sc::Po(Default::default()),
        }
    }
    pub fn run(&mut self, clock: &mut Clock, ops: &[i64], obs: &mut Vec<i64>) -> bool {
        match self {
            Sc::Cc(s) => cc14::run_ops(s, ops, obs),
            Sc::Pn(s) => nrpn::run_ops(s, ops, obs),
            Sc::Po(s) => polling::run_ops(s, clock, ops, obs),
        }
    }
    /// `Clone::clone_from` of the scanner itself (not of this wrapper)
    pub fn clone_from_inner(&mut self, other: &Sc) {
        match (self, other) {
            (Sc::Cc(a), Sc::Cc(b)) => a.clone_from(b),
            (Sc::Pn(a), Sc::Pn(b)) => a.clone_from(b),
            (Sc::Po(a), Sc::Po(b)) => a.clone_from(b),
            _ => {}
        }
    }
    pub fn reset(&mut self) {
        match self {
            Sc::Cc(s) => s.reset(),
            Sc::Pn(s) => s.reset(),
            Sc::Po(s) => s.reset(),
        }
    }
}

fn op_channel(op: &[i64]) -> Option<i64> {
    match op[0] {
        2 | 4 | 8 => None,
        3 | 7 => Some(op[1]),
        _ => {
            if op[1] >= 128 && op[1] < 240 {
                Some(op[1] % 16)
            } else {
                None
            }
        }
    }
}

fn relevant(c: i64, op: &[i64]) -> bool {
    match op[0] {
        2 | 4 | 8 => true,
        _ => op_channel(op) == Some(c),
    }
}

pub fn exec(tag: i64, inp: &[i64]) -> Vec<i64> {
    match tag {
        150 => {
            let (kind, timeout, nch) = (inp[0], inp[1], inp[2] as usize);
            let chans = &inp[3..6];
            let ops = &inp[6..];
            let mut obs = Vec::new();
            let mut sc = Sc::new(kind, timeout);
            if !sc.run(&mut Clock(0), ops, &mut obs) {
                return vec![PANIC];
            }
            for &c in &chans[..nch] {
                let proj: Vec<i64> = ops.chunks(4).filter(|o| relevant(c, o)).flatten().copied().collect();
                let mut own = Sc::new(kind, timeout);
                if !own.run(&mut Clock(0), &proj, &mut obs) {
                    return vec![PANIC];
                }
            }
            obs
        }
        160 => {
            let (kind, timeout, np) = (inp[0], inp[1], inp[2] as usize);
            let prior = &inp[3..3 + 4 * np];
            let msg = &inp[3 + 4 * np..3 + 4 * np + 4];
            let cont = &inp[3 + 4 * np + 4..];
            let mut sc = Sc::new(kind, timeout);
            let mut clock = Clock(0);
            let mut scratch = Vec::new();
            if !sc.run(&mut clock, prior, &mut scratch) {
                return vec![PANIC];
            }
            let before = sc;
            let mut out = Vec::new();
            if !sc.run(&mut clock, msg, &mut out) {
                return vec![PANIC];
            }
            if !crate::sm::debug_touch(&sc) {
                return vec![PANIC];
            }
            let eq = sc == before;
            // the rest of the stream is reported identically with and without the message
            // (not relying on the scanner's own `==`)
            let t = clock.0;
            let mut without = before;
            let (mut o1, mut o2) = (Vec::new(), Vec::new());
            if !sc.run(&mut Clock(t), cont, &mut o1) || !without.run(&mut Clock(t), cont, &mut o2) {
                return vec![PANIC];
            }
            vec![out.iter().all(|&x| x == NONE) as i64, eq as i64, (o1 == o2) as i64]
        }
        161 => {
            let n = inp[0];
            let r = region(|| {
                let c = cn(n);
                (
                    c.can_be_part_of_14_bit_control_change_message(),
                    c.corresponding_14_bit_lsb_controller_number(),
                    c.is_parameter_number_message_controller_number(),
                )
            });
            let (a, b, c) = match r {
                None => return vec![PANIC],
                Some(x) => x,
            };
            // does each scanner react to this controller in a suitable state?
            let mut reacts = Vec::new();
            for kind in 0..3 {
                let mut sc = Sc::new(kind, 0);
                let mut clock = Clock(0);
                let mut scratch = Vec::new();
                let prefix: Vec<i64> = if kind == 0 {
                    if (32..64).contains(&n) { vec![0, 176, n - 32, 5] } else { vec![] }
                } else {
                    vec![0, 176, 99, 1, 0, 176, 98, 2]
                };
                sc.run(&mut clock, &prefix, &mut scratch);
                let before = sc;
                let mut out = Vec::new();
                sc.run(&mut clock, &[0, 176, n, 9], &mut out);
                reacts.push((sc != before || out.iter().any(|&x| x != NONE)) as i64);
            }
            vec![a as i64, b.map(|x| x.get() as i64).unwrap_or(NONE), c as i64, reacts[0], reacts[1], reacts[2]]
        }
        162 => {
            let consts = crate::generated::consts::consts();
            match consts.get(inp[0] as usize) {
                Some((name, v)) => {
                    // the constant this one is the LSB partner of, if there is one
                    let base = name
                        .strip_suffix("_LSB")
                        .and_then(|b| consts.iter().find(|c| c.0 == b))
                        .map(|c| c.1)
                        .unwrap_or(NONE);
                    vec![*v, base]
                }
                None => vec![-97],
            }
        }
        170 => {
            // hundreds digit of the kind: how often the reset under test is called in a row
            let reps = [1usize, 2, 256, 65536, 65537][(inp[0] / 100).clamp(0, 4) as usize];
            let (kind, timeout, n1) = (inp[0] % 100, inp[1], inp[2] as usize);
            let ops1 = &inp[3..3 + 4 * n1];
            let ops2 = &inp[3 + 4 * n1..];
            let mut clock = Clock(0);
            let mut a = Sc::new(kind, timeout);
            let mut scratch = Vec::new();
            if !a.run(&mut clock, ops1, &mut scratch) {
                return vec![PANIC];
            }
            let t1 = clock.0;
            // `{:?}` of a scanner in any reachable state, at any later time, does not panic
            helgoboss_midi::verif_hooks::set_now(t1.saturating_add(inp[1].max(0) as u64).saturating_add(1));
            if !crate::sm::debug_touch(&a) {
                return vec![PANIC];
            }
            helgoboss_midi::verif_hooks::set_now(t1);
            let mut c = a; // copies taken before the reset
            let mut d = a;
            let saved = a;
            if region(|| {
                for _ in 0..reps {
                    a.reset();
                }
            })
            .is_none()
            {
                return vec![PANIC];
            }
            let e1 = a == Sc::new(kind, timeout);
            let e2 = Sc::default(kind % 10) == Sc::new(kind % 10, 0);
            let mut obs = vec![e1 as i64, e2 as i64, 0];
            let mut b = Sc::new(kind, timeout);
            let (mut oa, mut ob, mut oc, mut od) = (Vec::new(), Vec::new(), Vec::new(), Vec::new());
            if !a.run(&mut Clock(t1), ops2, &mut oa) || !b.run(&mut Clock(t1), ops2, &mut ob) {
                return vec![PANIC];
            }
            if !c.run(&mut Clock(t1), ops2, &mut oc) {
                return vec![PANIC];
            }
            // the copy's evolution did not touch the other copy
            let e3 = d == saved;
            if !d.run(&mut Clock(t1), ops2, &mut od) {
                return vec![PANIC];
            }
            // `clone()` and `clone_from` (into a scanner with another timeout and some history of
            // its own) give equal scanners that evolve like the source
            let mut e4 = true;
            for other_timeout in [0i64, 7, 1_000_000] {
                let mut target = Sc::new(kind % 10, other_timeout);
                let mut scratch2 = Vec::new();
                let warm: Vec<i64> = ops1.iter().copied().take(24).collect();
                if !target.run(&mut Clock(0), &warm, &mut scratch2) {
                    return vec![PANIC];
                }
                target.clone_from_inner(&saved);
                #[allow(clippy::clone_on_copy)]
                let mut cloned = saved.clone();
                let (mut o5, mut o6) = (Vec::new(), Vec::new());
                e4 &= target == saved && cloned == saved;
                if !target.run(&mut Clock(t1), ops2, &mut o5) || !cloned.run(&mut Clock(t1), ops2, &mut o6) {
                    return vec![PANIC];
                }
                e4 &= o5 == od && o6 == od;
            }
            obs[2] = (e3 && c == d && e4) as i64;
            obs.extend(oa);
            obs.extend(ob);
            obs.extend(oc);
            obs.extend(od);
            obs
        }
        _ => vec![-97],
    }
}

pub fn random_ops(r: &mut Rng, kind: i64, timeout: i64, maxlen: u64, v: &mut Vec<i64>) -> usize {
    match kind {
        0 => {
            let before = v.len();
            cc14::random_history(r, maxlen, v);
            (v.len() - before) / 4
        }
        1 => nrpn::random_history(r, maxlen, v),
        _ => polling::random_history(r, timeout, maxlen, v),
    }
}

/// scanner kind (one in five created through `Default`) and its timeout
fn pick_kind(r: &mut Rng) -> (i64, i64) {
    let kind = r.below(3) as i64;
    if r.chance(1, 5) {
        (kind + 10, 0)
    } else {
        (kind, pick_timeout(r, kind))
    }
}

fn pick_timeout(r: &mut Rng, kind: i64) -> i64 {
    if kind == 2 {
        r.pick(&polling::TIMEOUTS)
    } else {
        0
    }
}

pub fn gen_c15(tier: Tier, seed: u64, em: &mut Emitter) {
    let mut r = Rng::new(seed ^ 0xC15);
    // every ordered pair of channels over an abstracted alphabet (exhaustive depth 3 per pair)
    for kind in [0i64, 1, 2, 10, 11, 12] {
        let timeout = if kind == 2 { 5 } else { 0 };
        for c1 in 0..16i64 {
            for c2 in 0..16i64 {
                if c1 == c2 {
                    continue;
                }
                let syms: Vec<Vec<i64>> = if kind % 10 == 0 {
                    vec![vec![0, 176 + c1, 1, 5], vec![0, 176 + c1, 33, 6], vec![0, 176 + c2, 1, 7],
                         vec![0, 176 + c2, 33, 8], vec![0, 240 + c1 % 8, 33, 9]]
                } else {
                    let mut s = vec![vec![0, 176 + c1, 6, 5], vec![0, 176 + c1, 38, 6], vec![0, 176 + c2, 6, 7],
                         vec![0, 176 + c2, 96, 8], vec![0, 176 + c2, 99, 3], vec![0, 240 + c1 % 4, 6, 9]];
                    if kind % 10 == 2 {
                        s.push(vec![3, c1, 0, 0]);
                        s.push(vec![4, 5, 0, 0]);
                    }
                    s
                };
                let prefix: Vec<i64> = if kind % 10 == 0 { vec![] } else {
                    vec![0, 176 + c1, 99, 1, 0, 176 + c1, 98, 2, 0, 176 + c2, 101, 1, 0, 176 + c2, 100, 2]
                };
                let depth = if tier == Tier::Thorough { 4 } else { 2 };
                let total = (syms.len() as u64).pow(depth);
                for mut i in 0..total {
                    let mut inp = vec![kind, timeout, 2, c1, c2, 0];
                    inp.extend_from_slice(&prefix);
                    for _ in 0..depth {
                        inp.extend_from_slice(&syms[(i % syms.len() as u64) as usize]);
                        i /= syms.len() as u64;
                    }
                    em.emit_k("channel-pairs-exhaustive", 150, inp);
                }
            }
        }
    }
    // polling scanner: both channels selected, then every sequence of depth 5 (thorough 6) over
    // {value bytes, polls and number bytes on either channel, a time step at the timeout}
    for &(c1, c2) in &[(0i64, 1i64), (15, 3), (7, 8)] {
        let timeout = 5;
        let syms: Vec<Vec<i64>> = vec![
            vec![0, 176 + c1, 6, 5], vec![0, 176 + c2, 6, 7], vec![0, 176 + c1, 38, 6],
            vec![0, 176 + c2, 99, 3], vec![3, c1, 0, 0], vec![3, c2, 0, 0], vec![4, 5, 0, 0],
            vec![0, 176 + c2, 96, 8],
        ];
        let prefix = vec![0, 176 + c1, 99, 1, 0, 176 + c1, 98, 2, 0, 176 + c2, 101, 1, 0, 176 + c2, 100, 2];
        let depth = if tier == Tier::Thorough { 6 } else { 5 };
        let total = (syms.len() as u64).pow(depth);
        for mut i in 0..total {
            let mut inp = vec![2, timeout, 2, c1, c2, 0];
            inp.extend_from_slice(&prefix);
            for _ in 0..depth {
                inp.extend_from_slice(&syms[(i % syms.len() as u64) as usize]);
                i /= syms.len() as u64;
            }
            em.emit_k("polling-two-channels-exhaustive", 150, inp);
        }
    }
    // drift: channel b is left in the middle of a construct, then channel a runs one short cycle
    // of operations 254..258 times (or 300), then b continues -- bookkeeping shared between the
    // channels that is a little off per cycle (counters, masks)
    let ncyc = if tier == Tier::Thorough { 3_000 } else { 300 };
    for _ in 0..ncyc {
        let kind = r.below(3) as i64;
        let timeout = if kind == 2 { r.pick(&[0i64, 5, 1000]) } else { 0 };
        let a = r.below(16) as i64;
        let mut b = r.below(16) as i64;
        if b == a {
            b = (a + 1 + r.below(15) as i64) % 16;
        }
        let v = |r: &mut Rng| r.below(128) as i64;
        let mut ops: Vec<i64> = Vec::new();
        // both channels select something / start a construct
        if kind == 0 {
            ops.extend_from_slice(&[0, 176 + b, 5, v(&mut r)]);
        } else {
            for &c in &[a, b] {
                ops.extend_from_slice(&[0, 176 + c, 99, v(&mut r), 0, 176 + c, 98, v(&mut r)]);
            }
            ops.extend_from_slice(&[0, 176 + b, r.pick(&[6i64, 38]), v(&mut r)]);
        }
        let tick = [4, timeout.max(1), 0, 0];
        let cycles: Vec<Vec<i64>> = if kind == 0 {
            vec![
                vec![0, 176 + a, 7, 1, 0, 176 + a, 39, 2],
                vec![0, 176 + a, 7, 1],
                vec![0, 176 + a, 39, 2],
                vec![0, 176 + a, 7, 1, 2, 0, 0, 0],
            ]
        } else {
            let mut cs = vec![
                vec![0, 176 + a, 6, 3, 0, 176 + a, 38, 4],
                vec![0, 176 + a, 38, 4, 0, 176 + a, 6, 3],
                vec![0, 176 + a, 96, 1],
                vec![0, 176 + a, 38, 4, 0, 176 + a, 99, 9],
                vec![0, 176 + a, 6, 3, 0, 176 + a, 98, 9],
            ];
            if kind == 2 {
                let mut c1 = vec![0, 176 + a, 38, 4];
                c1.extend_from_slice(&tick);
                c1.extend_from_slice(&[3, a, 0, 0]);
                let mut c2 = vec![0, 176 + a, 6, 3];
                c2.extend_from_slice(&tick);
                c2.extend_from_slice(&[3, a, 0, 0]);
                let c3 = vec![0, 176 + a, 6, 3, 3, a, 0, 0];
                let c4 = vec![3, a, 0, 0];
                cs.extend(vec![c1, c2, c3, c4]);
            }
            cs
        };
        let cyc = r.pick_ref(&cycles).clone();
        let k = r.pick(&[254usize, 255, 256, 257, 258, 300]);
        for _ in 0..k {
            ops.extend_from_slice(&cyc);
        }
        // b continues
        if kind == 0 {
            ops.extend_from_slice(&[0, 176 + b, 37, v(&mut r)]);
        } else {
            if kind == 2 {
                ops.extend_from_slice(&tick);
                ops.extend_from_slice(&[3, b, 0, 0]);
            }
            ops.extend_from_slice(&[0, 176 + b, 6, v(&mut r), 0, 176 + b, 38, v(&mut r), 0, 176 + b, 97, 1]);
            if kind == 2 {
                ops.extend_from_slice(&tick);
                ops.extend_from_slice(&[3, b, 0, 0, 3, a, 0, 0]);
            }
        }
        let mut inp = vec![kind, timeout, 2, a, b, 0];
        inp.extend_from_slice(&ops);
        em.emit_k(&format!("drift-cycles/kind={}", kind), 150, inp);
    }
    // a block [reset, traffic on b] about 2^16 times while channel a has progress from before
    for kind in 0..3i64 {
        let timeout = if kind == 2 { 5 } else { 0 };
        for d in 0..5i64 {
            let n = 65_533 + d;
            let (a, b) = (r.below(16) as i64, r.below(16) as i64);
            let b = if b == a { (a + 1) % 16 } else { b };
            let mut ops: Vec<i64> = if kind == 0 {
                vec![0, 176 + a, 3, 9]
            } else {
                vec![0, 176 + a, 99, 3, 0, 176 + a, 98, 36, 0, 176 + a, 38, 24]
            };
            let block: Vec<i64> = if kind == 0 { vec![2, 0, 0, 0, 0, 176 + b, 4, 1] } else { vec![2, 0, 0, 0, 0, 176 + b, 99, 1] };
            ops.extend_from_slice(&[11, n, 2, 0]);
            ops.extend_from_slice(&block);
            ops.extend_from_slice(&block);
            if kind == 0 {
                ops.extend_from_slice(&[0, 176 + a, 35, 7, 0, 176 + b, 36, 2]);
            } else {
                ops.extend_from_slice(&[0, 176 + a, 6, 117, 0, 176 + b, 98, 2, 0, 176 + b, 6, 3]);
                if kind == 2 {
                    ops.extend_from_slice(&[4, 5, 0, 0, 3, a, 0, 0, 3, b, 0, 0]);
                }
            }
            let mut inp = vec![kind, timeout, 2, a, b, 0];
            inp.extend_from_slice(&ops);
            em.emit_k(&format!("block-repeated-2^16/kind={}", kind), 150, inp);
        }
    }
    // all 16 channels in the same phase at once (everything selected / every channel with a
    // pending first value byte / fifteen pending and one not), in any channel order and with
    // time steps between and after, then polls and completions on some of them
    let nall = if tier == Tier::Thorough { 2_000 } else { 200 };
    for _ in 0..nall {
        let kind = r.below(3) as i64;
        let timeout = if kind == 2 { r.pick(&[0i64, 5, 1000, 1_000_000]) } else { 0 };
        let mut order: Vec<i64> = (0..16).collect();
        for i in (1..16).rev() {
            order.swap(i, r.below(i as u64 + 1) as usize);
        }
        let skip = if r.chance(1, 3) { r.below(16) as i64 } else { -1 };
        let first = r.pick(&[6i64, 38]);
        let mut ops: Vec<i64> = Vec::new();
        for &c in &order {
            if kind == 0 {
                if c != skip {
                    ops.extend_from_slice(&[0, 176 + c, 3, c + 1]);
                }
            } else {
                ops.extend_from_slice(&[0, 176 + c, 99, c, 0, 176 + c, 98, c + 1]);
                if c != skip {
                    ops.extend_from_slice(&[0, 176 + c, first, 10 + c]);
                }
            }
            if kind == 2 && r.chance(1, 4) {
                ops.extend_from_slice(&[4, polling::time_step(&mut r, timeout), 0, 0]);
            }
        }
        if kind == 2 {
            ops.extend_from_slice(&[4, polling::time_step(&mut r, timeout), 0, 0]);
        }
        let (a, b) = (order[r.below(16) as usize], order[r.below(16) as usize]);
        for &c in &[a, b, a] {
            if kind == 2 {
                ops.extend_from_slice(&[3, c, 0, 0]);
            }
            if kind == 0 {
                ops.extend_from_slice(&[0, 176 + c, 35, 99]);
            } else {
                ops.extend_from_slice(&[0, 176 + c, if first == 6 { 38 } else { 6 }, 77]);
            }
            if kind == 2 {
                ops.extend_from_slice(&[4, polling::time_step(&mut r, timeout), 0, 0, 3, c, 0, 0]);
            }
        }
        let mut inp = vec![kind, timeout, 2, a, if b == a { (a + 1) % 16 } else { b }, 0];
        inp.extend_from_slice(&ops);
        em.emit_k(&format!("all-channels-same-phase/kind={}", kind), 150, inp);
    }
    // seeded random interleavings of up to 16 channels over the full alphabet
    let n = if tier == Tier::Thorough { 150_000 } else { 6_000 };
    for _ in 0..n {
        let (kind, timeout) = pick_kind(&mut r);
        let mut ops = Vec::new();
        random_ops(&mut r, kind % 10, timeout, if tier == Tier::Thorough { 120 } else { 50 }, &mut ops);
        // observe up to three of the channels that occur
        let mut used: Vec<i64> = ops.chunks(4).filter_map(op_channel).collect();
        used.sort();
        used.dedup();
        let mut chans = [0i64; 3];
        let mut nch = 0;
        while nch < 3 && !used.is_empty() {
            let i = r.below(used.len() as u64) as usize;
            chans[nch] = used.remove(i);
            nch += 1;
        }
        let mut inp = vec![kind, timeout, nch as i64, chans[0], chans[1], chans[2]];
        inp.extend_from_slice(&ops);
        em.emit_k(&format!("random/kind={}", kind), 150, inp);
    }
}

pub fn gen_c16(tier: Tier, seed: u64, em: &mut Emitter) {
    let mut r = Rng::new(seed ^ 0xC16);
    for n in 0..128 {
        em.emit_k("predicates", 161, vec![n]);
    }
    let nconsts = crate::generated::consts::consts().len() as i64;
    for i in 0..nconsts {
        em.emit_k("constants", 162, vec![i]);
    }
    // every non-contributing message class after seeded prior histories
    let reps = if tier == Tier::Thorough { 40 } else { 3 };
    for kind in [0i64, 1, 2, 10, 11, 12] {
        for _ in 0..reps {
            let timeout = if kind >= 10 { 0 } else { pick_timeout(&mut r, kind) };
            let mut prior = Vec::new();
            let np = random_ops(&mut r, kind % 10, timeout, 30, &mut prior);
            let mut emit = |r: &mut Rng, em: &mut Emitter, s: i64, a: i64, b: i64| {
                let k = r.pick(&[0i64, 1, 5, 6]);
                let mut inp = vec![kind, timeout, np as i64];
                inp.extend_from_slice(&prior);
                inp.extend_from_slice(&[k, s, a, b]);
                random_ops(r, kind % 10, timeout, 6, &mut inp);
                em.emit_k(&format!("transparent/kind={}", kind), 160, inp);
            };
            // all status bytes that are not Control Change
            for s in 128..256i64 {
                if s / 16 == 11 {
                    continue;
                }
                let (a, b) = (r.below(128) as i64, r.below(128) as i64);
                emit(&mut r, em, s, a, b);
            }
            // all non-contributing controller numbers x sampled values, on a random channel
            for n in 0..128i64 {
                if contributes(kind, n) {
                    continue;
                }
                let vals: Vec<i64> = if tier == Tier::Thorough { (0..128).collect() } else { vec![0, 127, r.below(128) as i64] };
                for v in vals {
                    let c = r.below(16) as i64;
                    emit(&mut r, em, 176 + c, n, v);
                }
            }
        }
    }
    // the states in which a scanner is most likely to react: a seeded history, then on channel c
    // the beginning of a construct (an MSB / a selected number / a pending first value byte),
    // for the polling scanner possibly followed by a time step around the timeout -- and then a
    // non-contributing message on the *same* channel (mostly) or elsewhere
    let n = if tier == Tier::Thorough { 300_000 } else { 12_000 };
    for _ in 0..n {
        let (kind, timeout) = pick_kind(&mut r);
        let k10 = kind % 10;
        let mut prior = Vec::new();
        random_ops(&mut r, k10, timeout, 12, &mut prior);
        let c = r.below(16) as i64;
        let mk = r.pick(&[0i64, 1, 5, 6]);
        if k10 == 0 {
            if r.chance(3, 4) {
                prior.extend_from_slice(&[mk, 176 + c, r.below(32) as i64, r.below(128) as i64]);
            }
            if r.chance(1, 4) {
                prior.extend_from_slice(&[mk, 176 + c, 32 + r.below(32) as i64, r.below(128) as i64]);
            }
        } else {
            let reg = r.chance(1, 2);
            if r.chance(5, 6) {
                prior.extend_from_slice(&[mk, 176 + c, if reg { 101 } else { 99 }, r.below(128) as i64]);
            }
            if r.chance(5, 6) {
                prior.extend_from_slice(&[mk, 176 + c, if reg { 100 } else { 98 }, r.below(128) as i64]);
            }
            match r.below(5) {
                0 => {}
                1 | 2 => prior.extend_from_slice(&[mk, 176 + c, 6, r.below(128) as i64]),
                3 => prior.extend_from_slice(&[mk, 176 + c, 38, r.below(128) as i64]),
                _ => {
                    prior.extend_from_slice(&[mk, 176 + c, 38, r.below(128) as i64]);
                    prior.extend_from_slice(&[mk, 176 + c, 6, r.below(128) as i64]);
                }
            }
            if k10 == 2 && r.chance(2, 3) {
                prior.extend_from_slice(&[4, polling::time_step(&mut r, timeout), 0, 0]);
            }
        }
        let ch = if r.chance(4, 5) { c } else { r.below(16) as i64 };
        let (s, a, b) = match r.below(6) {
            0 => (r.pick(&[128i64, 144, 160, 192, 208, 224]) + ch, r.pick(&[6i64, 38, 96, 98, 99, 100, 101, 0, 32, 127]), r.below(128) as i64),
            1 => (240 + r.below(16) as i64, r.pick(&[6i64, 38, 96, 98, 101, 0, 32]), r.below(128) as i64),
            _ => {
                let mut cnum = r.below(128) as i64;
                while contributes(kind, cnum) {
                    cnum = r.below(128) as i64;
                }
                (176 + ch, cnum, r.below(128) as i64)
            }
        };
        let mut inp = vec![kind, timeout, (prior.len() / 4) as i64];
        inp.extend_from_slice(&prior);
        inp.extend_from_slice(&[r.pick(&[0i64, 1, 5, 6]), s, a, b]);
        // the rest of the stream: mostly the completion of the open construct on channel c
        if k10 == 0 {
            inp.extend_from_slice(&[0, 176 + c, 32 + r.below(32) as i64, r.below(128) as i64]);
        } else {
            inp.extend_from_slice(&[0, 176 + c, r.pick(&[6i64, 38, 96]), r.below(128) as i64]);
            if k10 == 2 {
                inp.extend_from_slice(&[4, polling::time_step(&mut r, timeout), 0, 0, 3, c, 0, 0]);
            }
        }
        random_ops(&mut r, k10, timeout, 4, &mut inp);
        em.emit_k(&format!("transparent-after-open-construct/kind={}", kind), 160, inp);
    }
    // wrap-around sandwiches: progress on channel c, W-1 resets, a non-contributing message on
    // c, one more reset, then the completion on c -- a lazily applied reset (generation counter
    // of 8 or 16 bits) must not be undone by the message in between
    // (thorough tier, optimised std build: also W = 2^32, one variant per scanner)
    let huge = tier == Tier::Thorough && !cfg!(debug_assertions);
    for kind in 0..3i64 {
        for &w in &[256i64, 65536, 1i64 << 32] {
            for variant in 0..6 {
                if w > 65536 && (!huge || variant != 0) {
                    continue;
                }
                let timeout = if kind == 2 { r.pick(&[0i64, 5, 1000]) } else { 0 };
                let c = r.below(16) as i64;
                let mut prior: Vec<i64> = if kind == 0 {
                    vec![0, 176 + c, 4, 9]
                } else {
                    vec![0, 176 + c, 99, 3, 0, 176 + c, 98, 37, 0, 176 + c, r.pick(&[6i64, 38]), 126]
                };
                prior.extend_from_slice(&[2, w - 2 - (variant % 2), 0, 0]);
                let noise = match variant / 2 {
                    0 => [0, 176 + c, if kind == 0 { 70 } else { 7 }, 100],
                    1 => [0, 144 + c, 6, 1],
                    _ => [0, 176 + c, 120, 0],
                };
                let mut inp = vec![kind, timeout, (prior.len() / 4) as i64];
                inp.extend_from_slice(&prior);
                inp.extend_from_slice(&noise);
                inp.extend_from_slice(&[2, variant % 2, 0, 0]);
                if kind == 0 {
                    inp.extend_from_slice(&[0, 176 + c, 36, 5]);
                } else {
                    inp.extend_from_slice(&[0, 176 + c, 38, 5, 0, 176 + c, 6, 7]);
                    if kind == 2 {
                        inp.extend_from_slice(&[4, timeout.max(1), 0, 0, 3, c, 0, 0]);
                    }
                }
                em.emit_k(&format!("transparent/reset-wrap-sandwich/kind={}", kind), 160, inp);
            }
        }
    }
}

fn contributes(kind: i64, n: i64) -> bool {
    if kind % 10 == 0 { n < 64 } else { [6, 38, 96, 97, 98, 99, 100, 101].contains(&n) }
}

pub fn gen_c17(tier: Tier, seed: u64, em: &mut Emitter) {
    let mut r = Rng::new(seed ^ 0xC17);
    let n = if tier == Tier::Thorough { 150_000 } else { 8_000 };
    let maxlen = if tier == Tier::Thorough { 100 } else { 40 };
    for _ in 0..n {
        let (kind, timeout) = pick_kind(&mut r);
        let mut ops1 = Vec::new();
        let n1 = random_ops(&mut r, kind % 10, timeout, maxlen, &mut ops1);
        // mostly one reset; sometimes 2 / 256 / 65536 / 65537 in a row
        let reps = if r.chance(3, 4) { 0 } else { 1 + r.below(4) as i64 };
        let mut inp = vec![kind + 100 * reps, timeout, n1 as i64];
        inp.extend_from_slice(&ops1);
        random_ops(&mut r, kind % 10, timeout, maxlen, &mut inp);
        em.emit_k(&format!("reset-copy/kind={}", kind), 170, inp);
    }
}
