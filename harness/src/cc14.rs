//! C07 / C08: ControlChange14BitMessage and its scanner.
use crate::common::*;
use crate::rng::Rng;
use helgoboss_midi::*;

/// Runs a history (4 integers per operation) on a scanner, appending 3 integers per operation.
pub fn run_ops(sc: &mut ControlChange14BitMessageScanner, ops: &[i64], obs: &mut Vec<i64>) -> bool {
    let mut prev = [0i64, 248, 0, 0];
    let mut silent: Option<(usize, i64, usize, usize)> = None;
    for (idx, op) in ops.chunks(4).enumerate() {
        if op.len() < 4 {
            break;
        }
        if op[0] == 11 {
            // marker: the next 2*w operations are two copies of one block of w operations;
            // between the two copies the block runs op[1] more times without being observed
            // (the model runs the two copies: the block is stable from its second run on)
            silent = Some((idx + op[2].max(0) as usize, op[1].max(0), idx + 1, op[2].max(0) as usize));
            continue;
        }
        if op[0] == 9 {
            // the previous operation op[1] (>= 2) more times; observed: the first and the last
            // of these applications (the model applies it twice: it is stable from then on)
            let p = prev;
            if matches!(p[0], 2 | 8 | 10) {
                obs.extend_from_slice(&enc_cc14(&None));
                obs.extend_from_slice(&enc_cc14(&None));
                continue;
            }
            let first = region(|| with_msg(p[0], p[1], p[2], p[3], &mut |m| m.feed_cc14(sc)));
            let n = op[1].max(2) - 1;
            let last = region(|| {
                with_msg(p[0], p[1], p[2], p[3], &mut |m| {
                    let mut l = None;
                    for _ in 0..n {
                        l = m.feed_cc14(sc);
                    }
                    l
                })
            });
            match (first, last) {
                (Some(a), Some(b)) => {
                    obs.extend_from_slice(&enc_cc14(&a));
                    obs.extend_from_slice(&enc_cc14(&b));
                }
                _ => return false,
            }
            continue;
        }
        prev = [op[0], op[1], op[2], op[3]];
        let r = match op[0] {
            2 => region(|| {
                for _ in 0..=op[1] {
                    sc.reset();
                }
                None
            }),
            // starting over with a scanner created through Default (in the model: a new scanner)
            8 => region(|| {
                *sc = Default::default();
                None
            }),
            // real time passes between two feeds (no effect in the model: this scanner has no
            // notion of time)
            10 => {
                std::thread::sleep(std::time::Duration::from_millis(op[1] as u64));
                Some(None)
            }
            k => region(|| with_msg(k, op[1], op[2], op[3], &mut |m| m.feed_cc14(sc))),
        };
        match r {
            Some(o) => obs.extend_from_slice(&enc_cc14(&o)),
            None => return false,
        }
        if let Some((last, n, start, w)) = silent {
            if idx == last {
                silent = None;
                let block = &ops[4 * start..(4 * (start + w)).min(ops.len())];
                let mut scratch = Vec::new();
                for _ in 0..n {
                    scratch.clear();
                    if !run_ops(sc, block, &mut scratch) {
                        return false;
                    }
                }
            }
        }
    }
    true
}

pub fn exec(tag: i64, inp: &[i64]) -> Vec<i64> {
    match tag {
        70 => {
            let (c, n, v) = (ch(inp[0]), cn(inp[1]), u14(inp[2]));
            // the constructor is its own monitored call: a panic later on is a different observation
            let m = match region(|| ControlChange14BitMessage::new(c, n, v)) {
                None => return vec![PANIC],
                Some(m) => m,
            };
            let r = region(|| {
                let r: [RawShortMessage; 2] = m.to_short_messages();
                let s: [StructuredShortMessage; 2] = m.into();
                let g = [
                    m.channel().get() as i64,
                    m.msb_controller_number().get() as i64,
                    m.lsb_controller_number().get() as i64,
                    m.value().get() as i64,
                ];
                (g, r, s)
            });
            match r {
                None => vec![
                    m.channel().get() as i64,
                    m.msb_controller_number().get() as i64,
                    PANIC,
                    m.value().get() as i64,
                ],
                Some((g, r, s)) => {
                    let mut o = g.to_vec();
                    o.extend_from_slice(&bytes_of(&r[0]));
                    o.extend_from_slice(&bytes_of(&r[1]));
                    o.extend_from_slice(&bytes_of(&s[0]));
                    o.extend_from_slice(&bytes_of(&s[1]));
                    // third-party factories (only from_bytes_unchecked is theirs) get the same bytes
                    let same = region(|| {
                        let g: [Getters; 2] = m.to_short_messages();
                        let t: [Tuple; 2] = m.into();
                        (0..2).all(|i| bytes_of(&g[i]) == bytes_of(&r[i]) && bytes_of(&t[i]) == bytes_of(&r[i]))
                    });
                    o.push(same.map(|b| b as i64 & crate::sm::debug_touch(&m) as i64).unwrap_or(PANIC));
                    o
                }
            }
        }
        71 => {
            let (c, n, v, k) = (ch(inp[0]), cn(inp[1]), u14(inp[2]), inp[3]);
            let mut sc = ControlChange14BitMessageScanner::new();
            let mut scratch = Vec::new();
            if !run_ops(&mut sc, &inp[4..], &mut scratch) {
                return vec![PANIC];
            }
            let enc = region(|| ControlChange14BitMessage::new(c, n, v).to_short_messages::<RawShortMessage>());
            let enc = match enc {
                None => return vec![PANIC],
                Some(e) => e,
            };
            let mut ops = Vec::new();
            for m in enc.iter() {
                ops.push(k);
                ops.extend_from_slice(&bytes_of(m));
            }
            let mut obs = Vec::new();
            if !run_ops(&mut sc, &ops, &mut obs) {
                return vec![PANIC];
            }
            obs
        }
        80 => {
            let mut sc = ControlChange14BitMessageScanner::new();
            let mut obs = Vec::new();
            if !run_ops(&mut sc, inp, &mut obs) {
                return vec![PANIC];
            }
            obs
        }
        _ => vec![-97],
    }
}

/// One random operation over the 14-bit CC scanner's alphabet.
pub fn random_op(r: &mut Rng, nch: u64, v: &mut Vec<i64>) {
    random_op_inner(r, nch, v);
    crate::nrpn::confuse_value(r, v);
}

fn random_op_inner(r: &mut Rng, nch: u64, v: &mut Vec<i64>) {
    // sometimes repeat an earlier operation of this history verbatim
    if v.len() >= 8 && v.len() % 4 == 0 && r.chance(1, 8) {
        let i = 4 * r.below((v.len() / 4) as u64) as usize;
        let op = [v[i], v[i + 1], v[i + 2], v[i + 3]];
        v.extend_from_slice(&op);
        return;
    }
    let kind = *[0i64, 0, 0, 1, 5].get(r.below(5) as usize).unwrap();
    let c = r.below(nch) as i64;
    match r.below(22) {
        20 => {
            // a system message whose data bytes look like 14-bit CC traffic
            let s = r.pick(&[241i64, 242, 242, 243, 240, 247, 248]);
            v.extend_from_slice(&[kind, s, r.pick(&[0i64, 1, 2, 32, 33, 34]), r.below(128) as i64]);
        }
        21 => {
            // a non-Control-Change channel message whose data bytes look like 14-bit CC traffic
            let s = r.pick(&[128i64, 144, 160, 192, 208, 224]) + c;
            v.extend_from_slice(&[kind, s, r.pick(&[0i64, 1, 2, 32, 33, 34]), r.below(128) as i64]);
        }
        0 => {
            let k = r.pick(&[2i64, 2, 8]);
            let n = if k == 2 { reset_repeat(r) } else { 0 };
            v.extend_from_slice(&[k, n, 0, 0])
        }
        1 => {
            // any message of the full alphabet
            let s = 128 + r.below(128) as i64;
            v.extend_from_slice(&[kind, s, r.below(128) as i64, r.below(128) as i64]);
        }
        2 => {
            // Control Change with an arbitrary controller
            v.extend_from_slice(&[kind, 176 + c, r.below(128) as i64, r.below(128) as i64]);
        }
        3 | 4 => {
            // traffic of the other multi-message constructs on the same channel: (N)RPN
            // number / data entry / increment / decrement controllers (6 and 38 overlap with the
            // 14-bit Control Change pair 6/38)
            let n = r.pick(&[98i64, 99, 100, 101, 6, 38, 96, 97]);
            v.extend_from_slice(&[kind, 176 + c, n, r.below(128) as i64]);
        }
        5..=10 => {
            // MSB of a small set of controllers
            let n = r.pick(&[0i64, 1, 2, 6, 31]);
            v.extend_from_slice(&[kind, 176 + c, n, r.below(128) as i64]);
        }
        _ => {
            // LSB, mostly matching one of the small set
            let n = r.pick(&[32i64, 33, 34, 38, 63, 35, 64]);
            v.extend_from_slice(&[kind, 176 + c, n, r.below(128) as i64]);
        }
    }
}

pub fn random_history(r: &mut Rng, maxlen: u64, v: &mut Vec<i64>) {
    let len = r.below(maxlen + 1);
    let nch = r.pick(&[1u64, 2, 3, 16]);
    let mut ops = Vec::new();
    for _ in 0..len {
        random_op(r, nch, &mut ops);
    }
    long_run(r, &mut ops);
    v.extend(ops);
}

pub fn gen_c07(tier: Tier, seed: u64, em: &mut Emitter) {
    let mut r = Rng::new(seed ^ 0xC07);
    // constructor / getters / encoding: all channels x all controller numbers x boundary values
    let vals: Vec<i64> = if tier == Tier::Thorough {
        (0..16384).collect()
    } else {
        let mut v = vec![0, 1, 2, 63, 64, 127, 128, 129, 255, 256, 8191, 8192, 16256, 16382, 16383];
        for _ in 0..6 {
            v.push(r.below(16384) as i64);
        }
        v
    };
    for c in 0..16 {
        for n in 0..128 {
            if n >= 32 {
                em.emit_k("new/cn>=32", 70, vec![c, n, r.below(16384) as i64]);
                continue;
            }
            for &v in &vals {
                em.emit_k("new/valid", 70, vec![c, n, v]);
            }
        }
    }
    // scanner inverts the encoder after arbitrary prior traffic
    let n = if tier == Tier::Thorough { 200_000 } else { 6_000 };
    for i in 0..n {
        let c = r.below(16) as i64;
        let cnn = if r.chance(1, 3) { r.pick(&[0i64, 1, 6, 31]) } else { r.below(32) as i64 };
        let v = if i % 3 == 0 { r.pick(&[0i64, 127, 128, 16383, 16256]) } else { r.below(16384) as i64 };
        let k = r.pick(&[0i64, 1, 5, 6]);
        let mut inp = vec![c, cnn, v, k];
        if r.chance(1, 2) {
            // prior traffic concentrated on the message's own channel
            let len = r.below(if tier == Tier::Thorough { 60 } else { 20 });
            for _ in 0..len {
                let mut op = Vec::new();
                random_op(&mut r, 1, &mut op);
                if op[0] != 2 && op[1] >= 128 && op[1] < 240 {
                    op[1] = (op[1] / 16) * 16 + c;
                }
                inp.extend_from_slice(&op);
            }
        } else {
            random_history(&mut r, if tier == Tier::Thorough { 60 } else { 20 }, &mut inp);
        }
        em.emit_k("scan_encode", 71, inp);
    }
    long_runs(tier, &mut r, em);
}

/// Abstract alphabet for the bounded-exhaustive part.
const ABS: [[i64; 4]; 10] = [
    [0, 176, 1, 5],
    [0, 176, 2, 6],
    [1, 176, 33, 7],
    [0, 176, 34, 8],
    [0, 176, 70, 9],
    [5, 144, 60, 100],
    [0, 177, 1, 10],
    [1, 177, 33, 11],
    [2, 0, 0, 0],
    [0, 242, 33, 12],
];

/// Very long runs: one operation 70 000 / 2^24+5 times, counts around 2^16, a block of two
/// operations about 2^16 times, and (thorough tier, optimised build) one operation 2^32+5 times.
pub fn long_runs(tier: Tier, r: &mut Rng, em: &mut Emitter) {
    // one operation repeated very many times (op kind 9)
    {
        let n: i64 = if cfg!(debug_assertions) { 70_000 } else { (1 << 24) + 5 };
        let s = 176 + r.below(16) as i64;
        let c = r.below(32) as i64;
        em.emit_k("one operation repeated very many times", 80, vec![0, s, c, 5, 9, n, 0, 0, 0, s, c + 32, 6]);
        em.emit_k("one operation repeated very many times", 80, vec![0, s, c, 5, 0, s, c + 32, 6, 9, n, 0, 0, 0, s, c, 7, 0, s, c + 32, 8]);
        em.emit_k("one operation repeated very many times", 80, vec![0, s, c, 5, 0, s, 70, 6, 9, n, 0, 0, 0, s, c + 32, 8]);
    }
    crate::nrpn::huge_repeat_records(80, tier, r, em);
    {
        // counts around 2^16, and a block of two operations about 2^16 times (marker 11)
        let s = 176 + r.below(16) as i64;
        let o = 176 + (s - 176 + 1) % 16;
        let c = r.below(32) as i64;
        for d in 0..13i64 {
            let n = 65_528 + d;
            em.emit_k("one operation repeated about 2^16 times", 80, vec![0, s, c, 5, 0, s, 70, 1, 9, n, 0, 0, 0, s, c + 32, 6]);
        }
        for d in 0..6i64 {
            let n = 65_532 + d;
            let block = [2, 0, 0, 0, 0, o, 3, 5];
            let mut h = vec![0, s, c, 5, 11, n, 2, 0];
            h.extend_from_slice(&block);
            h.extend_from_slice(&block);
            h.extend_from_slice(&[0, s, c + 32, 6, 0, o, 35, 1]);
            em.emit_k("a block repeated about 2^16 times", 80, h);
        }
    }
}

pub fn gen_c08(tier: Tier, seed: u64, em: &mut Emitter) {
    let mut r = Rng::new(seed ^ 0xC08);
    // bounded-exhaustive over the abstract alphabet
    let depth = if tier == Tier::Thorough { 6 } else { 4 };
    let total = (ABS.len() as u64).pow(depth);
    for mut i in 0..total {
        let mut inp = Vec::with_capacity(4 * depth as usize);
        for _ in 0..depth {
            inp.extend_from_slice(&ABS[(i % ABS.len() as u64) as usize]);
            i /= ABS.len() as u64;
        }
        em.emit_k("abstract-exhaustive", 80, inp);
    }
    // seeded random histories over the full alphabet
    let (n, maxlen) = if tier == Tier::Thorough { (100_000, 200) } else { (3_000, 40) };
    for _ in 0..n {
        let mut inp = Vec::new();
        random_history(&mut r, maxlen, &mut inp);
        em.emit_k("random", 80, inp);
    }
    // role swaps: two MSBs on one channel whose values are the other's controller number plus a
    // multiple of 32 (all pairs of MSB controllers), then both LSBs -- shortcuts that compare a
    // stored (controller, value) pair with the wrong components
    let offs: &[(i64, i64)] = if tier == Tier::Thorough {
        &[(0, 0), (0, 32), (32, 0), (32, 32), (64, 32), (32, 64), (96, 96), (0, 96)]
    } else {
        &[(32, 32), (0, 0), (32, 0)]
    };
    for a in 0..32i64 {
        for b in 0..32i64 {
            if a == b {
                continue;
            }
            for &(o1, o2) in offs {
                let s = 176 + (a + b) % 16;
                em.emit_k("role-swaps", 80, vec![0, s, a, (b + o1) % 128, 0, s, b, (a + o2) % 128,
                                                 0, s, a + 32, 1, 0, s, b + 32, 2]);
            }
        }
    }
    long_runs(tier, &mut r, em);
    // this scanner has no notion of time: real time passing between MSB and LSB changes nothing
    let sleeps: &[i64] = if tier == Tier::Thorough { &[1200, 6000] } else { &[1200] };
    for &ms in sleeps {
        let s = 176 + r.below(16) as i64;
        let n = r.below(32) as i64;
        em.emit_k("real-time", 80, vec![0, s, n, 5, 10, ms, 0, 0, 0, s, n + 32, 6, 0, s, n + 32, 7]);
    }
}
