//! C09 / C10 / C11: ParameterNumberMessage and ParameterNumberMessageScanner.
use crate::common::*;
use crate::rng::Rng;
use helgoboss_midi::*;

pub fn enc_pn(o: &Option<ParameterNumberMessage>) -> [i64; 6] {
    match o {
        None => [NONE; 6],
        Some(m) => [
            m.channel().get() as i64,
            m.number().get() as i64,
            m.value().get() as i64,
            m.is_registered() as i64,
            m.is_14_bit() as i64,
            match m.data_type() {
                DataType::DataEntry => 0,
                DataType::DataIncrement => 1,
                DataType::DataDecrement => 2,
            },
        ],
    }
}

pub fn ctor(k: i64, c: Channel, n: U14, v: i64) -> ParameterNumberMessage {
    match k {
        0 => ParameterNumberMessage::non_registered_7_bit(c, n, u7(v)),
        1 => ParameterNumberMessage::non_registered_14_bit(c, n, u14(v)),
        2 => ParameterNumberMessage::non_registered_decrement(c, n, u7(v)),
        3 => ParameterNumberMessage::non_registered_increment(c, n, u7(v)),
        4 => ParameterNumberMessage::registered_7_bit(c, n, u7(v)),
        5 => ParameterNumberMessage::registered_14_bit(c, n, u14(v)),
        6 => ParameterNumberMessage::registered_decrement(c, n, u7(v)),
        _ => ParameterNumberMessage::registered_increment(c, n, u7(v)),
    }
}

pub fn order(z: i64) -> DataEntryByteOrder {
    if z == 0 {
        DataEntryByteOrder::MsbFirst
    } else {
        DataEntryByteOrder::LsbFirst
    }
}

fn enc_slots<T: ShortMessage>(slots: &[Option<T>; 4], obs: &mut Vec<i64>) {
    for s in slots.iter() {
        match s {
            None => obs.extend_from_slice(&[NONE, NONE, NONE]),
            Some(m) => obs.extend_from_slice(&bytes_of(m)),
        }
    }
}

pub fn run_ops(sc: &mut ParameterNumberMessageScanner, ops: &[i64], obs: &mut Vec<i64>) -> bool {
    let mut prev = [0i64, 248, 0, 0];
    let mut silent: Option<(usize, i64, usize, usize)> = None;
    for (idx, op) in ops.chunks(4).enumerate() {
        if op.len() < 4 {
            break;
        }
        if op[0] == 11 {
            // marker: the next 2*w operations are two copies of one block of w operations;
            // between the two copies the block runs op[1] more times without being observed
            // (the model runs the two copies: the block is stable from its second run on)
            silent = Some((idx + op[2].max(0) as usize, op[1].max(0), idx + 1, op[2].max(0) as usize));
            continue;
        }
        if op[0] == 9 {
            // the previous operation op[1] (>= 2) more times; observed: the first and the last
            // of these applications (the model applies it twice: it is stable from then on)
            let p = prev;
            if matches!(p[0], 2 | 8 | 10) {
                obs.extend_from_slice(&enc_pn(&None));
                obs.extend_from_slice(&enc_pn(&None));
                continue;
            }
            let first = region(|| with_msg(p[0], p[1], p[2], p[3], &mut |m| m.feed_pn(sc)));
            let n = op[1].max(2) - 1;
            let last = region(|| {
                with_msg(p[0], p[1], p[2], p[3], &mut |m| {
                    let mut l = None;
                    for _ in 0..n {
                        l = m.feed_pn(sc);
                    }
                    l
                })
            });
            match (first, last) {
                (Some(a), Some(b)) => {
                    obs.extend_from_slice(&enc_pn(&a));
                    obs.extend_from_slice(&enc_pn(&b));
                }
                _ => return false,
            }
            continue;
        }
        prev = [op[0], op[1], op[2], op[3]];
        let r = match op[0] {
            2 => region(|| {
                for _ in 0..=op[1] {
                    sc.reset();
                }
                None
            }),
            // starting over with a scanner created through Default (in the model: a new scanner)
            8 => region(|| {
                *sc = Default::default();
                None
            }),
            // real time passes between two feeds (no effect in the model: these scanners have
            // no notion of time)
            10 => {
                std::thread::sleep(std::time::Duration::from_millis(op[1] as u64));
                Some(None)
            }
            k => region(|| with_msg(k, op[1], op[2], op[3], &mut |m| m.feed_pn(sc))),
        };
        match r {
            Some(o) => obs.extend_from_slice(&enc_pn(&o)),
            None => return false,
        }
        if let Some((last, n, start, w)) = silent {
            if idx == last {
                silent = None;
                let block = &ops[4 * start..(4 * (start + w)).min(ops.len())];
                let mut scratch = Vec::new();
                for _ in 0..n {
                    scratch.clear();
                    if !run_ops(sc, block, &mut scratch) {
                        return false;
                    }
                }
            }
        }
    }
    true
}

pub fn exec(tag: i64, inp: &[i64]) -> Vec<i64> {
    match tag {
        90 => {
            let (k, c, n, v, ord) = (inp[0], ch(inp[1]), u14(inp[2]), inp[3], order(inp[4]));
            let r = region(|| {
                let m = ctor(k, c, n, v);
                let r: [Option<RawShortMessage>; 4] = m.to_short_messages(ord);
                let s: [Option<StructuredShortMessage>; 4] = m.to_short_messages(ord);
                let a: [Option<RawShortMessage>; 4] = m.into();
                (m, r, s, a)
            });
            match r {
                None => vec![PANIC],
                Some((m, r, s, a)) => {
                    let mut o = enc_pn(&Some(m)).to_vec();
                    enc_slots(&r, &mut o);
                    enc_slots(&s, &mut o);
                    enc_slots(&a, &mut o);
                    // third-party factories (only from_bytes_unchecked is theirs) get the same bytes
                    let same = region(|| {
                        let g: [Option<Getters>; 4] = m.to_short_messages(ord);
                        let t: [Option<Tuple>; 4] = m.into();
                        (0..4).all(|i| {
                            g[i].map(|x| bytes_of(&x)) == r[i].map(|x| bytes_of(&x))
                                && t[i].map(|x| bytes_of(&x)) == a[i].map(|x| bytes_of(&x))
                        })
                    });
                    o.push(same.map(|b| b as i64 & crate::sm::debug_touch(&m) as i64).unwrap_or(PANIC));
                    o
                }
            }
        }
        100 => {
            let (k, c, n, v, ord, kind) = (inp[0], ch(inp[1]), u14(inp[2]), inp[3], order(inp[4]), inp[5]);
            let mut sc = ParameterNumberMessageScanner::new();
            let mut scratch = Vec::new();
            if !run_ops(&mut sc, &inp[6..], &mut scratch) {
                return vec![PANIC];
            }
            let enc = region(|| ctor(k, c, n, v).to_short_messages::<RawShortMessage>(ord));
            let enc = match enc {
                None => return vec![PANIC],
                Some(e) => e,
            };
            let mut ops = Vec::new();
            for m in enc.iter().flatten() {
                ops.push(kind);
                ops.extend_from_slice(&bytes_of(m));
            }
            let mut obs = Vec::new();
            if !run_ops(&mut sc, &ops, &mut obs) {
                return vec![PANIC];
            }
            obs
        }
        101 => {
            let (c, reg, num, n, kind, nprior) = (inp[0], inp[1], inp[2], inp[3], inp[4], inp[5] as usize);
            let mut sc = ParameterNumberMessageScanner::new();
            let mut scratch = Vec::new();
            if !run_ops(&mut sc, &inp[6..6 + 4 * nprior], &mut scratch) {
                return vec![PANIC];
            }
            let vs = &inp[6 + 4 * nprior..];
            let st = 176 + c;
            let mut ops = vec![
                kind, st, if reg == 1 { 101 } else { 99 }, num / 128,
                kind, st, if reg == 1 { 100 } else { 98 }, num % 128,
            ];
            if n == 0 {
                for p in vs.chunks(2) {
                    if p.len() == 2 {
                        ops.extend_from_slice(&[kind, st, 38, p[0], kind, st, 6, p[1]]);
                    }
                }
            } else {
                for &v in vs {
                    ops.extend_from_slice(&[kind, st, n, v]);
                }
            }
            let mut obs = Vec::new();
            if !run_ops(&mut sc, &ops, &mut obs) {
                return vec![PANIC];
            }
            obs
        }
        110 => {
            let mut sc = ParameterNumberMessageScanner::new();
            let mut obs = Vec::new();
            if !run_ops(&mut sc, inp, &mut obs) {
                return vec![PANIC];
            }
            obs
        }
        _ => vec![-97],
    }
}

const PN_CNS: [i64; 8] = [98, 99, 100, 101, 38, 6, 96, 97];

/// One random operation over the (N)RPN scanners' alphabet (also used for the polling scanner).
pub fn random_op(r: &mut Rng, nch: u64, v: &mut Vec<i64>) {
    random_op_inner(r, nch, v);
    confuse_value(r, v);
}

/// Sometimes the value byte of the operation just generated is replaced by a byte that plays
/// another role in the same history (a controller number, a controller number +-32, an earlier
/// value): coincidences between independently chosen fields.
pub fn confuse_value(r: &mut Rng, v: &mut Vec<i64>) {
    let n = v.len();
    if n >= 8 && v[n - 4] != 2 && v[n - 4] != 8 && v[n - 4] != 10 && v[n - 3] >= 176 && v[n - 3] < 192 && r.chance(1, 6) {
        let i = 4 * r.below((n / 4 - 1) as u64) as usize;
        let pool = [v[i + 2], (v[i + 2] + 32) % 128, (v[i + 2] + 96) % 128, v[i + 3], v[n - 2], (v[n - 2] + 32) % 128];
        v[n - 1] = r.pick(&pool).clamp(0, 127);
    }
    // ... and the controller number by a byte derived from an earlier value
    if n >= 8 && v[n - 4] != 2 && v[n - 4] != 8 && v[n - 4] != 10 && v[n - 3] >= 176 && v[n - 3] < 192 && r.chance(1, 10) {
        let i = 4 * r.below((n / 4 - 1) as u64) as usize;
        let pool = [v[i + 3], (v[i + 3] + 96) % 128, (v[i + 3] + 32) % 128];
        v[n - 2] = r.pick(&pool).clamp(0, 127);
    }
}

fn random_op_inner(r: &mut Rng, nch: u64, v: &mut Vec<i64>) {
    // sometimes repeat an earlier operation of this history verbatim (identical bytes again)
    if v.len() >= 8 && v.len() % 4 == 0 && r.chance(1, 8) {
        let i = 4 * r.below((v.len() / 4) as u64) as usize;
        if v[i] != 3 && v[i] != 4 && v[i] != 7 {
            let op = [v[i], v[i + 1], v[i + 2], v[i + 3]];
            v.extend_from_slice(&op);
            return;
        }
    }
    let kind = r.pick(&[0i64, 0, 0, 1, 5]);
    let c = r.below(nch) as i64;
    let val = if r.chance(1, 3) { r.pick(&[0i64, 1, 127]) } else { r.below(128) as i64 };
    match r.below(26) {
        24 => {
            // a system message whose data bytes look like (N)RPN traffic (its low status nibble
            // is a "channel" only to a scanner that forgets to check the message category)
            let s = r.pick(&[241i64, 242, 242, 243, 240, 244, 247, 248, 254]);
            v.extend_from_slice(&[kind, s, r.pick(&PN_CNS), val]);
        }
        25 => {
            // a non-Control-Change channel message whose data bytes look like (N)RPN traffic
            let s = r.pick(&[128i64, 144, 160, 192, 208, 224]) + c;
            v.extend_from_slice(&[kind, s, r.pick(&PN_CNS), val]);
        }
        0 => {
            let k = r.pick(&[2i64, 2, 8]);
            let n = if k == 2 { reset_repeat(r) } else { 0 };
            v.extend_from_slice(&[k, n, 0, 0])
        }
        1 => {
            let s = 128 + r.below(128) as i64;
            v.extend_from_slice(&[kind, s, r.below(128) as i64, r.below(128) as i64]);
        }
        2 => v.extend_from_slice(&[kind, 176 + c, r.below(128) as i64, val]),
        _ => v.extend_from_slice(&[kind, 176 + c, r.pick(&PN_CNS), val]),
    }
}

pub fn random_history(r: &mut Rng, maxlen: u64, v: &mut Vec<i64>) -> usize {
    let len = r.below(maxlen + 1);
    let nch = r.pick(&[1u64, 1, 2, 3, 16]);
    let mut ops = Vec::new();
    for _ in 0..len {
        random_op(r, nch, &mut ops);
    }
    long_run(r, &mut ops);
    let n = ops.len() / 4;
    v.extend(ops);
    n
}

fn boundary14(r: &mut Rng) -> i64 {
    if r.chance(1, 2) {
        r.pick(&[0i64, 1, 127, 128, 129, 255, 256, 8191, 8192, 16256, 16382, 16383])
    } else {
        r.below(16384) as i64
    }
}

pub fn gen_c09(tier: Tier, seed: u64, em: &mut Emitter) {
    let mut r = Rng::new(seed ^ 0xC09);
    // full sweep per dimension with the others on boundaries
    for k in 0..8 {
        let is14 = k == 1 || k == 5;
        let vmax = if is14 { 16384 } else { 128 };
        for ord in 0..2 {
            for c in 0..16 {
                em.emit_k("sweep-channel", 90, vec![k, c, boundary14(&mut r), r.below(vmax) as i64, ord]);
            }
            let step = if tier == Tier::Thorough { 1 } else { 7 };
            let mut n = 0;
            while n < 16384 {
                em.emit_k("sweep-number", 90, vec![k, r.below(16) as i64, n, r.below(vmax) as i64, ord]);
                n += step;
            }
            let mut v = 0;
            let vstep = if tier == Tier::Thorough || !is14 { 1 } else { 5 };
            while v < vmax as i64 {
                em.emit_k("sweep-value", 90, vec![k, r.below(16) as i64, boundary14(&mut r), v, ord]);
                v += vstep;
            }
        }
    }
    let n = if tier == Tier::Thorough { 2_000_000 } else { 30_000 };
    for _ in 0..n {
        let k = r.below(8) as i64;
        let is14 = k == 1 || k == 5;
        let num = boundary14(&mut r);
        let mut v = if is14 { boundary14(&mut r) } else { r.below(128) as i64 };
        if r.chance(1, 8) {
            // fields that coincide or are derived from each other
            let c = [num, num / 128, num % 128, (num + 1) % 16384, num ^ 0x2000];
            v = r.pick(&c) % if is14 { 16384 } else { 128 };
        }
        em.emit_k("random", 90, vec![k, r.below(16) as i64, num, v, r.below(2) as i64]);
    }
}

pub fn gen_c10(tier: Tier, seed: u64, em: &mut Emitter) {
    let mut r = Rng::new(seed ^ 0xC10);
    let n = if tier == Tier::Thorough { 300_000 } else { 8_000 };
    let maxlen = if tier == Tier::Thorough { 60 } else { 25 };
    for _ in 0..n {
        let k = r.below(8) as i64;
        let is14 = k == 1 || k == 5;
        let v = if is14 { boundary14(&mut r) } else { r.below(128) as i64 };
        // C10 claims the LSB-first encoding for 14-bit messages, both orders otherwise
        let ord = if is14 { 1 } else { r.below(2) as i64 };
        let kind = r.pick(&[0i64, 1, 5, 6]);
        let c = r.below(16) as i64;
        let num = boundary14(&mut r);
        let mut inp = vec![k, c, num, v, ord, kind];
        random_history(&mut r, maxlen, &mut inp);
        if r.chance(1, 2) {
            // prior traffic about the *same* parameter: a message of any kind with the same
            // channel, number and (mostly) registered flag, possibly followed by dangling bytes
            let k2 = if r.chance(3, 4) { (k / 4) * 4 + r.below(4) as i64 } else { r.below(8) as i64 };
            let is14b = k2 == 1 || k2 == 5;
            let v2 = if is14b { boundary14(&mut r) } else { r.below(128) as i64 };
            let m2 = ctor(k2, ch(c), u14(num), v2);
            let enc: [Option<RawShortMessage>; 4] = m2.to_short_messages(order(r.below(2) as i64));
            for m in enc.iter().flatten() {
                inp.push(0);
                inp.extend_from_slice(&bytes_of(m));
            }
            for _ in 0..r.below(3) {
                let n = r.pick(&[38i64, 38, 6, 96, 7]);
                inp.extend_from_slice(&[0, 176 + c, n, r.below(128) as i64]);
            }
        }
        em.emit_k(if is14 { "encode-14bit-lsb-first" } else { "encode-7bit" }, 100, inp);
    }
    // running forms
    let n = if tier == Tier::Thorough { 100_000 } else { 4_000 };
    for i in 0..n {
        let c = r.below(16) as i64;
        let kind = r.pick(&[0i64, 1, 5]);
        let form = r.pick(&[6i64, 96, 97, 0]);
        let mut prior = Vec::new();
        let mut np = random_history(&mut r, maxlen, &mut prior);
        let reg = r.below(2) as i64;
        let num = boundary14(&mut r);
        if r.chance(1, 2) {
            // the same parameter was selected before and a data entry LSB is left dangling
            prior.extend_from_slice(&[0, 176 + c, if reg == 1 { 101 } else { 99 }, num / 128]);
            prior.extend_from_slice(&[0, 176 + c, if reg == 1 { 100 } else { 98 }, num % 128]);
            prior.extend_from_slice(&[0, 176 + c, 38, r.below(128) as i64]);
            np += 3;
            if r.chance(1, 2) {
                prior.extend_from_slice(&[0, 176 + c, 6, r.below(128) as i64]);
                np += 1;
            }
        }
        let mut inp = vec![c, reg, num, form, kind, np as i64];
        inp.extend_from_slice(&prior);
        let len = if i % 50 == 0 { 200 + r.below(300) } else { r.below(12) };
        let cnt = if form == 0 { 2 * len } else { len };
        for _ in 0..cnt {
            inp.push(r.below(128) as i64);
        }
        em.emit_k(if form == 0 { "running-pairs" } else { "running-single" }, 101, inp);
    }
    // "all lengths": one very long running form per kind of unit (more than 2^16 units after one
    // number selection, no reset in between) -- per-scanner counters
    for &form in &[6i64, 96, 97, 0] {
        let c = r.below(16) as i64;
        let mut inp = vec![c, r.below(2) as i64, boundary14(&mut r), form, 0, 0];
        let len = 65_600 + r.below(10);
        let cnt = if form == 0 { 2 * len } else { len };
        for _ in 0..cnt {
            inp.push(r.below(128) as i64);
        }
        em.emit_k("running-very-long", 101, inp);
    }
    real_time_records(110, tier, &mut r, em);
    giant_repeat_records(110, &mut r, em);
    huge_repeat_records(110, tier, &mut r, em);
}

/// Abstract alphabet for the bounded-exhaustive part: two values per byte class.
const ABS: [[i64; 4]; 14] = [
    [0, 176, 99, 1],
    [0, 176, 98, 2],
    [1, 176, 101, 3],
    [0, 176, 100, 4],
    [0, 176, 38, 5],
    [0, 176, 6, 6],
    [5, 176, 96, 7],
    [0, 176, 97, 8],
    [0, 176, 7, 9],
    [0, 144, 6, 100],
    [0, 177, 99, 10],
    [0, 177, 6, 11],
    [2, 0, 0, 0],
    [0, 242, 6, 12],
];

pub fn gen_c11(tier: Tier, seed: u64, em: &mut Emitter) {
    let mut r = Rng::new(seed ^ 0xC11);
    let depth = if tier == Tier::Thorough { 5 } else { 4 };
    let total = (ABS.len() as u64).pow(depth);
    for mut i in 0..total {
        let mut inp = Vec::with_capacity(4 * depth as usize);
        for _ in 0..depth {
            inp.extend_from_slice(&ABS[(i % ABS.len() as u64) as usize]);
            i /= ABS.len() as u64;
        }
        em.emit_k("abstract-exhaustive", 110, inp);
    }
    let (n, maxlen) = if tier == Tier::Thorough { (150_000, 200) } else { (5_000, 50) };
    for _ in 0..n {
        let mut inp = Vec::new();
        random_history(&mut r, maxlen, &mut inp);
        em.emit_k("random", 110, inp);
    }
    real_time_records(110, tier, &mut r, em);
    giant_repeat_records(110, &mut r, em);
    huge_repeat_records(110, tier, &mut r, em);
}

/// One operation repeated very many times (op kind 9): 70 000 times in the checked builds, more
/// than 2^24 times in the optimised ones -- thresholds and counters far beyond what an explicit
/// history can hold.
pub fn giant_repeat_records(tag: i64, r: &mut Rng, em: &mut Emitter) {
    let n: i64 = if cfg!(debug_assertions) { 70_000 } else { (1 << 24) + 5 };
    let c = r.below(16) as i64;
    let s = 176 + c;
    let b = |r: &mut Rng| r.below(128) as i64;
    let (x, y, l, m) = (b(r), b(r), b(r), b(r));
    let hs: Vec<Vec<i64>> = vec![
        // a number byte very often, then the rest of the selection and a 14-bit value
        vec![0, s, 99, x, 9, n, 0, 0, 0, s, 98, y, 0, s, 38, l, 0, s, 6, m],
        vec![0, s, 101, x, 0, s, 100, y, 9, n, 0, 0, 0, s, 38, l, 0, s, 6, m, 0, s, 96, 1],
        // a data entry LSB very often, then the MSB
        vec![0, s, 99, x, 0, s, 98, y, 0, s, 38, l, 9, n, 0, 0, 0, s, 6, m],
        // a data entry MSB / an increment very often, then a pair
        vec![0, s, 99, x, 0, s, 98, y, 0, s, 6, m, 9, n, 0, 0, 0, s, 38, l, 0, s, 6, m],
        vec![0, s, 101, x, 0, s, 100, y, 0, s, 97, 1, 9, n, 0, 0, 0, s, 38, l, 0, s, 6, m],
        // an unrelated message very often in the middle of a sequence
        vec![0, s, 99, x, 0, s, 98, y, 0, s, 38, l, 0, s, 7, 1, 9, n, 0, 0, 0, s, 6, m],
    ];
    for h in hs {
        em.emit_k("one operation repeated very many times", tag, h);
    }
    // counts around 2^16 (every count from 65529 to 65541 applications)
    for d in 0..13i64 {
        let n = 65_528 + d;
        em.emit_k("one operation repeated about 2^16 times", tag,
                  vec![0, s, 99, x, 0, s, 98, y, 0, s, 38, l, 0, s, 99, x, 9, n, 0, 0, 0, s, 98, y, 0, s, 6, m, 0, s, 38, l, 0, s, 6, m]);
        em.emit_k("one operation repeated about 2^16 times", tag,
                  vec![0, s, 101, x, 0, s, 100, y, 0, s, 6, m, 9, n, 0, 0, 0, s, 38, l, 0, s, 6, m]);
    }
    // a block of two operations about 2^16 times (marker 11): [number byte, value byte] with a
    // stale LSB from before; [reset, traffic elsewhere] with progress from before
    let o = 176 + (c + 1) % 16;
    for d in 0..6i64 {
        let n = 65_532 + d;
        for &vb in &[6i64, 96] {
            let block = [0, s, 98, y, 0, s, vb, m];
            let mut h = vec![0, s, 99, x, 0, s, 98, y, 0, s, 38, l, 11, n, 2, 0];
            h.extend_from_slice(&block);
            h.extend_from_slice(&block);
            h.extend_from_slice(&[0, s, 6, m]);
            em.emit_k("a block repeated about 2^16 times", tag, h);
        }
        let block = [2, 0, 0, 0, 0, o, 99, 5];
        let mut h = vec![0, s, 101, x, 0, s, 100, y, 0, s, 38, l, 11, n, 2, 0];
        h.extend_from_slice(&block);
        h.extend_from_slice(&block);
        h.extend_from_slice(&[0, s, 6, m, 0, o, 98, 1, 0, o, 6, 2]);
        em.emit_k("a block repeated about 2^16 times", tag, h);
    }
}

/// thorough tier, optimised std build only: one operation about 2^32 times (about a minute per
/// record) -- once followed by a reset, once with the reset *before* the 2^32 boundary is crossed
pub fn huge_repeat_records(tag: i64, tier: Tier, r: &mut Rng, em: &mut Emitter) {
    if tier != Tier::Thorough || cfg!(debug_assertions) || !cfg!(feature = "cfg_std") {
        return;
    }
    let s = 176 + r.below(16) as i64;
    let n = (1i64 << 32) + 5;
    let m = (1i64 << 32) - 20;
    if tag == 80 {
        em.emit_k("one operation 2^32 times", tag, vec![0, s, 3, 5, 9, n, 0, 0, 2, 0, 0, 0, 0, s, 4, 6, 0, s, 36, 7, 0, s, 3, 8, 0, s, 35, 9]);
        em.emit_k("one operation 2^32 times", tag, vec![0, s, 3, 5, 9, m, 0, 0, 2, 0, 0, 0, 0, s, 3, 5, 9, 40, 0, 0, 0, s, 35, 9, 0, s, 4, 6, 0, s, 36, 7]);
    } else {
        em.emit_k("one operation 2^32 times", tag, vec![0, s, 99, 1, 0, s, 98, 2, 0, s, 6, 5, 9, n, 0, 0, 2, 0, 0, 0, 0, s, 99, 1, 0, s, 98, 2, 0, s, 38, 3, 0, s, 6, 4]);
        em.emit_k("one operation 2^32 times", tag, vec![0, s, 99, 1, 9, m, 0, 0, 2, 0, 0, 0, 0, s, 99, 1, 9, 40, 0, 0, 0, s, 98, 2, 0, s, 38, 3, 0, s, 6, 4]);
    }
}

/// The non-polling scanner has no notion of time: real time passing between two feeds (a sleep
/// of 1.2 s; thorough also 6 s) changes nothing.
pub fn real_time_records(tag: i64, tier: Tier, r: &mut Rng, em: &mut Emitter) {
    let sleeps: &[i64] = if tier == Tier::Thorough { &[1200, 6000] } else { &[1200] };
    for &ms in sleeps {
        let c = r.below(16) as i64;
        let s = 176 + c;
        let (x, y, l, m) = (r.below(128) as i64, r.below(128) as i64, r.below(128) as i64, r.below(128) as i64);
        // number, LSB, <time>, MSB (14-bit); MSB <time> after the number; increments after <time>
        let h = vec![0, s, 99, x, 0, s, 98, y, 0, s, 38, l, 10, ms, 0, 0, 0, s, 6, m, 0, s, 96, 1, 0, s, 38, l, 0, s, 6, m];
        em.emit_k("real-time", tag, h);
    }
}
