//! C01 / C02 / C03 / C06: short messages, their implementations and factory constructors.
use crate::common::*;
use crate::rng::Rng;
use helgoboss_midi::*;
use std::convert::TryFrom;

pub fn enc_tcqf(f: &TimeCodeQuarterFrame) -> [i64; 3] {
    use TimeCodeQuarterFrame::*;
    match f {
        FrameCountLsNibble(v) => [0, v.get() as i64, 0],
        FrameCountMsNibble(v) => [1, v.get() as i64, 0],
        SecondsCountLsNibble(v) => [2, v.get() as i64, 0],
        SecondsCountMsNibble(v) => [3, v.get() as i64, 0],
        MinutesCountLsNibble(v) => [4, v.get() as i64, 0],
        MinutesCountMsNibble(v) => [5, v.get() as i64, 0],
        HoursCountLsNibble(v) => [6, v.get() as i64, 0],
        Last { hours_count_ms_bit, time_code_type } => {
            [7, *hours_count_ms_bit as i64, u8::from(*time_code_type) as i64]
        }
    }
}

pub fn dec_tcqf(i: i64, x: i64, y: i64) -> TimeCodeQuarterFrame {
    use TimeCodeQuarterFrame::*;
    let v = || U4::new(x as u8);
    match i {
        0 => FrameCountLsNibble(v()),
        1 => FrameCountMsNibble(v()),
        2 => SecondsCountLsNibble(v()),
        3 => SecondsCountMsNibble(v()),
        4 => MinutesCountLsNibble(v()),
        5 => MinutesCountMsNibble(v()),
        6 => HoursCountLsNibble(v()),
        _ => Last {
            hours_count_ms_bit: x == 1,
            time_code_type: TimeCodeType::try_from(y as u8).unwrap(),
        },
    }
}

pub fn enc_struct(m: &StructuredShortMessage) -> [i64; 4] {
    use StructuredShortMessage::*;
    let g = |x: u8| x as i64;
    match m {
        NoteOff { channel, key_number, velocity } => [0, g(channel.get()), g(key_number.get()), g(velocity.get())],
        NoteOn { channel, key_number, velocity } => [1, g(channel.get()), g(key_number.get()), g(velocity.get())],
        PolyphonicKeyPressure { channel, key_number, pressure_amount } => {
            [2, g(channel.get()), g(key_number.get()), g(pressure_amount.get())]
        }
        ControlChange { channel, controller_number, control_value } => {
            [3, g(channel.get()), g(controller_number.get()), g(control_value.get())]
        }
        ProgramChange { channel, program_number } => [4, g(channel.get()), g(program_number.get()), 0],
        ChannelPressure { channel, pressure_amount } => [5, g(channel.get()), g(pressure_amount.get()), 0],
        PitchBendChange { channel, pitch_bend_value } => [6, g(channel.get()), pitch_bend_value.get() as i64, 0],
        SystemExclusiveStart => [7, 0, 0, 0],
        TimeCodeQuarterFrame(f) => {
            let e = enc_tcqf(f);
            [8, e[0], e[1], e[2]]
        }
        SongPositionPointer { position } => [9, position.get() as i64, 0, 0],
        SongSelect { song_number } => [10, g(song_number.get()), 0, 0],
        TuneRequest => [11, 0, 0, 0],
        SystemExclusiveEnd => [12, 0, 0, 0],
        TimingClock => [13, 0, 0, 0],
        Start => [14, 0, 0, 0],
        Continue => [15, 0, 0, 0],
        Stop => [16, 0, 0, 0],
        ActiveSensing => [17, 0, 0, 0],
        SystemReset => [18, 0, 0, 0],
        SystemCommonUndefined1 => [19, 0, 0, 0],
        SystemCommonUndefined2 => [20, 0, 0, 0],
        SystemRealTimeUndefined1 => [21, 0, 0, 0],
        SystemRealTimeUndefined2 => [22, 0, 0, 0],
    }
}

pub fn dec_struct(v: i64, x: i64, y: i64, z: i64) -> StructuredShortMessage {
    use StructuredShortMessage::*;
    match v {
        0 => NoteOff { channel: ch(x), key_number: kn(y), velocity: u7(z) },
        1 => NoteOn { channel: ch(x), key_number: kn(y), velocity: u7(z) },
        2 => PolyphonicKeyPressure { channel: ch(x), key_number: kn(y), pressure_amount: u7(z) },
        3 => ControlChange { channel: ch(x), controller_number: cn(y), control_value: u7(z) },
        4 => ProgramChange { channel: ch(x), program_number: u7(y) },
        5 => ChannelPressure { channel: ch(x), pressure_amount: u7(y) },
        6 => PitchBendChange { channel: ch(x), pitch_bend_value: u14(y) },
        7 => SystemExclusiveStart,
        8 => TimeCodeQuarterFrame(dec_tcqf(x, y, z)),
        9 => SongPositionPointer { position: u14(x) },
        10 => SongSelect { song_number: u7(x) },
        11 => TuneRequest,
        12 => SystemExclusiveEnd,
        13 => TimingClock,
        14 => Start,
        15 => Continue,
        16 => Stop,
        17 => ActiveSensing,
        18 => SystemReset,
        19 => SystemCommonUndefined1,
        20 => SystemCommonUndefined2,
        21 => SystemRealTimeUndefined1,
        _ => SystemRealTimeUndefined2,
    }
}

fn opt<T: Into<i64>>(o: Option<T>) -> i64 {
    o.map(|x| x.into()).unwrap_or(NONE)
}

fn r1(f: impl FnOnce() -> i64) -> i64 {
    region(f).unwrap_or(PANIC)
}

/// The accessor observation (tag 20 layout); each method is its own monitored call.  As a macro
/// the calls are written in method syntax on the *concrete* type -- what user code writes -- so an
/// inherent method that shadows the trait method is what gets observed; `acc_obs` below is the
/// same list through a generic parameter, i.e. always the trait methods.
macro_rules! acc_obs_m {
    ($m:expr) => {{

    let mut o = vec![
        r1(|| u8::from($m.r#type()) as i64),
        r1(|| match $m.super_type() {
            MessageSuperType::ChannelVoice => 0,
            MessageSuperType::ChannelMode => 1,
            MessageSuperType::SystemCommon => 2,
            MessageSuperType::SystemRealTime => 3,
            MessageSuperType::SystemExclusive => 4,
        }),
        r1(|| match $m.main_category() {
            MessageMainCategory::Channel => 0,
            MessageMainCategory::System => 1,
        }),
        r1(|| opt($m.channel().map(|x| x.get() as i64))),
        r1(|| opt($m.key_number().map(|x| x.get() as i64))),
        r1(|| opt($m.velocity().map(|x| x.get() as i64))),
        r1(|| opt($m.controller_number().map(|x| x.get() as i64))),
        r1(|| opt($m.control_value().map(|x| x.get() as i64))),
        r1(|| opt($m.program_number().map(|x| x.get() as i64))),
        r1(|| opt($m.pressure_amount().map(|x| x.get() as i64))),
        r1(|| opt($m.pitch_bend_value().map(|x| x.get() as i64))),
        r1(|| $m.is_note() as i64),
        r1(|| $m.is_note_on() as i64),
        r1(|| $m.is_note_off() as i64),
    ];
    match region(|| $m.to_structured()) {
        Some(s) => o.extend_from_slice(&enc_struct(&s)),
        None => o.extend_from_slice(&[PANIC; 4]),
    }
    o.push(r1(|| match $m.r#type().super_type() {
        FuzzyMessageSuperType::Channel => 0,
        FuzzyMessageSuperType::SystemCommon => 1,
        FuzzyMessageSuperType::SystemRealTime => 2,
        FuzzyMessageSuperType::SystemExclusive => 3,
    }));
    o.push(r1(|| match $m.r#type().super_type().main_category() {
        MessageMainCategory::Channel => 0,
        MessageMainCategory::System => 1,
    }));
    o
    }};
}

pub fn acc_obs<T: ShortMessage>(m: &T) -> Vec<i64> {
    acc_obs_m!(m)
}

/// The accessor list through `&M` *as the implementor* (a generic instantiated with a reference
/// type, or a method call on a `&&M`), if the crate implements the trait for references at all
/// (autoref-specialisation probe: the original crate does not).
pub struct RefProbe<T>(pub T);
pub trait ViaRefYes {
    fn via_ref(&self) -> Option<Vec<i64>>;
}
impl<'a, M> ViaRefYes for RefProbe<&'a M>
where
    &'a M: ShortMessage,
{
    fn via_ref(&self) -> Option<Vec<i64>> {
        Some(acc_obs::<&'a M>(&self.0))
    }
}
pub trait ViaRefNo {
    fn via_ref(&self) -> Option<Vec<i64>> {
        None
    }
}
impl<T> ViaRefNo for &RefProbe<T> {}

/// If a message type implements `Default` (the original crate's do not), the default value is
/// a message like any other: its status byte is a status byte.  Autoref probe.
pub struct DefaultProbe<T>(pub core::marker::PhantomData<T>);
pub trait DefYes {
    fn default_status(&self) -> Option<i64>;
}
impl<T: Default + ShortMessage> DefYes for DefaultProbe<T> {
    fn default_status(&self) -> Option<i64> {
        Some(T::default().status_byte() as i64)
    }
}
pub trait DefNo {
    fn default_status(&self) -> Option<i64> {
        None
    }
}
impl<T> DefNo for &DefaultProbe<T> {}

/// Formatting with `{:?}` into a sink that discards everything: must not panic.
pub struct NullSink;
impl core::fmt::Write for NullSink {
    fn write_str(&mut self, _s: &str) -> core::fmt::Result {
        Ok(())
    }
}
pub fn debug_touch<T: core::fmt::Debug>(x: &T) -> bool {
    use core::fmt::Write;
    region(|| write!(NullSink, "{:?} {:#?}", x, x).is_ok()) == Some(true)
}

/// Runs `$body` with `$m` bound to the message (s,a,b) built as implementor kind `$k`.
macro_rules! with_kind {
    ($k:expr, $s:expr, $a:expr, $b:expr, $m:ident => $body:expr) => {
        match $k {
            K_STRUCT => {
                let $m = StructuredShortMessage::from_bytes(($s as u8, u7($a), u7($b))).unwrap();
                $body
            }
            K_GETTERS => {
                let $m = Getters($s as u8, u7($a), u7($b));
                $body
            }
            K_TUPLE => {
                let $m = Tuple(($s as u8, u7($a), u7($b)));
                $body
            }
            K_OVER => {
                let $m = Overrider(($s as u8, u7($a), u7($b)));
                $body
            }
            _ => {
                let $m = raw($s, $a, $b);
                $body
            }
        }
    };
}

fn from_bytes_obs<T: ShortMessageFactory>(s: i64, a: i64, b: i64) -> Vec<i64> {
    match region(|| T::from_bytes((s as u8, u7(a), u7(b)))) {
        None => vec![PANIC],
        Some(Err(_)) => vec![0, NONE, NONE, NONE],
        Some(Ok(m)) => {
            let mut o = vec![1];
            match region(|| m.to_bytes()) {
                Some((x, y, z)) => o.extend_from_slice(&[x as i64, y.get() as i64, z.get() as i64]),
                None => return vec![PANIC],
            }
            o
        }
    }
}

fn convert_obs<A: ShortMessage, B: ShortMessageFactory>(m: &A, conv: i64) -> Option<Vec<i64>> {
    let m2: B = region(|| if conv == 1 { B::from_other(m) } else { m.to_other::<B>() })?;
    let mut o = acc_obs(m);
    o.extend_from_slice(&region(|| bytes_of(m))?);
    o.extend(acc_obs(&m2));
    o.extend_from_slice(&region(|| bytes_of(&m2))?);
    Some(o)
}

// the same two observations with the constructors called by path on the *concrete* type (an
// inherent associated function of the same name would shadow the trait's)
macro_rules! ctor_obs_m {
    ($t:ty, $idx:expr, $x:expr, $y:expr, $z:expr) => {{

    let r: Option<$t> = region(|| match $idx {
        0 => <$t>::note_on(ch($x), kn($y), u7($z)),
        1 => <$t>::note_off(ch($x), kn($y), u7($z)),
        2 => <$t>::control_change(ch($x), cn($y), u7($z)),
        3 => <$t>::program_change(ch($x), u7($y)),
        4 => <$t>::polyphonic_key_pressure(ch($x), kn($y), u7($z)),
        5 => <$t>::channel_pressure(ch($x), u7($y)),
        6 => <$t>::pitch_bend_change(ch($x), u14($y)),
        7 => <$t>::system_exclusive_start(),
        8 => <$t>::time_code_quarter_frame(TimeCodeQuarterFrame::from(u7($x))),
        9 => <$t>::song_position_pointer(u14($x)),
        10 => <$t>::song_select(u7($x)),
        11 => <$t>::tune_request(),
        12 => <$t>::system_exclusive_end(),
        13 => <$t>::timing_clock(),
        14 => <$t>::start(),
        15 => <$t>::r#continue(),
        16 => <$t>::stop(),
        17 => <$t>::active_sensing(),
        _ => <$t>::system_reset(),
    });
    match r {
        None => vec![PANIC],
        Some(m) => {
            let mut o = bytes_of(&m).to_vec();
            o.extend(acc_obs(&m));
            o
        }
    }

    }};
}

macro_rules! generic_ctor_obs_m {
    ($t:ty, $which:expr, $code:expr, $c:expr, $a:expr, $b:expr) => {{

    let t = ShortMessageType::try_from($code as u8).unwrap();
    let r: Option<$t> = region(|| match $which {
        0 => <$t>::channel_message(t, ch($c), u7($a), u7($b)),
        1 => <$t>::system_common_message(t, u7($a), u7($b)),
        _ => <$t>::system_real_time_message(t),
    });
    match r {
        None => vec![PANIC],
        Some(m) => bytes_of(&m).to_vec(),
    }

    }};
}

fn ctor_obs<T: ShortMessageFactory>(idx: i64, x: i64, y: i64, z: i64) -> Vec<i64> {
    let r: Option<T> = region(|| match idx {
        0 => T::note_on(ch(x), kn(y), u7(z)),
        1 => T::note_off(ch(x), kn(y), u7(z)),
        2 => T::control_change(ch(x), cn(y), u7(z)),
        3 => T::program_change(ch(x), u7(y)),
        4 => T::polyphonic_key_pressure(ch(x), kn(y), u7(z)),
        5 => T::channel_pressure(ch(x), u7(y)),
        6 => T::pitch_bend_change(ch(x), u14(y)),
        7 => T::system_exclusive_start(),
        8 => T::time_code_quarter_frame(TimeCodeQuarterFrame::from(u7(x))),
        9 => T::song_position_pointer(u14(x)),
        10 => T::song_select(u7(x)),
        11 => T::tune_request(),
        12 => T::system_exclusive_end(),
        13 => T::timing_clock(),
        14 => T::start(),
        15 => T::r#continue(),
        16 => T::stop(),
        17 => T::active_sensing(),
        _ => T::system_reset(),
    });
    match r {
        None => vec![PANIC],
        Some(m) => {
            let mut o = bytes_of(&m).to_vec();
            o.extend(acc_obs(&m));
            o
        }
    }
}

fn generic_ctor_obs<T: ShortMessageFactory>(which: i64, code: i64, c: i64, a: i64, b: i64) -> Vec<i64> {
    let t = ShortMessageType::try_from(code as u8).unwrap();
    let r: Option<T> = region(|| match which {
        0 => T::channel_message(t, ch(c), u7(a), u7(b)),
        1 => T::system_common_message(t, u7(a), u7(b)),
        _ => T::system_real_time_message(t),
    });
    match r {
        None => vec![PANIC],
        Some(m) => bytes_of(&m).to_vec(),
    }
}

fn test_util_obs(idx: i64, x: i64, y: i64, z: i64) -> Vec<i64> {
    use helgoboss_midi::test_util as tu;
    let r = region(|| match idx {
        100 => tu::short(x as u8, y as u8, z as u8),
        0 => tu::note_on(x as u8, y as u8, z as u8),
        1 => tu::note_off(x as u8, y as u8, z as u8),
        2 => tu::control_change(x as u8, y as u8, z as u8),
        3 => tu::program_change(x as u8, y as u8),
        4 => tu::polyphonic_key_pressure(x as u8, y as u8, z as u8),
        5 => tu::channel_pressure(x as u8, y as u8),
        6 => tu::pitch_bend_change(x as u8, y as u16),
        7 => tu::system_exclusive_start(),
        9 => tu::song_position_pointer(x as u16),
        10 => tu::song_select(x as u8),
        11 => tu::tune_request(),
        12 => tu::system_exclusive_end(),
        13 => tu::timing_clock(),
        14 => tu::start(),
        15 => tu::r#continue(),
        16 => tu::stop(),
        17 => tu::active_sensing(),
        _ => tu::system_reset(),
    });
    match r {
        None => vec![PANIC],
        Some(m) => bytes_of(&m).to_vec(),
    }
}

pub fn exec(tag: i64, inp: &[i64]) -> Vec<i64> {
    match tag {
        10 => {
            let (k, s, a, b) = (inp[0], inp[1], inp[2], inp[3]);
            match k {
                K_STRUCT => from_bytes_obs::<StructuredShortMessage>(s, a, b),
                K_GETTERS => from_bytes_obs::<Getters>(s, a, b),
                K_TUPLE => from_bytes_obs::<Tuple>(s, a, b),
                K_OVER => from_bytes_obs::<Overrider>(s, a, b),
                _ => from_bytes_obs::<RawShortMessage>(s, a, b),
            }
        }
        11 => {
            let m = dec_struct(inp[0], inp[1], inp[2], inp[3]);
            let r = region(|| {
                let b = m.to_bytes();
                let back = StructuredShortMessage::from_bytes(b).ok();
                let via_raw: StructuredShortMessage = m.to_other::<RawShortMessage>().to_structured();
                let ts = m.to_structured();
                (b, back, via_raw, ts)
            });
            match r {
                None => vec![PANIC],
                Some((b, back, via_raw, ts)) => vec![
                    b.0 as i64,
                    b.1.get() as i64,
                    b.2.get() as i64,
                    (back == Some(m)) as i64,
                    (via_raw == m) as i64,
                    (ts == m) as i64,
                ],
            }
        }
        12 => {
            let a = inp[0];
            match region(|| {
                let f = TimeCodeQuarterFrame::from(u7(a));
                (f, U7::from(f))
            }) {
                None => vec![PANIC],
                Some((f, back)) => {
                    let mut o = enc_tcqf(&f).to_vec();
                    o.push(back.get() as i64);
                    o
                }
            }
        }
        13 => match region(|| ShortMessageType::try_from(inp[0] as u8).map(u8::from)) {
            None => vec![PANIC],
            Some(Ok(b)) => vec![1, b as i64],
            Some(Err(_)) => vec![0, NONE],
        },
        15 => {
            // values obtainable through optional trait impls: Default of the two message types
            let a = (&DefaultProbe::<RawShortMessage>(core::marker::PhantomData)).default_status();
            let b = (&DefaultProbe::<StructuredShortMessage>(core::marker::PhantomData)).default_status();
            vec![a.map(|s| (s >= 128) as i64).unwrap_or(1), b.map(|s| (s >= 128) as i64).unwrap_or(1)]
        }
        14 => with_kind!(inp[0], inp[1], inp[2], inp[3], m => {
            // every way from any implementor to the structured form and back to a raw message;
            // each conversion is its own monitored call
            fn b3(r: Option<(u8, U7, U7)>) -> [i64; 3] {
                match r {
                    Some((x, y, z)) => [x as i64, y.get() as i64, z.get() as i64],
                    None => [PANIC; 3],
                }
            }
            let mut o = Vec::new();
            // (if the crate implements the trait for references, the reference must behave like
            // the message itself: probe, see RefProbe)
            if let Some(v) = (&RefProbe(&m)).via_ref() {
                if v != acc_obs(&m) {
                    return vec![-94];
                }
            }
            o.extend_from_slice(&b3(region(|| m.to_structured().to_bytes())));
            o.extend_from_slice(&b3(region(|| m.to_other::<StructuredShortMessage>().to_bytes())));
            o.extend_from_slice(&b3(region(|| StructuredShortMessage::from_other(&m).to_bytes())));
            match region(|| m.to_structured()) {
                None => o.extend_from_slice(&[PANIC; 7]),
                Some(s) => {
                    o.extend_from_slice(&b3(region(|| RawShortMessage::from_other(&s).to_bytes())));
                    o.extend_from_slice(&b3(region(|| s.to_other::<RawShortMessage>().to_bytes())));
                    o.push(r1(|| (s.to_other::<RawShortMessage>().to_structured() == s
                        && StructuredShortMessage::from_other(&s) == s
                        && s.to_structured() == s) as i64));
                }
            }
            o
        }),
        20 => with_kind!(inp[0], inp[1], inp[2], inp[3], m => {
            // method syntax on the concrete type, then whether the generic (trait) path agrees
            let mut o = acc_obs_m!(m);
            let via_ref = (&RefProbe(&m)).via_ref();
            let same = (o == acc_obs(&m) && via_ref.map(|v| v == o).unwrap_or(true) && debug_touch(&m)) as i64;
            o.push(same);
            o
        }),
        30 => {
            let (k1, k2, conv) = (inp[0], inp[1], inp[2]);
            let r = with_kind!(k1, inp[3], inp[4], inp[5], m => {
                if conv == 2 {
                    // to_structured (k2 = structured)
                    match region(|| m.to_structured()) {
                        None => None,
                        Some(m2) => {
                            let mut o = acc_obs_m!(m);
                            o.extend_from_slice(&bytes_of(&m));
                            o.extend(acc_obs_m!(m2));
                            o.extend_from_slice(&bytes_of(&m2));
                            Some(o)
                        }
                    }
                } else {
                    match k2 {
                        K_STRUCT => convert_obs::<_, StructuredShortMessage>(&m, conv),
                        K_GETTERS => convert_obs::<_, Getters>(&m, conv),
                        K_TUPLE => convert_obs::<_, Tuple>(&m, conv),
                        K_OVER => convert_obs::<_, Overrider>(&m, conv),
                        _ => convert_obs::<_, RawShortMessage>(&m, conv),
                    }
                }
            });
            r.unwrap_or_else(|| vec![PANIC])
        }
        60 => {
            // generic path; the path on the concrete type must give the same
            let (g, c) = if inp[0] == K_STRUCT {
                (ctor_obs::<StructuredShortMessage>(inp[1], inp[2], inp[3], inp[4]),
                 ctor_obs_m!(StructuredShortMessage, inp[1], inp[2], inp[3], inp[4]))
            } else {
                (ctor_obs::<RawShortMessage>(inp[1], inp[2], inp[3], inp[4]),
                 ctor_obs_m!(RawShortMessage, inp[1], inp[2], inp[3], inp[4]))
            };
            if g == c { g } else { let mut o = c; o.push(-94); o }
        }
        61 => {
            let (g, c) = if inp[0] == K_STRUCT {
                (generic_ctor_obs::<StructuredShortMessage>(inp[1], inp[2], inp[3], inp[4], inp[5]),
                 generic_ctor_obs_m!(StructuredShortMessage, inp[1], inp[2], inp[3], inp[4], inp[5]))
            } else {
                (generic_ctor_obs::<RawShortMessage>(inp[1], inp[2], inp[3], inp[4], inp[5]),
                 generic_ctor_obs_m!(RawShortMessage, inp[1], inp[2], inp[3], inp[4], inp[5]))
            };
            if g == c { g } else { let mut o = c; o.push(-94); o }
        }
        62 => test_util_obs(inp[0], inp[1], inp[2], inp[3]),
        63 => {
            use helgoboss_midi::test_util as tu;
            let v = inp[1];
            let r = region(|| match inp[0] {
                0 => tu::u4(v as u8).get() as i64,
                1 => tu::u7(v as u8).get() as i64,
                2 => tu::u14(v as u16).get() as i64,
                3 => tu::channel(v as u8).get() as i64,
                4 => tu::key_number(v as u8).get() as i64,
                _ => tu::controller_number(v as u8).get() as i64,
            });
            vec![r.unwrap_or(PANIC)]
        }
        64 => {
            use helgoboss_midi::test_util as tu;
            let (which, c, x, y) = (inp[0], inp[1], inp[2], inp[3]);
            if which == 0 {
                match region(|| tu::control_change_14_bit(c as u8, x as u8, y as u16)) {
                    None => vec![PANIC],
                    Some(m) => enc_cc14(&Some(m)).to_vec(),
                }
            } else {
                match region(|| match which {
                    1 => tu::nrpn(c as u8, x as u16, y as u8),
                    2 => tu::nrpn_14_bit(c as u8, x as u16, y as u16),
                    3 => tu::rpn(c as u8, x as u16, y as u8),
                    _ => tu::rpn_14_bit(c as u8, x as u16, y as u16),
                }) {
                    None => vec![PANIC],
                    Some(m) => crate::nrpn::enc_pn(&Some(m)).to_vec(),
                }
            }
        }
        _ => vec![-97],
    }
}

const KINDS: [i64; 5] = [K_RAW, K_STRUCT, K_GETTERS, K_TUPLE, K_OVER];
const BND: [i64; 10] = [0, 1, 7, 8, 63, 64, 119, 120, 121, 127];

/// all status bytes x boundary data bytes, every type x all d1, plus seeded random triples;
/// thorough: every triple
fn triples(tier: Tier, r: &mut Rng, lo: i64, f: &mut dyn FnMut(i64, i64, i64, &str)) {
    if tier == Tier::Thorough {
        for s in lo..256 {
            for a in 0..128 {
                for b in 0..128 {
                    f(s, a, b, "exhaustive");
                }
            }
        }
        return;
    }
    for s in lo..256 {
        for &a in &BND {
            for &b in &BND {
                f(s, a, b, "status x boundary");
            }
        }
    }
    for &s in &[128i64, 144, 159, 160, 176, 191, 192, 208, 224, 239, 240, 241, 242, 243, 244, 247, 248, 255] {
        for a in 0..128 {
            for &b in &[0i64, 127] {
                f(s, a, b, "type x all d1");
                f(s, b, a, "type x all d2");
            }
        }
    }
    for _ in 0..20_000 {
        f(lo + r.below((256 - lo) as u64) as i64, r.below(128) as i64, r.below(128) as i64, "random");
    }
}

pub fn gen_c01(tier: Tier, seed: u64, em: &mut Emitter) {
    let mut r = Rng::new(seed ^ 0xC01);
    for &k in &KINDS {
        triples(tier, &mut r, 0, &mut |s, a, b, key| em.emit_k(key, 10, vec![k, s, a, b]));
    }
    em.emit_k("optional impls", 15, vec![0]);
    // conversions between the representations (to_structured, to_other, from_other, and back)
    for &k in &KINDS {
        triples(tier, &mut r, 128, &mut |s, a, b, key| em.emit_k(&format!("conversions/{}", key), 14, vec![k, s, a, b]));
    }
    // every StructuredShortMessage value (quick: all variants, full sweep of one field at a time)
    let full = tier == Tier::Thorough;
    for v in 0..4 {
        for c in 0..16 {
            for a in 0..128 {
                if full {
                    for b in 0..128 {
                        em.emit_k("structured values", 11, vec![v, c, a, b]);
                    }
                } else {
                    for &b in &BND {
                        em.emit_k("structured values", 11, vec![v, c, a, b]);
                    }
                }
            }
        }
    }
    for v in 4..6 {
        for c in 0..16 {
            for a in 0..128 {
                em.emit_k("structured values", 11, vec![v, c, a, 0]);
            }
        }
    }
    for c in 0..16 {
        let step = if full { 1 } else { 13 };
        let mut p = 0;
        while p < 16384 {
            em.emit_k("structured values", 11, vec![6, c, p, 0]);
            p += step;
        }
        em.emit_k("structured values", 11, vec![6, c, 16383, 0]);
    }
    for i in 0..7 {
        for v in 0..16 {
            em.emit_k("structured values", 11, vec![8, i, v, 0]);
        }
    }
    for bit in 0..2 {
        for t in 0..4 {
            em.emit_k("structured values", 11, vec![8, 7, bit, t]);
        }
    }
    for p in 0..16384 {
        em.emit_k("structured values", 11, vec![9, p, 0, 0]);
    }
    for n in 0..128 {
        em.emit_k("structured values", 11, vec![10, n, 0, 0]);
    }
    for v in [7i64, 11, 12, 13, 14, 15, 16, 17, 18, 19, 20, 21, 22] {
        em.emit_k("structured values", 11, vec![v, 0, 0, 0]);
    }
    for a in 0..128 {
        em.emit_k("quarter frames", 12, vec![a]);
    }
    for b in 0..256 {
        em.emit_k("type codes", 13, vec![b]);
    }
}

pub fn gen_c02(tier: Tier, seed: u64, em: &mut Emitter) {
    let mut r = Rng::new(seed ^ 0xC02);
    let kinds: &[i64] = if tier == Tier::Thorough { &[K_RAW, K_STRUCT, K_GETTERS] } else { &KINDS };
    for &k in kinds {
        triples(tier, &mut r, 128, &mut |s, a, b, key| em.emit_k(key, 20, vec![k, s, a, b]));
    }
    for b in 0..256 {
        em.emit_k("type codes", 13, vec![b]);
    }
}

/// generic constructors: all 23 types x 3 constructors x channels x boundary arguments, and the
/// named constructors on boundary arguments, for both built-in factories
pub fn gen_ctor_records(r: &mut Rng, em: &mut Emitter) {
    let codes: Vec<i64> = (0..7).map(|i| 128 + 16 * i).chain(240..256).collect();
    for &k in &[K_RAW, K_STRUCT] {
        for which in 0..3 {
            for &code in &codes {
                for c in 0..16 {
                    for &(a, b) in &[(0i64, 0i64), (127, 127), (120, 1), (1, 64), (r.below(128) as i64, r.below(128) as i64)] {
                        em.emit_k("constructors/generic", 61, vec![k, which, code, c, a, b]);
                    }
                }
            }
        }
        for idx in 0..19i64 {
            for &(x, y, z) in &[(0i64, 0i64, 0i64), (15, 127, 1), (7, 1, 127), (3, 64, 65), (9, 120, 5)] {
                let (x, y) = match idx { 8 | 10 => (y, 0), 9 => (y * 128 + z, 0), 6 => (x, y * 128 + z), _ => (x, y) };
                em.emit_k("constructors/named", 60, vec![k, idx, x, y, z]);
            }
        }
    }
}

/// Cross-target records (see newtypes::gen_cross): bytes, accessors, conversions, constructors
/// with 14-bit arguments.
pub fn gen_cross(em: &mut Emitter) {
    for &k in &KINDS {
        for s in (0..256i64).step_by(23).chain([127, 128, 176, 224, 240, 241, 242, 247, 248, 255]) {
            for &(a, b) in &[(0i64, 0i64), (127, 127), (1, 64), (120, 5)] {
                em.emit_k("cross/from_bytes", 10, vec![k, s, a, b]);
                if s >= 128 {
                    em.emit_k("cross/accessors", 20, vec![k, s, a, b]);
                    em.emit_k("cross/conversions", 14, vec![k, s, a, b]);
                }
            }
        }
    }
    for &k in &[K_RAW, K_STRUCT] {
        for &v in &[0i64, 1, 37, 127, 128, 129, 255, 256, 8191, 8192, 9472, 16256, 16383] {
            em.emit_k("cross/14-bit constructors", 60, vec![k, 6, 3, v, 0]);
            em.emit_k("cross/14-bit constructors", 60, vec![k, 9, v, 0, 0]);
        }
        for idx in 0..19i64 {
            em.emit_k("cross/named constructors", 60, vec![k, idx, 5, 64, 65]);
        }
        for which in 0..3 {
            for code in [128i64, 176, 224, 240, 242, 247, 248, 255] {
                em.emit_k("cross/generic constructors", 61, vec![k, which, code, 9, 1, 64]);
            }
        }
    }
    for v in 0..128i64 {
        em.emit_k("cross/quarter frames", 12, vec![v]);
    }
}

pub fn gen_c03(tier: Tier, seed: u64, em: &mut Emitter) {
    let mut r = Rng::new(seed ^ 0xC03);
    // the implementations agree on construction as well (same arguments, either factory)
    gen_ctor_records(&mut r, em);
    // all ordered pairs of implementations x the three conversions
    let mut combos = Vec::new();
    for &k1 in &KINDS {
        for &k2 in &KINDS {
            combos.push((k1, k2, 0));
            combos.push((k1, k2, 1));
        }
        combos.push((k1, K_STRUCT, 2));
    }
    if tier == Tier::Thorough {
        // every triple, cycling through the combinations (each triple sees a few of them)
        let mut i = 0usize;
        for s in 128..256 {
            for a in 0..128 {
                for b in 0..128 {
                    for _ in 0..2 {
                        let (k1, k2, cv) = combos[i % combos.len()];
                        i += 1;
                        em.emit_k("exhaustive triples", 30, vec![k1, k2, cv, s, a, b]);
                    }
                }
            }
        }
        return;
    }
    for &(k1, k2, cv) in &combos {
        for s in 128..256 {
            for &(a, b) in &[(0i64, 0i64), (127, 127), (120, 0), (119, 5), (8, 120), (64, 1)] {
                em.emit_k("status x boundary", 30, vec![k1, k2, cv, s, a, b]);
            }
        }
        for _ in 0..600 {
            em.emit_k("random", 30, vec![k1, k2, cv, 128 + r.below(128) as i64, r.below(128) as i64, r.below(128) as i64]);
        }
    }
}

pub fn gen_c06(tier: Tier, seed: u64, em: &mut Emitter) {
    let mut r = Rng::new(seed ^ 0xC06);
    let full = tier == Tier::Thorough;
    for &k in &[K_RAW, K_STRUCT] {
        for &idx in &[0i64, 1, 2, 4] {
            for c in 0..16 {
                for a in 0..128 {
                    if full {
                        for b in 0..128 {
                            em.emit_k("named/3 args", 60, vec![k, idx, c, a, b]);
                        }
                    } else {
                        for &b in &BND {
                            em.emit_k("named/3 args", 60, vec![k, idx, c, a, b]);
                            em.emit_k("named/3 args", 60, vec![k, idx, c, b, a]);
                        }
                    }
                }
            }
        }
        for &idx in &[3i64, 5] {
            for c in 0..16 {
                for a in 0..128 {
                    em.emit_k("named/2 args", 60, vec![k, idx, c, a, 0]);
                }
            }
        }
        for c in 0..16 {
            let step = if full { 1 } else { 11 };
            let mut v = 0;
            while v < 16384 {
                em.emit_k("named/14-bit", 60, vec![k, 6, c, v, 0]);
                v += step;
            }
            for &v in &[127i64, 128, 16256, 16383] {
                em.emit_k("named/14-bit", 60, vec![k, 6, c, v, 0]);
            }
        }
        for v in 0..16384 {
            em.emit_k("named/14-bit", 60, vec![k, 9, v, 0, 0]);
        }
        for a in 0..128 {
            em.emit_k("named/quarter frame", 60, vec![k, 8, a, 0, 0]);
            em.emit_k("named/1 arg", 60, vec![k, 10, a, 0, 0]);
        }
        for &idx in &[7i64, 11, 12, 13, 14, 15, 16, 17, 18] {
            em.emit_k("named/0 args", 60, vec![k, idx, 0, 0, 0]);
        }
        // generic constructors: all 23 types x 3 constructors x boundary arguments
        let codes: Vec<i64> = (0..7).map(|i| 128 + 16 * i).chain(240..256).collect();
        for which in 0..3 {
            for &code in &codes {
                for c in 0..16 {
                    for &(a, b) in &[(0i64, 0i64), (127, 127), (120, 1), (r.below(128) as i64, r.below(128) as i64)] {
                        em.emit_k("generic", 61, vec![k, which, code, c, a, b]);
                    }
                }
            }
        }
    }
    gen_test_util(em);
}

/// test_util: shorthands and scalar helpers with in- and out-of-range primitives (C06: they
/// build what they say; C04: they are checked constructors -- panic exactly out of range)
pub fn gen_test_util(em: &mut Emitter) {
    // test_util shorthands with in- and out-of-range primitives
    let u8s: [i64; 9] = [0, 1, 15, 16, 127, 128, 129, 200, 255];
    for &idx in &[0i64, 1, 2, 4] {
        for &x in &u8s {
            for &y in &u8s {
                for &z in &u8s {
                    em.emit_k("test_util", 62, vec![idx, x, y, z]);
                }
            }
        }
    }
    for &idx in &[3i64, 5] {
        for &x in &u8s {
            for y in 0..256 {
                em.emit_k("test_util", 62, vec![idx, x, y, 0]);
            }
        }
    }
    for &x in &u8s {
        for &y in &[0i64, 1, 127, 128, 8191, 16383, 16384, 16385, 32768, 65535] {
            em.emit_k("test_util", 62, vec![6, x, y, 0]);
        }
    }
    for &y in &[0i64, 1, 127, 128, 8191, 16383, 16384, 16385, 32768, 65535] {
        em.emit_k("test_util", 62, vec![9, y, 0, 0]);
    }
    for x in 0..256 {
        em.emit_k("test_util", 62, vec![10, x, 0, 0]);
    }
    for &idx in &[7i64, 11, 12, 13, 14, 15, 16, 17, 18] {
        em.emit_k("test_util", 62, vec![idx, 0, 0, 0]);
    }
    for s in 0..256 {
        for &(a, b) in &[(0i64, 0i64), (127, 127), (128, 0), (0, 128), (255, 255)] {
            em.emit_k("test_util/short", 62, vec![100, s, a, b]);
        }
    }
    // scalar helpers on every value of their argument type
    for which in 0..6i64 {
        let top = if which == 2 { 65535 } else { 255 };
        for v in 0..=top {
            em.emit_k("test_util/scalars", 63, vec![which, v]);
        }
    }
    // shorthands of the multi-message constructs with in- and out-of-range primitives
    let chs = [0i64, 15, 16, 255];
    for &c in &chs {
        for &n in &[0i64, 1, 31, 32, 127, 128, 255] {
            for &v in &[0i64, 16383, 16384, 65535] {
                em.emit_k("test_util/cc14", 64, vec![0, c, n, v]);
            }
        }
        for which in 1..5i64 {
            let is14 = which == 2 || which == 4;
            for &n in &[0i64, 16383, 16384, 65535] {
                let vals: &[i64] = if is14 { &[0, 127, 128, 16383, 16384, 65535] } else { &[0, 127, 128, 255] };
                for &v in vals {
                    em.emit_k("test_util/nrpn", 64, vec![which, c, n, v]);
                }
            }
        }
    }
}
