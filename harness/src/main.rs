//! Correspondence harness: runs the *implementation* (helgoboss-midi at /repo) on enumerated or
//! generated inputs and prints one record per input for the Coq-extracted checker.
//!
//!   harness gen <PROP> <quick|thorough> <seed> [<shard> <nshards>]
//!   harness replay            (input lines "<tag> <in...>" on stdin)
//!
//! Record:  <tag> <in...> | <obs...> | <allocs>
//! Values: -1 = None, -2 = the call panicked, booleans 0/1.
#![allow(clippy::all)]
#![allow(dead_code)]

mod alloc;
mod cc14;
mod common;
mod newtypes;
mod nrpn;
mod probe;
#[cfg(feature = "cfg_std")]
mod polling;
#[cfg(feature = "cfg_std")]
mod scanners;
#[cfg(feature = "cfg_serde")]
mod serde_t;
mod generated {
    pub mod consts;
}
mod rng;
mod sm;

use common::*;
use std::io::{BufRead, Write};

/// Runs the implementation for one input vector.
pub fn exec(tag: i64, inp: &[i64]) -> Vec<i64> {
    match tag {
        10 | 11 | 12 | 13 | 14 | 15 | 20 | 30 | 60 | 61 | 62 | 63 | 64 => sm::exec(tag, inp),
        40 | 41 | 42 | 43 | 50 | 51 | 52 => newtypes::exec(tag, inp),
        70 | 71 | 80 => cc14::exec(tag, inp),
        90 | 100 | 101 | 110 => nrpn::exec(tag, inp),
        #[cfg(feature = "cfg_std")]
        120 | 130 | 131 | 132 | 133 | 140 => polling::exec(tag, inp),
        #[cfg(feature = "cfg_std")]
        150 | 160 | 161 | 162 | 170 => scanners::exec(tag, inp),
        #[cfg(feature = "cfg_serde")]
        190 | 191 | 192 => serde_t::exec(tag, inp),
        _ => vec![-97],
    }
}

fn gen(prop: &str, tier: Tier, seed: u64, em: &mut Emitter) {
    match prop {
        "C01" => sm::gen_c01(tier, seed, em),
        "C02" => sm::gen_c02(tier, seed, em),
        "C03" => sm::gen_c03(tier, seed, em),
        // cross-target records (Miri: 32-bit, big-endian)
        "XT" => {
            newtypes::gen_cross(em, if cfg!(feature = "cfg_std") { 0 } else { 1 });
            sm::gen_cross(em);
            for (c, n, v) in [(0i64, 0i64, 0i64), (15, 31, 16383), (3, 5, 128), (7, 9, 8192), (1, 2, 37), (2, 31, 9472)] {
                em.emit_k("cross/cc14", 70, vec![c, n, v]);
            }
            for k in 0..8i64 {
                for (num, v) in [(0i64, 0i64), (16383, 127), (128, 1), (8192, 100), (420, 37)] {
                    let v = if k == 1 || k == 5 { v * 129 % 16384 } else { v };
                    for ord in 0..2 {
                        em.emit_k("cross/nrpn", 90, vec![k, 5, num, v, ord]);
                    }
                }
            }
            em.emit_k("cross/scanner", 80, vec![0, 176, 3, 5, 0, 176, 35, 6, 0, 177, 3, 1, 2, 0, 0, 0, 0, 176, 35, 7]);
            em.emit_k("cross/scanner", 110, vec![0, 179, 99, 3, 0, 179, 98, 36, 0, 179, 38, 24, 0, 179, 6, 117, 0, 179, 96, 1]);
        }
        "C04" => newtypes::gen_c04(tier, seed, em, if cfg!(feature = "cfg_std") { 0 } else { 1 }),
        "C05" => newtypes::gen_c05(tier, seed, em, if cfg!(feature = "cfg_std") { 0 } else { 1 }),
        "C06" => sm::gen_c06(tier, seed, em),
        "C07" => cc14::gen_c07(tier, seed, em),
        "C08" => cc14::gen_c08(tier, seed, em),
        "C09" => nrpn::gen_c09(tier, seed, em),
        "C10" => nrpn::gen_c10(tier, seed, em),
        "C11" => nrpn::gen_c11(tier, seed, em),
        #[cfg(feature = "cfg_std")]
        "C12" => polling::gen_c12(tier, seed, em),
        #[cfg(feature = "cfg_std")]
        "C13" => polling::gen_c13(tier, seed, em),
        #[cfg(feature = "cfg_std")]
        "C14" => polling::gen_c14(tier, seed, em),
        #[cfg(feature = "cfg_std")]
        "C15" => scanners::gen_c15(tier, seed, em),
        #[cfg(feature = "cfg_std")]
        "C16" => scanners::gen_c16(tier, seed, em),
        #[cfg(feature = "cfg_std")]
        "C17" => scanners::gen_c17(tier, seed, em),
        #[cfg(feature = "cfg_serde")]
        "C19" => serde_t::gen_c19(tier, seed, em),
        _ => {
            eprintln!("unknown property {}", prop);
            std::process::exit(2);
        }
    }
}

fn main() {
    std::panic::set_hook(Box::new(|_| {}));
    let args: Vec<String> = std::env::args().collect();
    let stdout = std::io::stdout();
    let out: Box<dyn Write> = Box::new(std::io::BufWriter::with_capacity(1 << 20, stdout));
    match args.get(1).map(|s| s.as_str()) {
        Some("gen") => {
            let prop = args[2].clone();
            let tier = if args[3] == "thorough" { Tier::Thorough } else { Tier::Quick };
            let seed: u64 = args[4].parse().unwrap();
            let shard: u64 = args.get(5).map(|s| s.parse().unwrap()).unwrap_or(0);
            let nshards: u64 = args.get(6).map(|s| s.parse().unwrap()).unwrap_or(1);
            let mut em = Emitter::new(out, shard, nshards);
            gen(&prop, tier, seed, &mut em);
            em.finish();
        }
        Some("replay") => {
            let mut em = Emitter::new(out, 0, 1);
            let stdin = std::io::stdin();
            for line in stdin.lock().lines() {
                let line = line.unwrap();
                let line = line.split('|').next().unwrap().trim().to_string();
                if line.is_empty() || line.starts_with('#') {
                    continue;
                }
                let v: Vec<i64> = line.split_whitespace().map(|x| x.parse().unwrap()).collect();
                em.emit(v[0], v[1..].to_vec());
            }
            em.finish();
        }
        Some("dump") => {
            // the declarative tables as the compiler / the implementation sees them
            let mut o = out;
            for (n, r, m) in probe::newtypes() {
                writeln!(o, "NT {} {} {}", n, r, m).unwrap();
            }
            for (k, s, d) in probe::table() {
                writeln!(o, "CONV {} {} {}", k, probe::TYPES[s], probe::TYPES[d]).unwrap();
            }
            for (n, v) in generated::consts::consts() {
                writeln!(o, "CONST {} {}", n, v).unwrap();
            }
            for b in 0..=255u8 {
                use std::convert::TryFrom;
                if let Ok(t) = helgoboss_midi::ShortMessageType::try_from(b) {
                    writeln!(o, "SMT {:?} {}", t, u8::from(t)).unwrap();
                }
                if let Ok(t) = helgoboss_midi::TimeCodeType::try_from(b) {
                    writeln!(o, "TCT {:?} {}", t, u8::from(t)).unwrap();
                }
            }
        }
        _ => {
            let mut o = out;
            writeln!(o, "usage: harness gen <PROP> <tier> <seed> [shard n] | replay").unwrap();
        }
    }
}
