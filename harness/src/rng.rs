//! splitmix64: every random choice of a run derives from one seed.
#[derive(Clone)]
pub struct Rng(pub u64);

impl Rng {
    pub fn new(seed: u64) -> Rng {
        Rng(seed.wrapping_mul(0x9E3779B97F4A7C15).wrapping_add(0x1234_5678_9ABC_DEF1))
    }
    pub fn next(&mut self) -> u64 {
        self.0 = self.0.wrapping_add(0x9E3779B97F4A7C15);
        let mut z = self.0;
        z = (z ^ (z >> 30)).wrapping_mul(0xBF58476D1CE4E5B9);
        z = (z ^ (z >> 27)).wrapping_mul(0x94D049BB133111EB);
        z ^ (z >> 31)
    }
    /// uniform in [0, n)
    pub fn below(&mut self, n: u64) -> u64 {
        if n == 0 {
            0
        } else {
            self.next() % n
        }
    }
    pub fn pick<T: Copy>(&mut self, xs: &[T]) -> T {
        xs[self.below(xs.len() as u64) as usize]
    }
    pub fn pick_ref<'a, T>(&mut self, xs: &'a [T]) -> &'a T {
        &xs[self.below(xs.len() as u64) as usize]
    }
    pub fn chance(&mut self, num: u64, den: u64) -> bool {
        self.below(den) < num
    }
}
