//! C12 / C13 / C14 (and the polling part of C15-C17): PollingParameterNumberMessageScanner on the
//! mock clock.
use crate::common::*;
use crate::nrpn::{enc_pn, random_op};
use crate::rng::Rng;
use helgoboss_midi::verif_hooks::set_now;
use helgoboss_midi::*;
use std::time::Duration;

pub struct Clock(pub u64);

/// Runs operations (4 integers each) on a scanner; appends 12 integers per operation.
pub fn run_ops(
    sc: &mut PollingParameterNumberMessageScanner,
    clock: &mut Clock,
    ops: &[i64],
    obs: &mut Vec<i64>,
) -> bool {
    let mut silent: Option<(usize, i64, usize, usize)> = None;
    for (idx, op) in ops.chunks(4).enumerate() {
        if op.len() < 4 {
            break;
        }
        if op[0] == 11 {
            // marker: see cc14::run_ops
            silent = Some((idx + op[2].max(0) as usize, op[1].max(0), idx + 1, op[2].max(0) as usize));
            continue;
        }
        set_now(clock.0);
        let r: Option<[Option<ParameterNumberMessage>; 2]> = match op[0] {
            // (8 is the non-polling alphabets' "start over with a Default scanner": a reset here,
            // because a Default polling scanner would have another timeout)
            2 | 8 => region(|| {
                for _ in 0..=(if op[0] == 2 { op[1] } else { 0 }) {
                    sc.reset();
                }
                [None, None]
            }),
            3 | 7 => {
                let c = ch(op[1]);
                region(|| [sc.poll(c), None])
            }
            4 => {
                clock.0 = clock.0.saturating_add(op[1] as u64);
                Some([None, None])
            }
            k => region(|| with_msg(k, op[1], op[2], op[3], &mut |m| m.feed_poll(sc))),
        };
        match r {
            Some(o) => {
                obs.extend_from_slice(&enc_pn(&o[0]));
                obs.extend_from_slice(&enc_pn(&o[1]));
            }
            None => return false,
        }
        if let Some((last, n, start, w)) = silent {
            if idx == last {
                silent = None;
                let block = &ops[4 * start..(4 * (start + w)).min(ops.len())];
                let mut scratch = Vec::new();
                for _ in 0..n {
                    scratch.clear();
                    if !run_ops(sc, clock, block, &mut scratch) {
                        return false;
                    }
                }
            }
        }
    }
    true
}

/// timeouts >= 2^61 stand for durations that do not fit into 64-bit nanoseconds:
/// 2^61 + 1 for `Duration::from_secs(1 << 55)` (whose nanoseconds are a multiple of 2^64),
/// 2^61 + 2 for `Duration::new(18_446_744_073, 709_551_617)` (2^64 + 1 ns), anything else for
/// `Duration::MAX`
pub const TIMEOUT_MAX: i64 = 1 << 61;
pub const TIMEOUT_2_55_SECS: i64 = (1 << 61) + 1;
pub const TIMEOUT_2_64_PLUS_1: i64 = (1 << 61) + 2;

/// a negative timeout stands for a scanner created through `Default::default()` (timeout zero)
pub fn new_scanner(timeout: i64) -> PollingParameterNumberMessageScanner {
    if timeout < 0 {
        Default::default()
    } else if timeout == TIMEOUT_2_55_SECS {
        PollingParameterNumberMessageScanner::new(Duration::from_secs(1 << 55))
    } else if timeout == TIMEOUT_2_64_PLUS_1 {
        PollingParameterNumberMessageScanner::new(Duration::new(18_446_744_073, 709_551_617))
    } else if timeout >= TIMEOUT_MAX {
        PollingParameterNumberMessageScanner::new(Duration::MAX)
    } else {
        PollingParameterNumberMessageScanner::new(Duration::from_nanos(timeout as u64))
    }
}

fn run_fresh(timeout: i64, ops: &[i64], obs: &mut Vec<i64>) -> bool {
    let mut sc = match region(|| new_scanner(timeout)) {
        Some(s) => s,
        None => return false,
    };
    let mut clock = Clock(0);
    run_ops(&mut sc, &mut clock, ops, obs)
}

pub fn exec(tag: i64, inp: &[i64]) -> Vec<i64> {
    match tag {
        120 => exec_120(inp),
        130 | 140 => {
            let mut obs = Vec::new();
            if !run_fresh(inp[0], &inp[1..], &mut obs) {
                return vec![PANIC];
            }
            obs
        }
        131 => {
            let n = inp[1] as usize;
            let a = &inp[2..2 + 4 * n];
            let b = &inp[2 + 4 * n..];
            let mut obs = Vec::new();
            if !run_fresh(inp[0], a, &mut obs) || !run_fresh(inp[0], b, &mut obs) {
                return vec![PANIC];
            }
            obs
        }
        133 => {
            // a poll during which the timeout expires: time advances by 1 ns with every reading
            // of the clock within that one call.  Layout of the 11 steps: feed x, feed y, tick,
            // feed v, tick, POLL*, tick, poll, feed w, tick, poll (12 integers each).
            use helgoboss_midi::verif_hooks::set_auto_advance;
            let (timeout, which, c, x, y, v, w) = (inp[0], inp[1], inp[2], inp[3], inp[4], inp[5], inp[6]);
            let (first, second) = if which == 0 { (6, 38) } else { (38, 6) };
            let st = 176 + c;
            let mut sc = match region(|| new_scanner(timeout)) {
                Some(s) => s,
                None => return vec![PANIC],
            };
            let mut obs = Vec::new();
            let mut clock = Clock(0);
            let t = timeout as u64;
            let mut ok = run_ops(&mut sc, &mut clock, &[0, st, 99, x, 0, st, 98, y, 4, 10, 0, 0, 0, st, first, v, 4, (t - 1) as i64, 0, 0], &mut obs);
            // the straddled poll
            set_now(clock.0);
            set_auto_advance(1);
            let r = region(|| sc.poll(ch(c)));
            set_auto_advance(0);
            match r {
                Some(o) => {
                    obs.extend_from_slice(&enc_pn(&o));
                    obs.extend_from_slice(&enc_pn(&None));
                }
                None => ok = false,
            }
            ok = ok && run_ops(&mut sc, &mut clock, &[4, 101, 0, 0, 3, c, 0, 0, 0, st, second, w, 4, (t + 100) as i64, 0, 0, 3, c, 0, 0], &mut obs);
            if !ok {
                return vec![PANIC];
            }
            obs
        }
        132 => {
            let a = &inp[1..];
            let b: Vec<i64> = a.chunks(4).filter(|o| o[0] != 7).flatten().copied().collect();
            let mut obs = Vec::new();
            if !run_fresh(inp[0], a, &mut obs) || !run_fresh(inp[0], &b, &mut obs) {
                return vec![PANIC];
            }
            obs
        }
        _ => vec![-97],
    }
}

pub const TIMEOUTS: [i64; 13] = [0, 1, 5, 1000, 1 << 60, TIMEOUT_MAX, -1, 1_000_000, 10_000_000,
    1_234_567_891, 60_000_000_000, TIMEOUT_2_55_SECS, TIMEOUT_2_64_PLUS_1];

pub fn time_step(r: &mut Rng, timeout: i64) -> i64 {
    let t = timeout.max(0).min(1 << 40);
    // around the timeout at nanosecond resolution; whole seconds / milliseconds later (elapsed
    // time compared field-wise or in a coarser unit)
    let cands = [0, 1, (t - 1).max(0), t, t + 1, 2 * t + 1, t / 2, 1_000_000_000, 2_000_000_000,
                 t + 1_000_000_000, t + 1_000_000, (t / 1_000_000) * 1_000_000, (t / 1_000_000_000 + 1) * 1_000_000_000];
    r.pick(&cands)
}

/// random history of feeds / polls / ticks / resets over the full alphabet
pub fn random_history(r: &mut Rng, timeout: i64, maxlen: u64, v: &mut Vec<i64>) -> usize {
    let timeout = timeout.max(0);
    let len = r.below(maxlen + 1);
    let nch = r.pick(&[1u64, 1, 2, 3, 16]);
    let mut ops = Vec::new();
    for _ in 0..len {
        match r.below(11) {
            0 | 1 => ops.extend_from_slice(&[3, r.below(nch) as i64, 0, 0]),
            2 | 3 => ops.extend_from_slice(&[4, time_step(r, timeout), 0, 0]),
            4 => {
                // a poll round: let the timeout pass, then poll several channels in a row
                ops.extend_from_slice(&[4, timeout.min(1 << 40), 0, 0]);
                let k = 1 + r.below(nch.min(4));
                for _ in 0..k {
                    ops.extend_from_slice(&[3, r.below(nch) as i64, 0, 0]);
                }
            }
            _ => random_op(r, nch, &mut ops),
        }
    }
    // the "replace by a Default scanner" operation of the non-polling alphabets would change the
    // timeout: here it is an ordinary reset
    for op in ops.chunks_mut(4) {
        if op[0] == 8 {
            op[0] = 2;
        }
    }
    long_run(r, &mut ops);
    let n = ops.len() / 4;
    v.extend(ops);
    n
}

/// Abstract alphabet for the bounded-exhaustive part (one channel + a second one).
fn abstract_alphabet(timeout: i64) -> Vec<[i64; 4]> {
    vec![
        [0, 176, 99, 1],
        [0, 176, 98, 2],
        [1, 176, 101, 3],
        [0, 176, 100, 4],
        [0, 176, 38, 5],
        [0, 176, 6, 6],
        [5, 176, 96, 7],
        [0, 176, 97, 8],
        [0, 176, 7, 9],
        [0, 177, 6, 11],
        [0, 240, 6, 13],
        [3, 0, 0, 0],
        [4, timeout.min(1 << 40), 0, 0],
        [4, (timeout.min(1 << 40) - 1).max(0), 0, 0],
    ]
}

fn gen_histories(tag: i64, tier: Tier, r: &mut Rng, em: &mut Emitter, exhaustive: bool) {
    if exhaustive {
        for &timeout in &[0i64, 5] {
            let abs = abstract_alphabet(timeout);
            // a selected number first, so that the exhaustive part explores value phases
            let prefix = [0i64, 176, 99, 1, 0, 176, 98, 2];
            let depth = if tier == Tier::Thorough { 5 } else { 4 };
            let total = (abs.len() as u64).pow(depth);
            for mut i in 0..total {
                let mut inp = vec![timeout];
                if i % 2 == 0 {
                    inp.extend_from_slice(&prefix);
                }
                for _ in 0..depth {
                    inp.extend_from_slice(&abs[(i % abs.len() as u64) as usize]);
                    i /= abs.len() as u64;
                }
                em.emit_k("abstract-exhaustive", tag, inp);
            }
        }
    }
    let (n, maxlen) = if tier == Tier::Thorough { (150_000, 200) } else { (6_000, 60) };
    for _ in 0..n {
        let timeout = r.pick(&TIMEOUTS);
        let mut inp = vec![timeout];
        random_history(r, timeout, maxlen, &mut inp);
        em.emit_k(&format!("random/timeout={}", timeout), tag, inp);
    }
}

pub fn gen_c14(tier: Tier, seed: u64, em: &mut Emitter) {
    let mut r = Rng::new(seed ^ 0xC14);
    gen_straddle(&mut r, em);
    // thorough tier, optimised build only: exactly 2^32 resets in a row (about half a minute)
    // between progress on a channel and its continuation -- 32-bit generation counters
    if tier == Tier::Thorough && !cfg!(debug_assertions) {
        let c = r.below(16) as i64;
        let st = 176 + c;
        em.emit_k("2^32 resets", 140, vec![5, 0, st, 99, 3, 0, st, 98, 36, 0, st, 6, 117, 2, (1i64 << 32) - 1, 0, 0,
                                            0, st, 38, 5, 4, 5, 0, 0, 3, c, 0, 0, 0, st, 6, 9, 4, 5, 0, 0, 3, c, 0, 0]);
    }
    gen_histories(140, tier, &mut r, em, true);
}

/// polls during which the timeout expires (the clock moves between two readings in one call)
pub fn gen_straddle(r: &mut Rng, em: &mut Emitter) {
    // very large time steps while a value is pending (elapsed time beyond 2^62 and beyond 2^63 ns:
    // signed nanosecond arithmetic), then polls.  Single steps stay below 2^62 (the record
    // format's integers are OCaml's) and their sum below 2^64 (the mock clock is a saturating u64).
    for &timeout in &[0i64, 5, 1_000_000, 1 << 60] {
        for &n in &[1usize, 2, 3, 4] {
            for &first in &[6i64, 38] {
                let c = r.below(16) as i64;
                let st = 176 + c;
                let mut h = vec![timeout, 0, st, 99, 3, 0, st, 98, 36, 0, st, first, 117];
                for _ in 0..n {
                    h.extend_from_slice(&[4, 3i64 << 60, 0, 0]);
                }
                h.extend_from_slice(&[3, c, 0, 0, 0, st, 44 - first, 9, 4, 7, 0, 0, 3, c, 0, 0]);
                em.emit_k("huge-time-steps", 140, h);
            }
        }
    }
    for &timeout in &[1i64, 2, 5, 1000, 1_000_000, 1_234_567_891] {
        for which in 0..2 {
            for _ in 0..4 {
                let inp = vec![timeout, which, r.below(16) as i64, r.below(128) as i64, r.below(128) as i64,
                               r.below(128) as i64, r.below(128) as i64];
                em.emit_k("poll-straddles-the-deadline", 133, inp);
            }
        }
    }
}

pub fn gen_c13(tier: Tier, seed: u64, em: &mut Emitter) {
    let mut r = Rng::new(seed ^ 0xC13);
    gen_straddle(&mut r, em);
    gen_histories(130, tier, &mut r, em, true);
    // time independence of feed: same feeds, two clocks, no polls
    let n = if tier == Tier::Thorough { 60_000 } else { 3_000 };
    for _ in 0..n {
        let timeout = r.pick(&TIMEOUTS);
        let len = r.below(40);
        let nch = r.pick(&[1u64, 2, 16]);
        let mut feeds = Vec::new();
        for _ in 0..len {
            random_op(&mut r, nch, &mut feeds);
        }
        let mut a = Vec::new();
        let mut b = Vec::new();
        for op in feeds.chunks(4) {
            if r.chance(1, 2) {
                a.extend_from_slice(&[4, time_step(&mut r, timeout), 0, 0]);
            }
            if r.chance(1, 2) {
                b.extend_from_slice(&[4, time_step(&mut r, timeout), 0, 0]);
            }
            a.extend_from_slice(op);
            b.extend_from_slice(op);
        }
        let mut inp = vec![timeout, (a.len() / 4) as i64];
        inp.extend_from_slice(&a);
        inp.extend_from_slice(&b);
        em.emit_k("two-clocks", 131, inp);
    }
    // early polls have no effect
    for _ in 0..n {
        let timeout = r.pick(&[1i64, 5, 1000, 1 << 60]);
        let len = r.below(50);
        let nch = r.pick(&[1u64, 2, 16]);
        let mut last: Vec<Option<i64>> = vec![None; 16];
        let mut now: i64 = 0;
        let mut inp = vec![timeout];
        for _ in 0..len {
            match r.below(10) {
                0..=2 => {
                    // candidate early poll
                    let c = r.below(nch) as usize;
                    let early = match last[c] {
                        None => true,
                        Some(t0) => now - t0 < timeout,
                    };
                    inp.extend_from_slice(&[if early { 7 } else { 3 }, c as i64, 0, 0]);
                }
                3 | 4 => {
                    let dt = r.pick(&[0i64, 1, (timeout.min(1 << 40) - 1).max(0) / 2, timeout.min(1 << 40)]);
                    now += dt;
                    inp.extend_from_slice(&[4, dt, 0, 0]);
                }
                _ => {
                    let mut op = Vec::new();
                    random_op(&mut r, nch as u64, &mut op);
                    if op[0] == 2 {
                        for l in last.iter_mut() {
                            *l = None;
                        }
                    } else if op[1] / 16 == 11 && (op[2] == 6 || op[2] == 38) {
                        last[(op[1] % 16) as usize] = Some(now);
                    }
                    inp.extend_from_slice(&op);
                }
            }
        }
        em.emit_k("early-polls", 132, inp);
    }
}

// ---------------------------------------------------------------------------------------------
// C12: streams in the grammar of documented sequence forms (generator mirrors Spec/PollGrammar.v)
// ---------------------------------------------------------------------------------------------
#[derive(Copy, Clone, PartialEq, Debug)]
enum G {
    G0,
    Sel1 { is_msb: bool, reg: bool },
    Fresh,
    Idle,
    Lsb { t0: i64 },
    Msb { t0: i64 },
    C14,
}

#[derive(Copy, Clone, PartialEq, Debug)]
enum Act {
    Num { is_msb: bool, reg: bool },
    Cc38,
    Cc6,
    Inc,
    Dec,
    Poll,
    Noise,
}

fn allowed(g: G, a: Act, now: i64, timeout: i64) -> bool {
    match (g, a) {
        (_, Act::Noise) => true,
        (G::Lsb { t0 }, Act::Poll) => now - t0 < timeout,
        (_, Act::Poll) => true,
        (G::G0, Act::Num { .. }) => true,
        (G::G0, _) => false,
        (G::Sel1 { is_msb, reg }, Act::Num { is_msb: k, reg: r }) => k != is_msb && r == reg,
        (G::Sel1 { .. }, _) => false,
        (G::Lsb { .. }, Act::Cc6) => true,
        (G::Lsb { .. }, _) => false,
        (G::Fresh, Act::Cc38) | (G::Msb { .. }, Act::Cc38) | (G::C14, Act::Cc38) => true,
        (_, Act::Cc38) => false,
        (_, Act::Num { .. }) | (_, Act::Cc6) | (_, Act::Inc) | (_, Act::Dec) => true,
    }
}

fn next(g: G, a: Act, now: i64, timeout: i64) -> G {
    match (g, a) {
        (_, Act::Noise) => g,
        (G::Msb { t0 }, Act::Poll) => {
            if now - t0 >= timeout {
                G::Idle
            } else {
                g
            }
        }
        (_, Act::Poll) => g,
        (G::Sel1 { .. }, Act::Num { .. }) => G::Fresh,
        (_, Act::Num { is_msb, reg }) => G::Sel1 { is_msb, reg },
        (G::Fresh, Act::Cc38) => G::Lsb { t0: now },
        (_, Act::Cc38) => G::C14,
        (G::Lsb { .. }, Act::Cc6) => G::C14,
        (_, Act::Cc6) => G::Msb { t0: now },
        (_, Act::Inc) | (_, Act::Dec) => G::Idle,
    }
}

fn act_op(a: Act, c: i64, r: &mut Rng, fixed: Option<i64>, out: &mut Vec<i64>) {
    let kind = if fixed.is_some() { 0 } else { r.pick(&[0i64, 0, 1, 5]) };
    let v = fixed.unwrap_or_else(|| if r.chance(1, 3) { r.pick(&[0i64, 1, 127]) } else { r.below(128) as i64 });
    match a {
        Act::Num { is_msb, reg } => {
            let n = match (is_msb, reg) {
                (true, false) => 99,
                (false, false) => 98,
                (true, true) => 101,
                (false, true) => 100,
            };
            out.extend_from_slice(&[kind, 176 + c, n, v]);
        }
        Act::Cc38 => out.extend_from_slice(&[kind, 176 + c, 38, v]),
        Act::Cc6 => out.extend_from_slice(&[kind, 176 + c, 6, v]),
        Act::Inc => out.extend_from_slice(&[kind, 176 + c, 96, v]),
        Act::Dec => out.extend_from_slice(&[kind, 176 + c, 97, v]),
        Act::Poll => out.extend_from_slice(&[3, c, 0, 0]),
        Act::Noise => match r.below(5) {
            0 => out.extend_from_slice(&[kind, 176 + c, r.pick(&[0i64, 7, 39, 64, 95, 102, 127]), v]),
            1 => out.extend_from_slice(&[kind, 144 + c, 60, v]),
            // non-Control-Change channel messages and system messages whose data bytes look like
            // (N)RPN traffic
            2 => out.extend_from_slice(&[kind, r.pick(&[128i64, 144, 160, 192, 208, 224]) + c, r.pick(&[6i64, 38, 96, 97, 98, 99, 100, 101]), v]),
            3 => out.extend_from_slice(&[kind, r.pick(&[241i64, 242, 243]), r.pick(&[6i64, 38, 96, 98, 99, 100, 101]), v]),
            _ => out.extend_from_slice(&[0, 248, 0, 0]),
        },
    }
}

const ACTS: [Act; 10] = [
    Act::Num { is_msb: true, reg: false },
    Act::Num { is_msb: false, reg: false },
    Act::Num { is_msb: true, reg: true },
    Act::Num { is_msb: false, reg: true },
    Act::Cc38,
    Act::Cc6,
    Act::Inc,
    Act::Dec,
    Act::Poll,
    Act::Noise,
];

pub fn exec_120(inp: &[i64]) -> Vec<i64> {
    let (timeout, np) = (inp[0], inp[1] as usize);
    let prior = &inp[2..2 + 4 * np];
    let sentence = &inp[2 + 4 * np..];
    let mut sc = match region(|| new_scanner(timeout)) {
        Some(s) => s,
        None => return vec![PANIC],
    };
    let mut clock = Clock(0);
    let mut scratch = Vec::new();
    if !run_ops(&mut sc, &mut clock, prior, &mut scratch) {
        return vec![PANIC];
    }
    let mut obs = Vec::new();
    if !run_ops(&mut sc, &mut clock, sentence, &mut obs) {
        return vec![PANIC];
    }
    obs
}

pub fn gen_c12(tier: Tier, seed: u64, em: &mut Emitter) {
    let mut r = Rng::new(seed ^ 0xC12);
    gen_straddle(&mut r, em);
    // bounded-exhaustive: every conforming action sequence up to a depth, one channel, fixed
    // values, with time steps landing below / at the timeout between any two actions
    for &timeout in &[0i64, 5] {
        let depth = if tier == Tier::Thorough { 8 } else { 6 };
        // actions of the exhaustive part: one selection flavour, all value forms, poll, two ticks
        #[derive(Copy, Clone)]
        enum X {
            A(Act),
            Tick(i64),
        }
        let alphabet = [
            X::A(Act::Num { is_msb: true, reg: false }),
            X::A(Act::Num { is_msb: false, reg: false }),
            X::A(Act::Cc38),
            X::A(Act::Cc6),
            X::A(Act::Inc),
            X::A(Act::Poll),
            X::Tick(timeout),
            X::Tick((timeout - 1).max(0)),
        ];
        fn rec(
            alphabet: &[X; 8], depth: u32, g: G, now: i64, timeout: i64, ops: &mut Vec<i64>, vcount: i64,
            em: &mut Emitter, r: &mut Rng,
        ) {
            if !ops.is_empty() {
                let mut inp = vec![timeout, 0];
                inp.extend_from_slice(ops);
                em.emit_k("grammar-exhaustive", 120, inp);
            }
            if depth == 0 {
                return;
            }
            for x in alphabet.iter() {
                match *x {
                    X::A(a) => {
                        if !allowed(g, a, now, timeout) {
                            continue;
                        }
                        let len = ops.len();
                        act_op(a, 0, r, Some(1 + vcount % 120), ops);
                        rec(alphabet, depth - 1, next(g, a, now, timeout), now, timeout, ops, vcount + 1, em, r);
                        ops.truncate(len);
                    }
                    X::Tick(dt) => {
                        if timeout == 0 && dt == 0 && depth < 100 {
                            // a zero tick is a no-op; keep one flavour only
                            if let X::Tick(_) = alphabet[7] {
                                if std::ptr::eq(x, &alphabet[7]) {
                                    continue;
                                }
                            }
                        }
                        let len = ops.len();
                        ops.extend_from_slice(&[4, dt, 0, 0]);
                        rec(alphabet, depth - 1, g, now + dt, timeout, ops, vcount, em, r);
                        ops.truncate(len);
                    }
                }
            }
        }
        let mut ops = Vec::new();
        rec(&alphabet, depth, G::G0, 0, timeout, &mut ops, 0, em, &mut r);
    }
    // seeded random: arbitrary prior traffic, then interleaved conforming streams on up to 16
    // channels with random values, polls, noise and time steps
    let n = if tier == Tier::Thorough { 200_000 } else { 8_000 };
    for _ in 0..n {
        let timeout = r.pick(&TIMEOUTS);
        let mut prior = Vec::new();
        let np = if r.chance(1, 3) { 0 } else { random_history(&mut r, timeout, 30, &mut prior) };
        // the clock after the prior part
        let mut now: i64 = prior.chunks(4).filter(|o| o[0] == 4).map(|o| o[1]).sum();
        let nch = r.pick(&[1usize, 1, 2, 3, 16]);
        let mut gs = vec![G::G0; 16];
        let mut ops = Vec::new();
        let len = r.below(if tier == Tier::Thorough { 120 } else { 60 });
        for _ in 0..len {
            if r.chance(1, 6) {
                let dt = time_step(&mut r, timeout);
                now += dt;
                ops.extend_from_slice(&[4, dt, 0, 0]);
                continue;
            }
            let c = r.below(nch as u64) as usize;
            let cands: Vec<Act> = ACTS.iter().copied().filter(|&a| allowed(gs[c], a, now, timeout.max(0))).collect();
            // prefer grammar tokens over gaps
            let a = if r.chance(3, 4) {
                let toks: Vec<Act> = cands.iter().copied().filter(|a| !matches!(a, Act::Poll | Act::Noise)).collect();
                if toks.is_empty() { r.pick(&cands) } else { r.pick(&toks) }
            } else {
                r.pick(&cands)
            };
            act_op(a, c as i64, &mut r, None, &mut ops);
            gs[c] = next(gs[c], a, now, timeout.max(0));
        }
        let mut inp = vec![timeout, np as i64];
        inp.extend_from_slice(&prior);
        inp.extend_from_slice(&ops);
        em.emit_k(&format!("grammar-random/timeout={}", timeout), 120, inp);
    }
    // encode / feed / poll after the timeout (both byte orders, all 8 kinds, any prior traffic)
    let n = if tier == Tier::Thorough { 100_000 } else { 4_000 };
    for _ in 0..n {
        let timeout = r.pick(&[0i64, 1, 5, 1000]);
        let mut prior = Vec::new();
        let np = random_history(&mut r, timeout, 30, &mut prior);
        let c = r.below(16) as i64;
        let k = r.below(8) as i64;
        let is14 = k == 1 || k == 5;
        let v = if is14 { r.below(16384) as i64 } else { r.below(128) as i64 };
        let msg = crate::nrpn::ctor(k, ch(c), u14(r.below(16384) as i64), v);
        let enc: [Option<RawShortMessage>; 4] = msg.to_short_messages(crate::nrpn::order(r.below(2) as i64));
        let mut ops = Vec::new();
        for m in enc.iter().flatten() {
            ops.push(r.pick(&[0i64, 1, 5]));
            ops.extend_from_slice(&bytes_of(m));
        }
        ops.extend_from_slice(&[4, timeout, 0, 0, 3, c, 0, 0]);
        let mut inp = vec![timeout, np as i64];
        inp.extend_from_slice(&prior);
        inp.extend_from_slice(&ops);
        em.emit_k("encode-feed-poll", 120, inp);
    }
}
