//! C12 / C13 / C14 (and the polling part of C15-C17): PollingParameterNumberMessageScanner on the
//! mock clock.
use crate::common::*;
use crate::nrpn::{enc_pn, random_op};
use crate::rng::Rng;
use helgoboss_midi::verif_hooks::set_now;
use helgoboss_midi::*;
use std::time::Duration;

pub struct Clock(pub u64);

/// Runs operations (4 integers each) on a scanner; appends 12 integers per operation.
pub fn run_ops(
    sc: &mut PollingParameterNumberMessageScanner,
    clock: &mut Clock,
    ops: &[i64],
    obs: &mut Vec<i64>,
) -> bool {
    for op in ops.chunks(4) {
        if op.len() < 4 {
            break;
        }
        set_now(clock.0);
        let r: Option<[Option<ParameterNumberMessage>; 2]> = match op[0] {
            2 => region(|| {
                sc.reset();
                [None, None]
            }),
            3 | 7 => {
                let c = ch(op[1]);
                region(|| [sc.poll(c), None])
            }
            4 => {
                clock.0 = clock.0.saturating_add(op[1] as u64);
                Some([None, None])
            }
            k => region(|| with_msg(k, op[1], op[2], op[3], &mut |m| m.feed_poll(sc))),
        };
        match r {
            Some(o) => {
                obs.extend_from_slice(&enc_pn(&o[0]));
                obs.extend_from_slice(&enc_pn(&o[1]));
            }
            None => return false,
        }
    }
    true
}

pub fn new_scanner(timeout: i64) -> PollingParameterNumberMessageScanner {
    PollingParameterNumberMessageScanner::new(Duration::from_nanos(timeout as u64))
}

fn run_fresh(timeout: i64, ops: &[i64], obs: &mut Vec<i64>) -> bool {
    let mut sc = match region(|| new_scanner(timeout)) {
        Some(s) => s,
        None => return false,
    };
    let mut clock = Clock(0);
    run_ops(&mut sc, &mut clock, ops, obs)
}

pub fn exec(tag: i64, inp: &[i64]) -> Vec<i64> {
    match tag {
        130 | 140 => {
            let mut obs = Vec::new();
            if !run_fresh(inp[0], &inp[1..], &mut obs) {
                return vec![PANIC];
            }
            obs
        }
        131 => {
            let n = inp[1] as usize;
            let a = &inp[2..2 + 4 * n];
            let b = &inp[2 + 4 * n..];
            let mut obs = Vec::new();
            if !run_fresh(inp[0], a, &mut obs) || !run_fresh(inp[0], b, &mut obs) {
                return vec![PANIC];
            }
            obs
        }
        132 => {
            let a = &inp[1..];
            let b: Vec<i64> = a.chunks(4).filter(|o| o[0] != 7).flatten().copied().collect();
            let mut obs = Vec::new();
            if !run_fresh(inp[0], a, &mut obs) || !run_fresh(inp[0], &b, &mut obs) {
                return vec![PANIC];
            }
            obs
        }
        _ => vec![-97],
    }
}

pub const TIMEOUTS: [i64; 5] = [0, 1, 5, 1000, 1 << 60];

pub fn time_step(r: &mut Rng, timeout: i64) -> i64 {
    let t = timeout.min(1 << 40);
    let cands = [0, 1, (t - 1).max(0), t, t + 1, 2 * t + 1, t / 2];
    r.pick(&cands)
}

/// random history of feeds / polls / ticks / resets over the full alphabet
pub fn random_history(r: &mut Rng, timeout: i64, maxlen: u64, v: &mut Vec<i64>) -> usize {
    let len = r.below(maxlen + 1);
    let nch = r.pick(&[1u64, 1, 2, 3, 16]);
    for _ in 0..len {
        match r.below(10) {
            0 | 1 => v.extend_from_slice(&[3, r.below(nch) as i64, 0, 0]),
            2 | 3 => v.extend_from_slice(&[4, time_step(r, timeout), 0, 0]),
            _ => random_op(r, nch, v),
        }
    }
    len as usize
}

/// Abstract alphabet for the bounded-exhaustive part (one channel + a second one).
fn abstract_alphabet(timeout: i64) -> Vec<[i64; 4]> {
    vec![
        [0, 176, 99, 1],
        [0, 176, 98, 2],
        [1, 176, 101, 3],
        [0, 176, 100, 4],
        [0, 176, 38, 5],
        [0, 176, 6, 6],
        [5, 176, 96, 7],
        [0, 176, 97, 8],
        [0, 176, 7, 9],
        [0, 177, 6, 11],
        [2, 0, 0, 0],
        [3, 0, 0, 0],
        [4, timeout.min(1 << 40), 0, 0],
        [4, (timeout.min(1 << 40) - 1).max(0), 0, 0],
    ]
}

fn gen_histories(tag: i64, tier: Tier, r: &mut Rng, em: &mut Emitter, exhaustive: bool) {
    if exhaustive {
        for &timeout in &[0i64, 5] {
            let abs = abstract_alphabet(timeout);
            // a selected number first, so that the exhaustive part explores value phases
            let prefix = [0i64, 176, 99, 1, 0, 176, 98, 2];
            let depth = if tier == Tier::Thorough { 5 } else { 4 };
            let total = (abs.len() as u64).pow(depth);
            for mut i in 0..total {
                let mut inp = vec![timeout];
                if i % 2 == 0 {
                    inp.extend_from_slice(&prefix);
                }
                for _ in 0..depth {
                    inp.extend_from_slice(&abs[(i % abs.len() as u64) as usize]);
                    i /= abs.len() as u64;
                }
                em.emit_k("abstract-exhaustive", tag, inp);
            }
        }
    }
    let (n, maxlen) = if tier == Tier::Thorough { (150_000, 200) } else { (6_000, 60) };
    for _ in 0..n {
        let timeout = r.pick(&TIMEOUTS);
        let mut inp = vec![timeout];
        random_history(r, timeout, maxlen, &mut inp);
        em.emit_k(&format!("random/timeout={}", timeout), tag, inp);
    }
}

pub fn gen_c14(tier: Tier, seed: u64, em: &mut Emitter) {
    let mut r = Rng::new(seed ^ 0xC14);
    gen_histories(140, tier, &mut r, em, true);
}

pub fn gen_c13(tier: Tier, seed: u64, em: &mut Emitter) {
    let mut r = Rng::new(seed ^ 0xC13);
    gen_histories(130, tier, &mut r, em, true);
    // time independence of feed: same feeds, two clocks, no polls
    let n = if tier == Tier::Thorough { 60_000 } else { 3_000 };
    for _ in 0..n {
        let timeout = r.pick(&TIMEOUTS);
        let len = r.below(40);
        let nch = r.pick(&[1u64, 2, 16]);
        let mut feeds = Vec::new();
        for _ in 0..len {
            random_op(&mut r, nch, &mut feeds);
        }
        let mut a = Vec::new();
        let mut b = Vec::new();
        for op in feeds.chunks(4) {
            if r.chance(1, 2) {
                a.extend_from_slice(&[4, time_step(&mut r, timeout), 0, 0]);
            }
            if r.chance(1, 2) {
                b.extend_from_slice(&[4, time_step(&mut r, timeout), 0, 0]);
            }
            a.extend_from_slice(op);
            b.extend_from_slice(op);
        }
        let mut inp = vec![timeout, (a.len() / 4) as i64];
        inp.extend_from_slice(&a);
        inp.extend_from_slice(&b);
        em.emit_k("two-clocks", 131, inp);
    }
    // early polls have no effect
    for _ in 0..n {
        let timeout = r.pick(&[1i64, 5, 1000, 1 << 60]);
        let len = r.below(50);
        let nch = r.pick(&[1u64, 2, 16]);
        let mut last: Vec<Option<i64>> = vec![None; 16];
        let mut now: i64 = 0;
        let mut inp = vec![timeout];
        for _ in 0..len {
            match r.below(10) {
                0..=2 => {
                    // candidate early poll
                    let c = r.below(nch) as usize;
                    let early = match last[c] {
                        None => true,
                        Some(t0) => now - t0 < timeout,
                    };
                    inp.extend_from_slice(&[if early { 7 } else { 3 }, c as i64, 0, 0]);
                }
                3 | 4 => {
                    let dt = r.pick(&[0i64, 1, (timeout.min(1 << 40) - 1).max(0) / 2, timeout.min(1 << 40)]);
                    now += dt;
                    inp.extend_from_slice(&[4, dt, 0, 0]);
                }
                _ => {
                    let mut op = Vec::new();
                    random_op(&mut r, nch as u64, &mut op);
                    if op[0] == 2 {
                        for l in last.iter_mut() {
                            *l = None;
                        }
                    } else if op[1] / 16 == 11 && (op[2] == 6 || op[2] == 38) {
                        last[(op[1] % 16) as usize] = Some(now);
                    }
                    inp.extend_from_slice(&op);
                }
            }
        }
        em.emit_k("early-polls", 132, inp);
    }
}
