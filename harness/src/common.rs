//! Shared infrastructure: emitter, API regions (panic + allocation monitor), message helpers.
use crate::alloc;
use helgoboss_midi::*;
use std::collections::BTreeMap;
use std::io::Write;
use std::panic::{catch_unwind, AssertUnwindSafe};

#[derive(Copy, Clone, PartialEq, Eq)]
pub enum Tier {
    Quick,
    Thorough,
}

pub const NONE: i64 = -1;
pub const PANIC: i64 = -2;

thread_local! {
    static REGION_ALLOCS: std::cell::Cell<u64> = const { std::cell::Cell::new(0) };
}

/// Runs an implementation call inside a panic monitor and an allocation-counting region.
/// Allocations of panicking calls are not counted (a panic allocates its payload).
pub fn region<T>(f: impl FnOnce() -> T) -> Option<T> {
    alloc::take();
    alloc::begin();
    let r = catch_unwind(AssertUnwindSafe(f));
    alloc::end();
    let n = alloc::take();
    match r {
        Ok(v) => {
            REGION_ALLOCS.with(|c| c.set(c.get() + n));
            Some(v)
        }
        Err(_) => None,
    }
}

pub fn take_region_allocs() -> u64 {
    REGION_ALLOCS.with(|c| c.replace(0))
}

pub struct Emitter {
    out: Box<dyn Write>,
    shard: u64,
    nshards: u64,
    counter: u64,
    pub dist: BTreeMap<String, u64>,
    line: String,
}

impl Emitter {
    pub fn new(out: Box<dyn Write>, shard: u64, nshards: u64) -> Self {
        Emitter { out, shard, nshards, counter: 0, dist: BTreeMap::new(), line: String::new() }
    }

    /// Whether the next case belongs to this shard (the case counter advances in every shard).
    fn mine(&mut self) -> bool {
        let m = self.counter % self.nshards == self.shard;
        self.counter += 1;
        m
    }

    pub fn count(&mut self, key: &str) {
        *self.dist.entry(key.to_string()).or_insert(0) += 1;
    }

    /// Executes the implementation on `inp` and prints the record.
    pub fn emit(&mut self, tag: i64, inp: Vec<i64>) {
        if !self.mine() {
            return;
        }
        take_region_allocs();
        // a panic outside the monitored calls (e.g. while the harness builds a message through
        // the public API) is an observation too, not a crash of the run
        let obs = std::panic::catch_unwind(std::panic::AssertUnwindSafe(|| crate::exec(tag, &inp)))
            .unwrap_or_else(|_| vec![PANIC]);
        let allocs = take_region_allocs();
        use std::fmt::Write as _;
        self.line.clear();
        write!(self.line, "{}", tag).unwrap();
        for x in &inp {
            write!(self.line, " {}", x).unwrap();
        }
        self.line.push_str(" |");
        for x in &obs {
            write!(self.line, " {}", x).unwrap();
        }
        write!(self.line, " | {}", allocs).unwrap();
        self.out.write_all(self.line.as_bytes()).unwrap();
        self.out.write_all(b"\n").unwrap();
    }

    pub fn emit_k(&mut self, key: &str, tag: i64, inp: Vec<i64>) {
        if self.counter % self.nshards == self.shard {
            self.count(key);
        }
        self.emit(tag, inp);
    }

    pub fn finish(&mut self) {
        for (k, v) in &self.dist {
            writeln!(self.out, "#DIST {} {}", k, v).unwrap();
        }
        self.out.flush().unwrap();
    }
}

// ---------------------------------------------------------------------------------------------
// Third-party implementors of the traits (harness-defined).
// ---------------------------------------------------------------------------------------------

/// Implements only the three byte getters (+ the factory's unchecked constructor).
#[derive(Copy, Clone, PartialEq, Eq, Debug)]
pub struct Getters(pub u8, pub U7, pub U7);

impl ShortMessage for Getters {
    fn status_byte(&self) -> u8 {
        self.0
    }
    fn data_byte_1(&self) -> U7 {
        self.1
    }
    fn data_byte_2(&self) -> U7 {
        self.2
    }
}
impl ShortMessageFactory for Getters {
    unsafe fn from_bytes_unchecked(bytes: (u8, U7, U7)) -> Self {
        Getters(bytes.0, bytes.1, bytes.2)
    }
}

/// Additionally overrides `to_bytes` (consistently with the getters).
#[derive(Copy, Clone, PartialEq, Eq, Debug)]
pub struct Tuple(pub (u8, U7, U7));

impl ShortMessage for Tuple {
    fn status_byte(&self) -> u8 {
        (self.0).0
    }
    fn data_byte_1(&self) -> U7 {
        (self.0).1
    }
    fn data_byte_2(&self) -> U7 {
        (self.0).2
    }
    fn to_bytes(&self) -> (u8, U7, U7) {
        self.0
    }
}
impl ShortMessageFactory for Tuple {
    unsafe fn from_bytes_unchecked(bytes: (u8, U7, U7)) -> Self {
        Tuple(bytes)
    }
}

/// A third-party type that *overrides provided methods in terms of other provided methods*, as
/// a downstream crate may: `from_bytes` validates through the crate's own raw message and goes on
/// through `from_other`; `from_other` does its own bookkeeping and goes on through `to_other`.
/// (A re-entrancy guard turns an endless mutual recursion into a panic.)
#[derive(Copy, Clone, PartialEq, Eq, Debug)]
pub struct Overrider(pub (u8, U7, U7));

thread_local! {
    static OVERRIDER_DEPTH: std::cell::Cell<u32> = std::cell::Cell::new(0);
}
struct DepthGuard;
impl DepthGuard {
    fn enter() -> DepthGuard {
        OVERRIDER_DEPTH.with(|d| {
            if d.get() > 6 {
                d.set(0);
                panic!("provided methods of the factory re-enter each other endlessly");
            }
            d.set(d.get() + 1);
        });
        DepthGuard
    }
}
impl Drop for DepthGuard {
    fn drop(&mut self) {
        OVERRIDER_DEPTH.with(|d| d.set(d.get().saturating_sub(1)));
    }
}

impl ShortMessage for Overrider {
    fn status_byte(&self) -> u8 {
        (self.0).0
    }
    fn data_byte_1(&self) -> U7 {
        (self.0).1
    }
    fn data_byte_2(&self) -> U7 {
        (self.0).2
    }
}
impl ShortMessageFactory for Overrider {
    unsafe fn from_bytes_unchecked(bytes: (u8, U7, U7)) -> Self {
        Overrider(bytes)
    }
    fn from_bytes(bytes: (u8, U7, U7)) -> Result<Self, FromBytesError> {
        let _g = DepthGuard::enter();
        let raw = RawShortMessage::from_bytes(bytes)?;
        Ok(Self::from_other(&raw))
    }
    fn from_other(msg: &impl ShortMessage) -> Self {
        let _g = DepthGuard::enter();
        msg.to_other()
    }
}

// ---------------------------------------------------------------------------------------------
// Value helpers.  The harness builds restricted integers through the public checked API.
// ---------------------------------------------------------------------------------------------
pub fn u7(v: i64) -> U7 {
    U7::new(v as u8)
}
pub fn u14(v: i64) -> U14 {
    U14::new(v as u16)
}
pub fn ch(v: i64) -> Channel {
    Channel::new(v as u8)
}
pub fn cn(v: i64) -> ControllerNumber {
    ControllerNumber::new(v as u8)
}
pub fn kn(v: i64) -> KeyNumber {
    KeyNumber::new(v as u8)
}

pub fn raw(s: i64, a: i64, b: i64) -> RawShortMessage {
    RawShortMessage::from_bytes((s as u8, u7(a), u7(b))).unwrap()
}

pub fn bytes_of(m: &impl ShortMessage) -> [i64; 3] {
    let (s, a, b) = m.to_bytes();
    [s as i64, a.get() as i64, b.get() as i64]
}

/// The implementor kinds a message can be fed as.
pub const K_RAW: i64 = 0;
pub const K_STRUCT: i64 = 1;
pub const K_GETTERS: i64 = 5;
pub const K_TUPLE: i64 = 6;
pub const K_OVER: i64 = 7;

/// Calls `f` with the message (s,a,b) represented by implementor `kind`.
pub fn with_msg<R>(kind: i64, s: i64, a: i64, b: i64, f: &mut dyn FnMut(&dyn Fed) -> R) -> R {
    match kind {
        K_STRUCT => {
            let m = StructuredShortMessage::from_bytes((s as u8, u7(a), u7(b))).unwrap();
            f(&m)
        }
        K_GETTERS => f(&Getters(s as u8, u7(a), u7(b))),
        K_TUPLE => f(&Tuple((s as u8, u7(a), u7(b)))),
        K_OVER => f(&Overrider((s as u8, u7(a), u7(b)))),
        _ => f(&raw(s, a, b)),
    }
}

/// Object-safe view used to feed any implementor to the three scanners.
pub trait Fed {
    fn feed_cc14(&self, s: &mut ControlChange14BitMessageScanner) -> Option<ControlChange14BitMessage>;
    fn feed_pn(&self, s: &mut ParameterNumberMessageScanner) -> Option<ParameterNumberMessage>;
    #[cfg(feature = "cfg_std")]
    fn feed_poll(&self, s: &mut PollingParameterNumberMessageScanner) -> [Option<ParameterNumberMessage>; 2];
}

impl<T: ShortMessage> Fed for T {
    fn feed_cc14(&self, s: &mut ControlChange14BitMessageScanner) -> Option<ControlChange14BitMessage> {
        s.feed(self)
    }
    fn feed_pn(&self, s: &mut ParameterNumberMessageScanner) -> Option<ParameterNumberMessage> {
        s.feed(self)
    }
    #[cfg(feature = "cfg_std")]
    fn feed_poll(&self, s: &mut PollingParameterNumberMessageScanner) -> [Option<ParameterNumberMessage>; 2] {
        s.feed(self)
    }
}

pub fn enc_cc14(o: &Option<ControlChange14BitMessage>) -> [i64; 3] {
    match o {
        None => [NONE, NONE, NONE],
        Some(m) => [
            m.channel().get() as i64,
            m.msb_controller_number().get() as i64,
            m.value().get() as i64,
        ],
    }
}


/// How many *additional* times a reset operation calls `reset()` (second integer of op kind 2;
/// in the model a reset is idempotent): mostly none, sometimes around the wrap-around points of
/// 8- and 16-bit counters.
pub fn reset_repeat(r: &mut crate::rng::Rng) -> i64 {
    if r.chance(3, 4) {
        0
    } else {
        r.pick(&[1i64, 2, 254, 255, 256, 257, 511, 65535, 65536])
    }
}

/// With a small probability, a block of 1..4 consecutive operations of the history is repeated
/// 254..258 times in a row (8-bit counters that wrap, "nothing changed since" shortcuts, state
/// that drifts a little with every cycle).  16-bit wrap-around is exercised for resets only
/// (`reset_repeat`): the history specifications are not linear in the history length.
pub fn long_run(r: &mut crate::rng::Rng, ops: &mut Vec<i64>) {
    let n = ops.len() / 4;
    if n == 0 || !r.chance(1, 30) {
        return;
    }
    let w = (1 + r.below(4) as usize).min(n);
    let i = r.below((n - w + 1) as u64) as usize;
    let block: Vec<i64> = ops[4 * i..4 * (i + w)].to_vec();
    let k = 254 + r.below(5) as usize;
    let tail = ops.split_off(4 * (i + w));
    for _ in 0..k {
        ops.extend_from_slice(&block);
    }
    ops.extend(tail);
}
