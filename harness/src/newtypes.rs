//! C04 / C05: the restricted integer types.  The list of conversions is what the compiler sees
//! (probe.rs), so any From / TryFrom impl between the numeric types is exercised here.
use crate::common::*;
use crate::rng::Rng;
use helgoboss_midi::*;
use std::convert::TryFrom;

/// A primitive integer type of a conversion.
pub trait Prim: Copy {
    /// the value `(-1)^neg * mag`, if representable
    fn from_sm(neg: bool, mag: u128) -> Option<Self>;
    fn to_obs(self) -> i64;
    const MIN_SM: (bool, u128);
    const MAX_SM: (bool, u128);
}

macro_rules! impl_prim_unsigned {
    ($t:ty) => {
        impl Prim for $t {
            fn from_sm(neg: bool, mag: u128) -> Option<Self> {
                if neg && mag != 0 {
                    return None;
                }
                <$t>::try_from(mag).ok()
            }
            fn to_obs(self) -> i64 {
                i64::try_from(self).unwrap_or(i64::MAX)
            }
            const MIN_SM: (bool, u128) = (false, 0);
            const MAX_SM: (bool, u128) = (false, <$t>::MAX as u128);
        }
    };
}
macro_rules! impl_prim_signed {
    ($t:ty) => {
        impl Prim for $t {
            fn from_sm(neg: bool, mag: u128) -> Option<Self> {
                if neg {
                    if mag > (<$t>::MAX as u128) + 1 {
                        return None;
                    }
                    if mag == (<$t>::MAX as u128) + 1 {
                        return Some(<$t>::MIN);
                    }
                    Some(-(mag as $t))
                } else {
                    <$t>::try_from(mag).ok()
                }
            }
            fn to_obs(self) -> i64 {
                i64::try_from(self).unwrap_or(if self < 0 { i64::MIN } else { i64::MAX })
            }
            const MIN_SM: (bool, u128) = (true, (<$t>::MAX as u128) + 1);
            const MAX_SM: (bool, u128) = (false, <$t>::MAX as u128);
        }
    };
}
impl_prim_unsigned!(u8);
impl_prim_unsigned!(u16);
impl_prim_unsigned!(u32);
impl_prim_unsigned!(u64);
impl_prim_unsigned!(u128);
impl_prim_unsigned!(usize);
impl_prim_signed!(i8);
impl_prim_signed!(i16);
impl_prim_signed!(i32);
impl_prim_signed!(i64);
impl_prim_signed!(i128);
impl_prim_signed!(isize);

/// A restricted integer type; source values are built through the checked constructor.
pub trait Nt: Copy {
    type Repr: Prim;
    fn mk(v: Self::Repr) -> Self;
    fn inner(self) -> i64;
}
macro_rules! impl_nt {
    ($t:ty, $r:ty) => {
        impl Nt for $t {
            type Repr = $r;
            fn mk(v: $r) -> Self {
                <$t>::new(v)
            }
            fn inner(self) -> i64 {
                self.get() as i64
            }
        }
    };
}
impl_nt!(U4, u8);
impl_nt!(U7, u8);
impl_nt!(U14, u16);
impl_nt!(Channel, u8);
impl_nt!(KeyNumber, u8);
impl_nt!(ControllerNumber, u8);

type Sm = (bool, u128);

/// the restricted types in grid order: (name, repr, MAX) -- MAX is the crate's own constant
pub const NEWTYPES: [(&str, &str, i64); 6] = [
    ("U4", "u8", U4::MAX.get() as i64),
    ("U7", "u8", U7::MAX.get() as i64),
    ("U14", "u16", U14::MAX.get() as i64),
    ("Channel", "u8", Channel::MAX.get() as i64),
    ("KeyNumber", "u8", KeyNumber::MAX.get() as i64),
    ("ControllerNumber", "u8", ControllerNumber::MAX.get() as i64),
];

fn dec_sm(inp: &[i64]) -> Sm {
    let mag = ((inp[1] as u128) << 96) | ((inp[2] as u128) << 64) | ((inp[3] as u128) << 32) | (inp[4] as u128);
    (inp[0] == 1, mag)
}

fn enc_sm(x: Sm) -> [i64; 5] {
    let m = x.1;
    [x.0 as i64, ((m >> 96) & 0xffff_ffff) as i64, ((m >> 64) & 0xffff_ffff) as i64,
     ((m >> 32) & 0xffff_ffff) as i64, (m & 0xffff_ffff) as i64]
}

macro_rules! with_nt {
    ($idx:expr, $t:ident => $body:expr) => {
        match NEWTYPES[$idx as usize].0 {
            "U4" => { type $t = U4; $body }
            "U7" => { type $t = U7; $body }
            "U14" => { type $t = U14; $body }
            "Channel" => { type $t = Channel; $body }
            "KeyNumber" => { type $t = KeyNumber; $body }
            "ControllerNumber" => { type $t = ControllerNumber; $body }
            _ => vec![-97],
        }
    };
}

pub fn exec(tag: i64, inp: &[i64]) -> Vec<i64> {
    match tag {
        40 | 50 => crate::probe::run(inp[1], inp[2] as usize, inp[3] as usize, dec_sm(&inp[4..9])),
        41 => {
            let v = inp[2];
            with_nt!(inp[1], T => {
                match region(|| T::new(v as <T as Nt>::Repr)) {
                    None => vec![PANIC],
                    Some(x) => vec![x.inner()],
                }
            })
        }
        42 => {
            // code points (not bytes): non-ASCII characters are part of the input space
            let s: String = inp[1..].iter().map(|&c| char::from_u32(c as u32).unwrap_or('?')).collect();
            with_nt!(inp[0], T => {
                match region(|| s.parse::<T>()) {
                    None => vec![PANIC],
                    Some(Ok(x)) => vec![1, x.inner()],
                    Some(Err(_)) => vec![0, NONE],
                }
            })
        }
        43 => with_nt!(inp[0], T => {
            vec![T::MIN.inner(), T::MAX.inner(), T::default().inner()]
        }),
        51 => {
            let v = inp[1];
            with_nt!(inp[0], T => {
                let x = T::mk(v as <T as Nt>::Repr);
                // formatting into a fixed stack buffer: Display itself must not allocate
                let mut buf = StackBuf::new();
                let ok = region(|| {
                    use std::fmt::Write;
                    write!(buf, "{}", x).is_ok()
                });
                if ok != Some(true) {
                    return vec![PANIC];
                }
                let mut o: Vec<i64> = buf.as_bytes().iter().map(|&b| b as i64).collect();
                let txt = String::from_utf8_lossy(buf.as_bytes()).to_string();
                o.push(match txt.parse::<T>() { Ok(y) => y.inner(), Err(_) => NONE });
                o
            })
        }
        52 => {
            let (a, b) = (inp[1], inp[2]);
            with_nt!(inp[0], T => {
                let (x, y) = (T::mk(a as <T as Nt>::Repr), T::mk(b as <T as Nt>::Repr));
                match region(|| {
                    use std::cmp::Ordering::*;
                    use std::hash::{Hash, Hasher};
                    let mut h1 = Fnv(0xcbf29ce484222325);
                    let mut h2 = Fnv(0xcbf29ce484222325);
                    x.hash(&mut h1);
                    y.hash(&mut h2);
                    [(x < y) as i64, (x == y) as i64, (x <= y) as i64, (x > y) as i64,
                     match x.cmp(&y) { Less => 0, Equal => 1, Greater => 2 },
                     (h1.finish() == h2.finish()) as i64]
                }) {
                    None => vec![PANIC],
                    Some(o) => o.to_vec(),
                }
            })
        }
        _ => vec![-97],
    }
}

pub struct Fnv(u64);
impl std::hash::Hasher for Fnv {
    fn finish(&self) -> u64 {
        self.0
    }
    fn write(&mut self, bytes: &[u8]) {
        for b in bytes {
            self.0 = (self.0 ^ (*b as u64)).wrapping_mul(0x100000001b3);
        }
    }
}

pub struct StackBuf {
    buf: [u8; 64],
    len: usize,
}
impl StackBuf {
    pub fn new() -> Self {
        StackBuf { buf: [0; 64], len: 0 }
    }
    pub fn as_bytes(&self) -> &[u8] {
        &self.buf[..self.len]
    }
}
impl std::fmt::Write for StackBuf {
    fn write_str(&mut self, s: &str) -> std::fmt::Result {
        for b in s.bytes() {
            if self.len >= 64 {
                return Err(std::fmt::Error);
            }
            self.buf[self.len] = b;
            self.len += 1;
        }
        Ok(())
    }
}

fn prim_bounds(name: &str) -> (Sm, Sm) {
    match name {
        "u8" => (u8::MIN_SM, u8::MAX_SM),
        "u16" => (u16::MIN_SM, u16::MAX_SM),
        "u32" => (u32::MIN_SM, u32::MAX_SM),
        "u64" => (u64::MIN_SM, u64::MAX_SM),
        "u128" => (u128::MIN_SM, u128::MAX_SM),
        "usize" => (usize::MIN_SM, usize::MAX_SM),
        "i8" => (i8::MIN_SM, i8::MAX_SM),
        "i16" => (i16::MIN_SM, i16::MAX_SM),
        "i32" => (i32::MIN_SM, i32::MAX_SM),
        "i64" => (i64::MIN_SM, i64::MAX_SM),
        "i128" => (i128::MIN_SM, i128::MAX_SM),
        "isize" => (isize::MIN_SM, isize::MAX_SM),
        _ => {
            let max = NEWTYPES.iter().find(|t| t.0 == name).map(|t| t.2).unwrap_or(0);
            ((false, 0), (false, max as u128))
        }
    }
}

fn in_bounds(x: Sm, b: (Sm, Sm)) -> bool {
    // compare sign-magnitude numbers
    let le = |a: Sm, c: Sm| match (a.0 && a.1 != 0, c.0 && c.1 != 0) {
        (true, false) => true,
        (false, true) => false,
        (false, false) => a.1 <= c.1,
        (true, true) => a.1 >= c.1,
    };
    le(b.0, x) && le(x, b.1)
}

/// Source values for conversion `idx`: exhaustive for 8/16-bit and newtype sources; boundaries,
/// powers of two +-1, type min/max and seeded random values otherwise.
fn source_values(src: &str, r: &mut Rng, tier: Tier) -> Vec<Sm> {
    let b = prim_bounds(src);
    let mut v: Vec<Sm> = Vec::new();
    let small = matches!(src, "u8" | "i8" | "u16" | "i16") || NEWTYPES.iter().any(|t| t.0 == src);
    if small {
        let (lo, hi) = (b.0, b.1);
        let mut m = if lo.0 { lo.1 as i128 * -1 } else { lo.1 as i128 };
        let top = hi.1 as i128;
        while m <= top {
            v.push((m < 0, m.unsigned_abs()));
            m += 1;
        }
        return v;
    }
    let mut cands: Vec<Sm> = vec![(false, 0), (false, 1), (true, 1), (false, 15), (false, 16), (false, 127),
        (false, 128), (false, 255), (false, 256), (false, 16383), (false, 16384), (false, 65535), (false, 65536),
        (true, 128), (true, 129), (true, 16384), b.0, b.1];
    for e in 1..128u32 {
        let p = 1u128 << e;
        for d in [0u128, 1] {
            cands.push((false, p - 1 + 2 * d));
            cands.push((false, p - d));
            cands.push((true, p - 1 + 2 * d));
            cands.push((true, p - d));
        }
    }
    cands.push((false, u128::MAX));
    cands.push((false, u128::MAX - 1));
    let n = if tier == Tier::Thorough { 20_000 } else { 300 };
    for _ in 0..n {
        let bits = 1 + r.below(128) as u32;
        let raw = ((r.next() as u128) << 64) | r.next() as u128;
        let mag = if bits == 128 { raw } else { raw & ((1u128 << bits) - 1) };
        cands.push((r.chance(1, 2), mag));
        // values around the newtype ranges
        cands.push((r.chance(1, 4), r.below(20000) as u128));
    }
    for c in cands {
        let c = if c.1 == 0 { (false, 0) } else { c };
        if in_bounds(c, b) {
            v.push(c);
        }
    }
    v
}

fn gen_convs(tag: i64, cfg: i64, tier: Tier, r: &mut Rng, em: &mut Emitter) {
    for (kind, s, d) in crate::probe::table() {
        let cls = |i: usize| if i < crate::probe::N_NT { "newtype" } else { "primitive" };
        let key = format!("conv/{}/{}->{}", if kind == 0 { "From" } else { "TryFrom" }, cls(s), cls(d));
        for x in source_values(crate::probe::TYPES[s], r, tier) {
            let mut inp = vec![cfg, kind, s as i64, d as i64];
            inp.extend_from_slice(&enc_sm(x));
            em.emit_k(&key, tag, inp);
        }
    }
}

const ALPHABET: [u8; 9] = [b'0', b'1', b'2', b'5', b'9', b'+', b'-', b' ', b'a'];

fn gen_strings(tier: Tier, em: &mut Emitter) {
    let maxlen = if tier == Tier::Thorough { 5 } else { 4 };
    for t in 0..NEWTYPES.len() as i64 {
        let mut emit = |s: &[u8], key: &str| {
            let mut inp = vec![t];
            inp.extend(s.iter().map(|&c| c as i64));
            em.emit_k(key, 42, inp);
        };
        // all strings over the alphabet up to the length bound
        for len in 0..=maxlen {
            let total = (ALPHABET.len() as u64).pow(len);
            for mut i in 0..total {
                let mut s = Vec::new();
                for _ in 0..len {
                    s.push(ALPHABET[(i % ALPHABET.len() as u64) as usize]);
                    i /= ALPHABET.len() as u64;
                }
                emit(&s, "parse/alphabet");
            }
        }
        // boundary and leading-zero numerals
        for n in [0u64, 1, 14, 15, 16, 126, 127, 128, 129, 254, 255, 256, 16382, 16383, 16384, 65535, 65536, 99999, 4294967296] {
            for pre in ["", "+", "0", "00", "+0", "-", " ", "0000000000000000000000"] {
                for suf in ["", " ", "a", "0"] {
                    let s = format!("{}{}{}", pre, n, suf);
                    emit(s.as_bytes(), "parse/boundary");
                }
            }
        }
        // characters that are "digits" to something other than an ASCII decimal parser: code
        // points whose low byte is an ASCII digit, other scripts' digits, superscripts
        for &cp in &[0x0131i64, 0x0139, 0x0430, 0x4E37, 0x0661, 0x0669, 0x06F1, 0x0967, 0xFF11, 0xFF10, 0x00B9, 0x00B2, 0x2460, 0x2081, 0x00BD, 0x1D7CF] {
            for pat in 0..4 {
                let mut inp = vec![t];
                match pat {
                    0 => inp.push(cp),
                    1 => inp.extend_from_slice(&[49, cp]),
                    2 => inp.extend_from_slice(&[cp, 49]),
                    _ => inp.extend_from_slice(&[43, cp]),
                }
                em.emit_k("parse/non-ascii", 42, inp);
            }
        }
    }
}

pub fn gen_c04(tier: Tier, seed: u64, em: &mut Emitter, cfg: i64) {
    let mut r = Rng::new(seed ^ 0xC04);
    gen_convs(40, cfg, tier, &mut r, em);
    for (t, (_, repr, _)) in NEWTYPES.iter().enumerate() {
        let top = if *repr == "u8" { 255 } else { 65535 };
        for v in 0..=top {
            em.emit_k("new", 41, vec![cfg, t as i64, v]);
        }
        em.emit_k("consts", 43, vec![t as i64]);
    }
    gen_strings(tier, em);
    // the checked constructors of test_util (scalar helpers, message shorthands)
    crate::sm::gen_test_util(em);
}

/// Cross-target records (run under Miri for a 32-bit and a big-endian target): a small set, since
/// interpretation is slow.  Conversions with fixed-width sources on values around the
/// pointer-width boundaries; `usize`/`isize` are left out (the model fixes them at 64 bits).
pub fn gen_cross(em: &mut Emitter, cfg: i64) {
    for (kind, s, d) in crate::probe::table() {
        let (sn, dn) = (crate::probe::TYPES[s], crate::probe::TYPES[d]);
        if sn.ends_with("size") || dn.ends_with("size") {
            continue;
        }
        let b = prim_bounds(sn);
        let mut vals: Vec<Sm> = vec![(false, 0), (false, 1), (false, 15), (false, 16), (false, 127), (false, 128),
            (false, 16383), (false, 16384), (false, 65535), (false, 65536), (true, 1), (true, 128),
            (false, 1 << 31), (false, (1 << 31) + 5), (false, 1 << 32), (false, (1 << 32) + 5), (false, (1 << 32) + 127),
            (false, (1 << 32) + 16383), (true, (1 << 32) - 3), (true, 1 << 32), (false, 1 << 63), (false, (1 << 64) + 3),
            (false, (1u128 << 96) + 7), b.0, b.1];
        vals.dedup();
        for x in vals {
            if in_bounds(x, b) {
                let mut inp = vec![cfg, kind, s as i64, d as i64];
                inp.extend_from_slice(&enc_sm(x));
                em.emit_k("cross/conversions", 50, inp);
            }
        }
    }
    for (t, (_, repr, max)) in NEWTYPES.iter().enumerate() {
        let top = if *repr == "u8" { 255 } else { 65535 };
        for v in [0i64, 1, *max - 1, *max, *max + 1, top - 1, top] {
            em.emit_k("cross/new", 41, vec![cfg, t as i64, v]);
        }
        for v in [0i64, 1, 9, 10, *max] {
            em.emit_k("cross/display", 51, vec![t as i64, v]);
        }
        for s in ["0", "15", "127", "128", "16383", "16384", "+7", "007", "4294967296", "4294967301", "18446744073709551621", "-1", ""] {
            let mut inp = vec![t as i64];
            inp.extend(s.bytes().map(|c| c as i64));
            em.emit_k("cross/parse", 42, inp);
        }
    }
}

pub fn gen_c05(tier: Tier, seed: u64, em: &mut Emitter, cfg: i64) {
    let mut r = Rng::new(seed ^ 0xC05);
    gen_convs(50, cfg, tier, &mut r, em);
    // the checked constructor is the conversion in from the representation type
    for (t, (_, repr, _)) in NEWTYPES.iter().enumerate() {
        let top = if *repr == "u8" { 255 } else { 65535 };
        for v in 0..=top {
            em.emit_k("new", 41, vec![cfg, t as i64, v]);
        }
    }
    gen_strings(tier, em);
    for (t, (_, _, max)) in NEWTYPES.iter().enumerate() {
        let t = t as i64;
        em.emit_k("consts", 43, vec![t]);
        for v in 0..=*max {
            em.emit_k("display", 51, vec![t, v]);
        }
        if *max <= 127 {
            for a in 0..=*max {
                for b in 0..=*max {
                    em.emit_k("ordering", 52, vec![t, a, b]);
                }
            }
        } else {
            for &a in &[0i64, 1, 127, 128, 255, 256, 8191, 8192, 16382, 16383] {
                for d in -2i64..=2 {
                    let b = a + d;
                    if b >= 0 && b <= *max {
                        em.emit_k("ordering", 52, vec![t, a, b]);
                        em.emit_k("ordering", 52, vec![t, b, a]);
                    }
                }
            }
            let n = if tier == Tier::Thorough { 200_000 } else { 5_000 };
            for _ in 0..n {
                em.emit_k("ordering", 52, vec![t, r.below(*max as u64 + 1) as i64, r.below(*max as u64 + 1) as i64]);
            }
        }
    }
}
