//! C19: deserialization of every public type through serde's generic value deserializer
//! (serde_json::Value), and the round trip of the natural representation.
use crate::common::*;
use crate::newtypes::NEWTYPES;
use crate::nrpn::enc_pn;
use crate::rng::Rng;
use crate::sm::{dec_struct, dec_tcqf, enc_struct, enc_tcqf};
use helgoboss_midi::*;
use serde_json::{json, Map, Value};

/// decode the integer encoding of a JSON value (see Checker.v, tag 190)
fn dec_json(l: &[i64], pos: &mut usize) -> Value {
    let t = l[*pos];
    *pos += 1;
    match t {
        0 => Value::Null,
        1 => {
            let b = l[*pos] == 1;
            *pos += 1;
            Value::Bool(b)
        }
        2 => {
            let z = l[*pos];
            *pos += 1;
            json!(z)
        }
        3 => {
            let n = l[*pos] as usize;
            *pos += 1;
            let s: String = l[*pos..*pos + n].iter().map(|&c| c as u8 as char).collect();
            *pos += n;
            Value::String(s)
        }
        4 => {
            let n = l[*pos] as usize;
            *pos += 1;
            Value::Array((0..n).map(|_| dec_json(l, pos)).collect())
        }
        _ => {
            let n = l[*pos] as usize;
            *pos += 1;
            // serde_json's map keeps one entry per key; duplicate keys are therefore fed through
            // the raw JSON text instead (see `to_text`)
            let mut m = Map::new();
            for _ in 0..n {
                let kl = l[*pos] as usize;
                *pos += 1;
                let k: String = l[*pos..*pos + kl].iter().map(|&c| c as u8 as char).collect();
                *pos += kl;
                let v = dec_json(l, pos);
                m.insert(k, v);
            }
            Value::Object(m)
        }
    }
}

pub fn enc_json(v: &Value, out: &mut Vec<i64>) {
    match v {
        Value::Null => out.push(0),
        Value::Bool(b) => out.extend_from_slice(&[1, *b as i64]),
        Value::Number(n) => out.extend_from_slice(&[2, n.as_i64().unwrap_or(i64::MAX)]),
        Value::String(s) => {
            out.extend_from_slice(&[3, s.len() as i64]);
            out.extend(s.bytes().map(|b| b as i64));
        }
        Value::Array(a) => {
            out.extend_from_slice(&[4, a.len() as i64]);
            for x in a {
                enc_json(x, out);
            }
        }
        Value::Object(m) => {
            out.extend_from_slice(&[5, m.len() as i64]);
            for (k, x) in m {
                out.push(k.len() as i64);
                out.extend(k.bytes().map(|b| b as i64));
                enc_json(x, out);
            }
        }
    }
}

fn de<T: serde::de::DeserializeOwned>(v: Value) -> Option<Option<T>> {
    // not an allocation-free API: serde_json owns heap data; only panics are monitored here
    std::panic::catch_unwind(move || serde_json::from_value::<T>(v).ok()).ok()
}

fn nt_obs<T: serde::de::DeserializeOwned + crate::newtypes::Nt>(v: Value) -> Vec<i64> {
    match de::<T>(v) {
        None => vec![PANIC],
        Some(None) => vec![0],
        Some(Some(x)) => vec![1, x.inner()],
    }
}

fn slots_obs(slots: &[Option<RawShortMessage>; 4], o: &mut Vec<i64>) {
    for s in slots {
        match s {
            None => o.extend_from_slice(&[NONE, NONE, NONE]),
            Some(m) => {
                // read the stored bytes without going through the checked accessors
                let (s, a, b): (u8, U7, U7) = (*m).into();
                o.extend_from_slice(&[s as i64, a.get() as i64, b.get() as i64]);
            }
        }
    }
}

pub fn exec(tag: i64, inp: &[i64]) -> Vec<i64> {
    match tag {
        190 => {
            let tidx = inp[0];
            let mut pos = 1;
            let v = dec_json(inp, &mut pos);
            match tidx {
                0..=5 => match NEWTYPES[tidx as usize].0 {
                    "U4" => nt_obs::<U4>(v),
                    "U7" => nt_obs::<U7>(v),
                    "U14" => nt_obs::<U14>(v),
                    "Channel" => nt_obs::<Channel>(v),
                    "KeyNumber" => nt_obs::<KeyNumber>(v),
                    _ => nt_obs::<ControllerNumber>(v),
                },
                10 => match de::<ShortMessageType>(v) {
                    None => vec![PANIC],
                    Some(None) => vec![0],
                    Some(Some(t)) => vec![1, u8::from(t) as i64],
                },
                11 => match de::<TimeCodeType>(v) {
                    None => vec![PANIC],
                    Some(None) => vec![0],
                    Some(Some(t)) => vec![1, u8::from(t) as i64],
                },
                12 => match de::<DataType>(v) {
                    None => vec![PANIC],
                    Some(None) => vec![0],
                    Some(Some(d)) => vec![1, match d {
                        DataType::DataEntry => 0,
                        DataType::DataIncrement => 1,
                        DataType::DataDecrement => 2,
                    }],
                },
                13 => match de::<TimeCodeQuarterFrame>(v) {
                    None => vec![PANIC],
                    Some(None) => vec![0],
                    Some(Some(f)) => {
                        let mut o = vec![1];
                        o.extend_from_slice(&enc_tcqf(&f));
                        o
                    }
                },
                14 => match de::<StructuredShortMessage>(v) {
                    None => vec![PANIC],
                    Some(None) => vec![0],
                    Some(Some(m)) => {
                        let mut o = vec![1];
                        o.extend_from_slice(&enc_struct(&m));
                        o
                    }
                },
                15 => match de::<RawShortMessage>(v) {
                    None => vec![PANIC],
                    Some(None) => vec![0],
                    Some(Some(m)) => {
                        let (s, a, b): (u8, U7, U7) = m.into();
                        let t = region(|| u8::from(m.r#type()) as i64).unwrap_or(PANIC);
                        vec![1, s as i64, a.get() as i64, b.get() as i64, t]
                    }
                },
                16 => match de::<ControlChange14BitMessage>(v) {
                    None => vec![PANIC],
                    Some(None) => vec![0],
                    Some(Some(m)) => {
                        let l = region(|| m.lsb_controller_number().get() as i64).unwrap_or(PANIC);
                        vec![1, m.channel().get() as i64, m.msb_controller_number().get() as i64, m.value().get() as i64, l]
                    }
                },
                _ => match de::<ParameterNumberMessage>(v) {
                    None => vec![PANIC],
                    Some(None) => vec![0],
                    Some(Some(m)) => {
                        let mut o = vec![1];
                        o.extend_from_slice(&enc_pn(&Some(m)));
                        match region(|| m.to_short_messages::<RawShortMessage>(DataEntryByteOrder::MsbFirst)) {
                            Some(s) => slots_obs(&s, &mut o),
                            None => o.push(PANIC),
                        }
                        o
                    }
                },
            }
        }
        192 => {
            // input shapes that serde_json values do not have: a byte string (inp[1] = 0), a u64
            // (1), an i64 (2) handed over through serde's own value deserializers.  Whatever is
            // accepted must survive the round trip through its own (validating) Deserialize:
            // observation [accepted, round trip ok].
            use serde::de::value::{BytesDeserializer, Error as VErr, I64Deserializer, U64Deserializer};
            use serde::de::IntoDeserializer;
            fn probe<T: serde::Serialize + serde::de::DeserializeOwned + PartialEq>(shape: i64, data: &[i64]) -> Vec<i64> {
                let bytes: Vec<u8> = data.iter().map(|&b| b as u8).collect();
                let r: Option<Result<T, VErr>> = std::panic::catch_unwind(|| match shape {
                    0 => T::deserialize(BytesDeserializer::<VErr>::new(&bytes)),
                    1 => T::deserialize(U64Deserializer::<VErr>::new(data.first().copied().unwrap_or(0) as u64)),
                    _ => T::deserialize(I64Deserializer::<VErr>::new(data.first().copied().unwrap_or(0))),
                })
                .ok();
                let _ = 0u8.into_deserializer() as serde::de::value::U8Deserializer<VErr>;
                match r {
                    None => vec![PANIC],
                    Some(Err(_)) => vec![0, NONE],
                    Some(Ok(x)) => {
                        let back = serde_json::to_value(&x).ok().and_then(|v| serde_json::from_value::<T>(v).ok());
                        vec![1, (back.as_ref() == Some(&x)) as i64]
                    }
                }
            }
            let (tidx, shape, data) = (inp[0], inp[1], &inp[2..]);
            match tidx {
                0 => probe::<U4>(shape, data),
                1 => probe::<U7>(shape, data),
                2 => probe::<U14>(shape, data),
                3 => probe::<Channel>(shape, data),
                4 => probe::<KeyNumber>(shape, data),
                5 => probe::<ControllerNumber>(shape, data),
                10 => probe::<ShortMessageType>(shape, data),
                13 => probe::<TimeCodeQuarterFrame>(shape, data),
                14 => probe::<StructuredShortMessage>(shape, data),
                15 => probe::<RawShortMessage>(shape, data),
                16 => probe::<ControlChange14BitMessage>(shape, data),
                _ => probe::<ParameterNumberMessage>(shape, data),
            }
        }
        191 => {
            let tidx = inp[0];
            let f = &inp[1..];
            fn rt<T: serde::Serialize + serde::de::DeserializeOwned + PartialEq>(x: T) -> Vec<i64> {
                rt2(x, false)
            }
            fn rt2<T: serde::Serialize + serde::de::DeserializeOwned + PartialEq>(x: T, top_level_struct: bool) -> Vec<i64> {
                let v = match serde_json::to_value(&x) {
                    Ok(v) => v,
                    Err(_) => return vec![-95],
                };
                let mut o = Vec::new();
                enc_json(&v, &mut o);
                o.push(match serde_json::from_value::<T>(v) {
                    Ok(y) => (y == x) as i64,
                    Err(_) => 0,
                });
                // the positional form, as a non-self-describing format would carry it: for a
                // top-level struct the field values in the order Serialize emitted them (taken
                // from the JSON text; the fields are scalars), as a sequence
                o.push(match serde_json::to_string(&x) {
                    Ok(text) if top_level_struct && text.starts_with('{') && !text[1..].contains('{') && !text.contains('[') => {
                        let inner = &text[1..text.len() - 1];
                        let vals: Vec<&str> = inner
                            .split(',')
                            .map(|kv| kv.splitn(2, ':').nth(1).unwrap_or(""))
                            .collect();
                        let arr = format!("[{}]", vals.join(","));
                        match serde_json::from_str::<T>(&arr) {
                            Ok(y) => (y == x) as i64,
                            Err(_) => 0,
                        }
                    }
                    Ok(_) => 1,
                    Err(_) => 0,
                });
                o
            }
            match tidx {
                0..=5 => match NEWTYPES[tidx as usize].0 {
                    "U4" => rt(U4::new(f[0] as u8)),
                    "U7" => rt(u7(f[0])),
                    "U14" => rt(u14(f[0])),
                    "Channel" => rt(ch(f[0])),
                    "KeyNumber" => rt(kn(f[0])),
                    _ => rt(cn(f[0])),
                },
                13 => rt(dec_tcqf(f[0], f[1], f[2])),
                14 => rt(dec_struct(f[0], f[1], f[2], f[3])),
                15 => rt(raw(f[0], f[1], f[2])),
                16 => rt2(ControlChange14BitMessage::new(ch(f[0]), cn(f[1]), u14(f[2])), true),
                _ => rt2(crate::nrpn::ctor(
                    // constructor number from (registered, 14-bit, data type)
                    match (f[3] == 1, f[4] == 1, f[5]) {
                        (false, true, _) => 1,
                        (true, true, _) => 5,
                        (false, false, 0) => 0,
                        (false, false, 1) => 3,
                        (false, false, _) => 2,
                        (true, false, 0) => 4,
                        (true, false, 1) => 7,
                        (true, false, _) => 6,
                    },
                    ch(f[0]),
                    u14(f[1]),
                    f[2],
                ), true),
            }
        }
        _ => vec![-97],
    }
}

fn jint(z: i64) -> Vec<i64> {
    vec![2, z]
}
fn jstr(s: &str) -> Vec<i64> {
    let mut v = vec![3, s.len() as i64];
    v.extend(s.bytes().map(|b| b as i64));
    v
}
fn jarr(items: &[Vec<i64>]) -> Vec<i64> {
    let mut v = vec![4, items.len() as i64];
    for i in items {
        v.extend_from_slice(i);
    }
    v
}
fn jobj(items: &[(&str, Vec<i64>)]) -> Vec<i64> {
    // serde_json::Map (BTreeMap) iterates in key order and keeps one entry per key; emit the same
    let mut sorted: Vec<&(&str, Vec<i64>)> = Vec::new();
    for it in items {
        if let Some(p) = sorted.iter().position(|x| x.0 == it.0) {
            sorted[p] = it;
        } else {
            sorted.push(it);
        }
    }
    sorted.sort_by(|a, b| a.0.cmp(b.0));
    let mut v = vec![5, sorted.len() as i64];
    for (k, x) in sorted.iter().map(|x| (x.0, &x.1)) {
        v.push(k.len() as i64);
        v.extend(k.bytes().map(|b| b as i64));
        v.extend_from_slice(x);
    }
    v
}
fn jvar(name: &str, c: Vec<i64>) -> Vec<i64> {
    jobj(&[(name, c)])
}

const WRONG: [&str; 4] = ["null", "bool", "string", "float-ish"];

fn wrong_values() -> Vec<Vec<i64>> {
    vec![vec![0], vec![1, 1], jstr("5"), jarr(&[jint(1)]), jobj(&[("a", jint(1))])]
}

/// boundary integers around the ranges of all the restricted types
const INTS: [i64; 22] = [-70000, -1, 0, 1, 15, 16, 31, 32, 119, 120, 127, 128, 255, 256, 16383, 16384, 65535, 65536, 70000, 40, 63, 64];

fn emit(em: &mut Emitter, key: &str, tidx: i64, j: Vec<i64>) {
    let mut inp = vec![tidx];
    inp.extend(j);
    em.emit_k(key, 190, inp);
}

/// every way of presenting a struct: map, map with unknown key, sequence, missing field, extra
/// sequence element, a wrong-typed field
fn struct_forms(fields: &[(&str, Vec<i64>)]) -> Vec<Vec<i64>> {
    let mut out = vec![jobj(fields)];
    let mut with_extra = fields.to_vec();
    with_extra.push(("unknown_key", jint(1)));
    out.push(jobj(&with_extra));
    let seq: Vec<Vec<i64>> = fields.iter().map(|f| f.1.clone()).collect();
    out.push(jarr(&seq));
    if !fields.is_empty() {
        out.push(jobj(&fields[1..]));
        out.push(jarr(&seq[1..]));
        let mut longer = seq.clone();
        longer.push(jint(0));
        out.push(jarr(&longer));
        let mut wrong = fields.to_vec();
        wrong[0].1 = jstr("x");
        out.push(jobj(&wrong));
    }
    out
}

pub fn gen_c19(tier: Tier, seed: u64, em: &mut Emitter) {
    let mut r = Rng::new(seed ^ 0xC19);
    let _ = WRONG;
    // restricted integers: every integer of a wide range (thorough: -70000..70000)
    for t in 0..NEWTYPES.len() as i64 {
        let (lo, hi) = if tier == Tier::Thorough { (-70000, 70000) } else { (-300, 17000) };
        for z in lo..=hi {
            emit(em, "integers", t, jint(z));
        }
        for &z in &INTS {
            emit(em, "integers", t, jint(z));
        }
        for w in wrong_values() {
            emit(em, "integers/wrong type", t, w);
        }
        for v in 0..=NEWTYPES[t as usize].2 {
            em.emit_k("roundtrip", 191, vec![t, v]);
        }
    }
    // ShortMessageType (repr), TimeCodeType, DataType
    for z in -2..300 {
        emit(em, "type enums", 10, jint(z));
    }
    for name in ["Fps24", "Fps25", "Fps30DropFrame", "Fps30NonDrop", "Fps31", "", "fps24"] {
        emit(em, "type enums", 11, jstr(name));
        emit(em, "type enums", 11, jvar(name, vec![0]));
        emit(em, "type enums", 11, jvar(name, jint(1)));
    }
    for z in 0..5 {
        emit(em, "type enums", 11, jint(z));
    }
    for name in ["DataEntry", "DataIncrement", "DataDecrement", "Data", "dataentry"] {
        emit(em, "type enums", 12, jstr(name));
        emit(em, "type enums", 12, jvar(name, vec![0]));
        emit(em, "type enums", 12, jvar(name, jint(0)));
    }
    for w in wrong_values() {
        for t in [10, 11, 12, 13, 14, 15, 16, 17] {
            emit(em, "wrong type", t, w.clone());
        }
    }
    // quarter frames
    let frames = ["FrameCountLsNibble", "FrameCountMsNibble", "SecondsCountLsNibble", "SecondsCountMsNibble",
                  "MinutesCountLsNibble", "MinutesCountMsNibble", "HoursCountLsNibble", "Nope"];
    for (i, f) in frames.iter().enumerate() {
        for &z in &[-1i64, 0, 1, 15, 16, 127, 128, 65536] {
            emit(em, "quarter frames", 13, jvar(f, jint(z)));
            emit(em, "structured", 14, jvar("TimeCodeQuarterFrame", jvar(f, jint(z))));
        }
        emit(em, "quarter frames", 13, jstr(f));
        if i < 7 {
            for v in 0..16 {
                em.emit_k("roundtrip", 191, vec![13, i as i64, v, 0]);
            }
        }
    }
    for bit in 0..2 {
        for (ti, tn) in ["Fps24", "Fps25", "Fps30DropFrame", "Fps30NonDrop", "Bad"].iter().enumerate() {
            for form in struct_forms(&[("hours_count_ms_bit", vec![1, bit]), ("time_code_type", jstr(tn))]) {
                emit(em, "quarter frames", 13, jvar("Last", form));
            }
            if ti < 4 {
                em.emit_k("roundtrip", 191, vec![13, 7, bit, ti as i64]);
            }
        }
    }
    // structured messages: every variant x boundary field values x all struct forms
    let ch_vals = [0i64, 15, 16, -1];
    let b7 = [0i64, 127, 128, 256];
    let b14 = [0i64, 16383, 16384, 70000];
    let v3: [(&str, [&str; 3]); 4] = [
        ("NoteOff", ["channel", "key_number", "velocity"]),
        ("NoteOn", ["channel", "key_number", "velocity"]),
        ("PolyphonicKeyPressure", ["channel", "key_number", "pressure_amount"]),
        ("ControlChange", ["channel", "controller_number", "control_value"]),
    ];
    for (name, fs) in v3.iter() {
        for &c in &ch_vals {
            for &a in &b7 {
                for &b in &b7 {
                    for form in struct_forms(&[(fs[0], jint(c)), (fs[1], jint(a)), (fs[2], jint(b))]) {
                        emit(em, "structured", 14, jvar(name, form));
                    }
                }
            }
        }
    }
    for (name, fs, big) in [("ProgramChange", ["channel", "program_number"], false),
                            ("ChannelPressure", ["channel", "pressure_amount"], false),
                            ("PitchBendChange", ["channel", "pitch_bend_value"], true)] {
        for &c in &ch_vals {
            for &a in if big { &b14 } else { &b7 } {
                for form in struct_forms(&[(fs[0], jint(c)), (fs[1], jint(a))]) {
                    emit(em, "structured", 14, jvar(name, form));
                }
            }
        }
    }
    for &a in &b14 {
        for form in struct_forms(&[("position", jint(a))]) {
            emit(em, "structured", 14, jvar("SongPositionPointer", form));
        }
    }
    for &a in &b7 {
        for form in struct_forms(&[("song_number", jint(a))]) {
            emit(em, "structured", 14, jvar("SongSelect", form));
        }
    }
    for name in ["SystemExclusiveStart", "TuneRequest", "SystemExclusiveEnd", "TimingClock", "Start", "Continue",
                 "Stop", "ActiveSensing", "SystemReset", "SystemCommonUndefined1", "SystemCommonUndefined2",
                 "SystemRealTimeUndefined1", "SystemRealTimeUndefined2", "NoteOn", "Unknown"] {
        emit(em, "structured", 14, jstr(name));
        emit(em, "structured", 14, jvar(name, vec![0]));
        emit(em, "structured", 14, jvar(name, jint(1)));
    }
    emit(em, "structured", 14, jobj(&[("Start", vec![0]), ("Stop", vec![0])]));
    // round trips of structured values
    for v in 0..23i64 {
        for _ in 0..40 {
            let (x, y, z) = match v {
                0..=3 => (r.below(16) as i64, r.below(128) as i64, r.below(128) as i64),
                4 | 5 => (r.below(16) as i64, r.below(128) as i64, 0),
                6 => (r.below(16) as i64, r.below(16384) as i64, 0),
                8 => {
                    let i = r.below(8) as i64;
                    if i < 7 { (i, r.below(16) as i64, 0) } else { (7, r.below(2) as i64, r.below(4) as i64) }
                }
                9 => (r.below(16384) as i64, 0, 0),
                10 => (r.below(128) as i64, 0, 0),
                _ => (0, 0, 0),
            };
            em.emit_k("roundtrip", 191, vec![14, v, x, y, z]);
        }
    }
    // RawShortMessage: every status byte x boundary data, sequence forms
    for s in -1..258i64 {
        for &(a, b) in &[(0i64, 0i64), (127, 127), (128, 0), (0, 128)] {
            emit(em, "raw", 15, jarr(&[jint(s), jint(a), jint(b)]));
        }
        emit(em, "raw", 15, jarr(&[jint(s), jint(0)]));
        emit(em, "raw", 15, jarr(&[jint(s), jint(0), jint(0), jint(0)]));
        if (128..256).contains(&s) {
            em.emit_k("roundtrip", 191, vec![15, s, r.below(128) as i64, r.below(128) as i64]);
        }
    }
    // ControlChange14BitMessage: all controller numbers x boundary channel/value x forms
    for n in -1..130i64 {
        for &c in &ch_vals {
            for &v in &b14 {
                for form in struct_forms(&[("channel", jint(c)), ("msb_controller_number", jint(n)), ("value", jint(v))]) {
                    emit(em, "cc14", 16, form);
                }
            }
        }
        if (0..32).contains(&n) {
            em.emit_k("roundtrip", 191, vec![16, r.below(16) as i64, n, r.below(16384) as i64]);
        }
    }
    // ParameterNumberMessage: field-value combinations
    for &c in &[0i64, 15, 16] {
        for &n in &[0i64, 16383, 16384] {
            for &v in &[0i64, 127, 128, 16383, 16384] {
                for reg in 0..2 {
                    for w in 0..2 {
                        for dt in ["DataEntry", "DataIncrement", "DataDecrement", "Bogus"] {
                            let fields = [("channel", jint(c)), ("number", jint(n)), ("value", jint(v)),
                                          ("is_registered", vec![1, reg]), ("is_14_bit", vec![1, w]),
                                          ("data_type", jstr(dt))];
                            for form in struct_forms(&fields) {
                                emit(em, "pn", 17, form);
                            }
                        }
                    }
                }
            }
        }
    }
    // interior values of the value field (not only the boundaries of the ranges): every
    // resolution x data type, map form
    for &v in &[1i64, 2, 64, 126, 129, 130, 191, 192, 255, 256, 257, 300, 383, 384, 511, 512, 1000, 4095, 4096,
                8191, 8192, 8193, 12345, 16255, 16256, 16257, 16382] {
        for reg in 0..2 {
            for w in 0..2 {
                for dt in ["DataEntry", "DataIncrement", "DataDecrement"] {
                    let fields = [("channel", jint(r.below(16) as i64)), ("number", jint(r.below(16384) as i64)),
                                  ("value", jint(v)), ("is_registered", vec![1, reg]), ("is_14_bit", vec![1, w]),
                                  ("data_type", jstr(dt))];
                    if let Some(form) = struct_forms(&fields).into_iter().next() {
                        emit(em, "pn/interior values", 17, form);
                    }
                }
            }
        }
    }
    for _ in 0..300 {
        let fields = [("channel", jint(r.below(17) as i64)), ("number", jint(r.below(16400) as i64)),
                      ("value", jint(r.below(16400) as i64)), ("is_registered", vec![1, r.below(2) as i64]),
                      ("is_14_bit", vec![1, r.below(2) as i64]),
                      ("data_type", jstr(r.pick(&["DataEntry", "DataIncrement", "DataDecrement"])))];
        for form in struct_forms(&fields).into_iter().take(2) {
            emit(em, "pn/random", 17, form);
        }
    }
    // other input shapes (serde's own value deserializers): byte strings, bare integers
    for &t in &[0i64, 1, 2, 3, 4, 5, 10, 13, 14, 15, 16, 17] {
        for data in [vec![], vec![0i64], vec![200], vec![144, 200, 0], vec![144, 0, 200], vec![144, 60, 100], vec![10, 0, 0],
                     vec![255, 255, 255], vec![0, 0, 0, 0], vec![3, 40, 16, 64], vec![1, 2, 3, 4, 5, 6]] {
            let mut inp = vec![t, 0];
            inp.extend(data);
            em.emit_k("other-shapes/bytes", 192, inp);
        }
        for v in [0i64, 15, 16, 127, 128, 255, 256, 16383, 16384, 65535, 65536, 4294967296] {
            em.emit_k("other-shapes/u64", 192, vec![t, 1, v]);
            em.emit_k("other-shapes/i64", 192, vec![t, 2, v]);
            em.emit_k("other-shapes/i64", 192, vec![t, 2, -v]);
        }
    }
    for _ in 0..500 {
        let w = r.below(2) as i64;
        let dt = if w == 1 { 0 } else { r.below(3) as i64 };
        let v = if w == 1 { r.below(16384) as i64 } else { r.below(128) as i64 };
        em.emit_k("roundtrip", 191, vec![17, r.below(16) as i64, r.below(16384) as i64, v, r.below(2) as i64, w, dt]);
    }
}
