(** Executable correspondence oracle.  [check tag inp obs] recomputes, for one record produced
    by the Rust harness (input [inp], the implementation's observation [obs]):
      - [v_model]: the model's observation for the same input,
      - [v_agree]: [obs] = model observation (the correspondence),
      - [v_holds]: the decidable statement of the property evaluated on the
                   *implementation's* observation (the violation oracle).
    This file is extracted to OCaml (checker/) and is also evaluated inside Coq by
    [vm_compute] for the extraction self-check.  All values are integers ([Z]):
    [-1] = None, [-2] = the call panicked, booleans 0/1. *)
From Verif Require Import Base.Prelude Model.ShortMsg Model.PerChannel Model.CC14 Model.Nrpn
  Model.Polling Spec.MidiTable Spec.CC14Spec Spec.NrpnSpec.
Open Scope Z_scope.

Record verdict : Type := mkV { v_agree : bool; v_holds : bool; v_model : list Z }.

Definition ZNONE : Z := -1.
Definition ZPANIC : Z := -2.

Definition zN (n : N) : Z := Z.of_N n.
Definition zb (b : bool) : Z := if b then 1 else 0.
Definition zopt (o : option N) : Z := match o with Some n => zN n | None => ZNONE end.
Definition nz (z : Z) : N := Z.to_N z.

Definition enc_bytes (b : bytes) : list Z :=
  let '(s, a, c) := b in [zN s; zN a; zN c].

Definition enc_cc14 (o : option cc14msg) : list Z :=
  match o with
  | None => [ZNONE; ZNONE; ZNONE]
  | Some m => [zN (cc_channel m); zN (cc_msb_cn m); zN (cc_value m)]
  end.

(** compare the implementation's observation with model and spec observations *)
Definition verdict_of (obs model spec : list Z) : verdict :=
  mkV (listZ_eqb obs model) (listZ_eqb obs spec) model.

Definition bad_record : verdict := mkV false false [-99].

(** * operation decoding (4 integers per operation: kind, a, b, c)
    kind 0: feed RawShortMessage(a,b,c)      kind 1: feed StructuredShortMessage from (a,b,c)
    kind 2: reset                            kind 3: poll(channel a)
    kind 4: advance the clock by a ns        kind 5: feed a third-party implementor (a,b,c) *)
Definition canon_bytes (b : bytes) : bytes :=
  match struct_of_bytes b with
  | Ok m => struct_tb m
  | Panic => b
  end.

Definition op_bytes (kind : Z) (a b c : Z) : bytes :=
  let raw := (nz a, nz b, nz c) in
  if Z.eqb kind 1 then canon_bytes raw else raw.

Fixpoint dec_cc14ops (l : list Z) : list cc14op :=
  match l with
  | k :: a :: b :: c :: t =>
      (if Z.eqb k 2 then CReset else CFeed (op_bytes k a b c)) :: dec_cc14ops t
  | _ => []
  end.

(** * C07 / C08 *)
Definition outs_or_panic {S A} (r : outcome (S * list A)) (enc : A -> list Z) : list Z :=
  match r with
  | Ok (_, outs) => flat_map enc outs
  | Panic => [ZPANIC]
  end.

(** tag 70: ControlChange14BitMessage::new(ch, cn, v), getters, encodings into
    RawShortMessage and StructuredShortMessage *)
Definition model_70 (ch cn v : N) : list Z :=
  match cc14_new ch cn v with
  | Panic => [ZPANIC]
  | Ok m =>
      match cc14_lsb_cn m, cc14_to_short_messages raw_fbu m,
            cc14_to_short_messages struct_fbu m with
      | Ok l, Ok (r1, r2), Ok (s1, s2) =>
          [zN (cc_channel m); zN (cc_msb_cn m); zN l; zN (cc_value m)]
            ++ enc_bytes r1 ++ enc_bytes r2
            ++ enc_bytes (struct_tb s1) ++ enc_bytes (struct_tb s2)
      | _, _, _ => [ZPANIC]
      end
  end.

Definition spec_70 (ch cn v : N) : list Z :=
  if N.leb 32 cn then [ZPANIC]
  else
    let e := flat_map enc_bytes (cc14_encode_spec ch cn v) in
    [zN ch; zN cn; zN (cn + 32); zN v] ++ e ++ e.

(** tag 71: after an arbitrary prior history, feed the two messages of the encoding *)
Definition model_71 (ch cn v : N) (k : Z) (prior : list cc14op) : list Z :=
  match cc14_new ch cn v with
  | Panic => [ZPANIC]
  | Ok m =>
      match cc14_to_short_messages raw_fbu m with
      | Ok (r1, r2) =>
          match cc14_run cc14_new_scanner prior with
          | Ok (s, _) =>
              outs_or_panic
                (cc14_run s [CFeed (op_bytes k (zN (fst (fst r1))) (zN (snd (fst r1))) (zN (snd r1)));
                             CFeed (op_bytes k (zN (fst (fst r2))) (zN (snd (fst r2))) (zN (snd r2)))])
                enc_cc14
          | Panic => [ZPANIC]
          end
      | Panic => [ZPANIC]
      end
  end.

Definition spec_71 (ch cn v : N) : list Z :=
  enc_cc14 None ++ enc_cc14 (Some (mkCC14 ch cn v)).

(** tag 80: a history of feeds and resets from a new scanner *)
Definition model_80 (h : list cc14op) : list Z :=
  outs_or_panic (cc14_run cc14_new_scanner h) enc_cc14.
Definition spec_80 (h : list cc14op) : list Z :=
  flat_map enc_cc14 (cc14_spec_outs h).

(** * C09 / C10 / C11 *)
Definition zdt (d : datatype) : Z :=
  match d with DataEntry => 0 | DataIncrement => 1 | DataDecrement => 2 end.

Definition enc_pn (o : option pnmsg) : list Z :=
  match o with
  | None => [ZNONE; ZNONE; ZNONE; ZNONE; ZNONE; ZNONE]
  | Some m => [zN (pn_channel m); zN (pn_number m); zN (pn_value m); zb (pn_is_registered m);
               zb (pn_is_14_bit m); zdt (pn_data_type m)]
  end.

Definition enc_slot (o : option bytes) : list Z :=
  match o with None => [ZNONE; ZNONE; ZNONE] | Some b => enc_bytes b end.

Fixpoint dec_pnops (l : list Z) : list pnop :=
  match l with
  | k :: a :: b :: c :: t =>
      (if Z.eqb k 2 then NReset else NFeed (op_bytes k a b c)) :: dec_pnops t
  | _ => []
  end.

(** the eight public constructors, numbered as in the harness *)
Definition pn_ctor (k : Z) (ch num v : N) : pnmsg :=
  match k with
  | 0 => non_registered_7_bit ch num v
  | 1 => non_registered_14_bit ch num v
  | 2 => non_registered_decrement ch num v
  | 3 => non_registered_increment ch num v
  | 4 => registered_7_bit ch num v
  | 5 => registered_14_bit ch num v
  | 6 => registered_decrement ch num v
  | _ => registered_increment ch num v
  end.

(** what the constructor numbered [k] is documented to build (independent of [pn_ctor]) *)
Definition pn_ctor_spec (k : Z) (ch num v : N) : pnmsg :=
  mkPN ch num v (Z.leb 4 k) (Z.eqb k 1 || Z.eqb k 5)
       (if Z.eqb k 2 || Z.eqb k 6 then DataDecrement
        else if Z.eqb k 3 || Z.eqb k 7 then DataIncrement else DataEntry).

Definition dec_order (z : Z) : byteorder := if Z.eqb z 0 then MsbFirst else LsbFirst.

(** tag 90: constructor, getters, encoding into both implementations, array conversion *)
Definition model_90 (k : Z) (ch num v : N) (order : Z) : list Z :=
  let m := pn_ctor k ch num v in
  match pn_to_short_messages raw_fbu m (dec_order order),
        pn_to_short_messages struct_fbu m (dec_order order),
        pn_to_short_messages raw_fbu m MsbFirst with
  | Ok r, Ok s, Ok a =>
      enc_pn (Some m) ++ flat_map enc_slot r ++ flat_map enc_slot (map (option_map struct_tb) s)
        ++ flat_map enc_slot a
  | _, _, _ => [ZPANIC]
  end.

Definition spec_90 (k : Z) (ch num v : N) (order : Z) : list Z :=
  let m := pn_ctor_spec k ch num v in
  let e := flat_map enc_slot (pn_encode_spec m (Z.eqb order 0)) in
  enc_pn (Some m) ++ e ++ e ++ flat_map enc_slot (pn_encode_spec m true).

Definition slots_to_ops (k : Z) (l : list (option bytes)) : list pnop :=
  flat_map (fun o => match o with
                     | Some b => [NFeed (op_bytes k (zN (fst (fst b))) (zN (snd (fst b))) (zN (snd b)))]
                     | None => []
                     end) l.

(** tag 100: encoding fed after an arbitrary prior history *)
Definition model_100 (k : Z) (ch num v : N) (order kind : Z) (prior : list pnop) : list Z :=
  let m := pn_ctor k ch num v in
  match pn_to_short_message_bytes m (dec_order order), pn_run pn_new_scanner prior with
  | Ok l, Ok (s, _) => outs_or_panic (pn_run s (slots_to_ops kind l)) enc_pn
  | _, _ => [ZPANIC]
  end.

Definition spec_100 (k : Z) (ch num v : N) : list Z :=
  let m := pn_ctor_spec k ch num v in
  if pn_is_14_bit m then enc_pn None ++ enc_pn None ++ enc_pn None ++ enc_pn (Some m)
  else enc_pn None ++ enc_pn None ++ enc_pn (Some m).

(** tag 101: running forms after one selection *)
Fixpoint take_ops (n : nat) (l : list Z) : list Z * list Z :=
  match n with
  | O => ([], l)
  | S n' =>
      match l with
      | k :: a :: b :: c :: t => let '(x, y) := take_ops n' t in (k :: a :: b :: c :: x, y)
      | _ => ([], [])
      end
  end.

Fixpoint pairs_of (l : list Z) : list (N * N) :=
  match l with
  | a :: b :: t => (nz a, nz b) :: pairs_of t
  | _ => []
  end.

Definition running_ops (kind : Z) (ch : N) (reg : bool) (num n : N) (vs : list Z) : list pnop :=
  let f := fun c v => NFeed (op_bytes kind (zN (176 + ch)%N) (zN c) (zN v)) in
  [f (if reg then 101 else 99)%N (num / 128)%N; f (if reg then 100 else 98)%N (num mod 128)%N]
    ++ (if N.eqb n 0%N then flat_map (fun p => [f 38%N (fst p); f 6%N (snd p)]) (pairs_of vs)
        else map (fun v => f n (nz v)) vs).

Definition model_101 (ch : N) (reg : bool) (num n : N) (kind : Z) (prior : list pnop)
  (vs : list Z) : list Z :=
  match pn_run pn_new_scanner prior with
  | Ok (s, _) => outs_or_panic (pn_run s (running_ops kind ch reg num n vs)) enc_pn
  | Panic => [ZPANIC]
  end.

Definition spec_101 (ch : N) (reg : bool) (num n : N) (vs : list Z) : list Z :=
  enc_pn None ++ enc_pn None ++
  (if N.eqb n 0%N then
     flat_map (fun p => enc_pn None ++
                        enc_pn (Some (mkPN ch num (128 * snd p + fst p)%N reg true DataEntry)))
              (pairs_of vs)
   else
     flat_map (fun v => enc_pn (Some (mkPN ch num (nz v) reg false
                                        (if N.eqb n 96%N then DataIncrement
                                         else if N.eqb n 97%N then DataDecrement else DataEntry))))
              vs).

(** tag 110: a history of feeds and resets from a new scanner *)
Definition model_110 (h : list pnop) : list Z := outs_or_panic (pn_run pn_new_scanner h) enc_pn.
Definition spec_110 (h : list pnop) : list Z := flat_map enc_pn (pn_spec_outs h).

Definition check (tag : Z) (inp obs : list Z) : verdict :=
  match tag, inp with
  | 70, [ch; cn; v] => verdict_of obs (model_70 (nz ch) (nz cn) (nz v)) (spec_70 (nz ch) (nz cn) (nz v))
  | 71, ch :: cn :: v :: k :: prior =>
      verdict_of obs (model_71 (nz ch) (nz cn) (nz v) k (dec_cc14ops prior))
        (spec_71 (nz ch) (nz cn) (nz v))
  | 80, h => verdict_of obs (model_80 (dec_cc14ops h)) (spec_80 (dec_cc14ops h))
  | 90, [k; ch; num; v; order] =>
      verdict_of obs (model_90 k (nz ch) (nz num) (nz v) order) (spec_90 k (nz ch) (nz num) (nz v) order)
  | 100, k :: ch :: num :: v :: order :: kind :: prior =>
      verdict_of obs (model_100 k (nz ch) (nz num) (nz v) order kind (dec_pnops prior))
        (spec_100 k (nz ch) (nz num) (nz v))
  | 101, ch :: reg :: num :: n :: kind :: nprior :: rest =>
      let '(prior, vs) := take_ops (Z.to_nat nprior) rest in
      verdict_of obs
        (model_101 (nz ch) (Z.eqb reg 1) (nz num) (nz n) kind (dec_pnops prior) vs)
        (spec_101 (nz ch) (Z.eqb reg 1) (nz num) (nz n) vs)
  | 110, h => verdict_of obs (model_110 (dec_pnops h)) (spec_110 (dec_pnops h))
  | _, _ => bad_record
  end.
