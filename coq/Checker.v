(** Executable correspondence oracle.  [check tag inp obs] recomputes, for one record produced
    by the Rust harness (input [inp], the implementation's observation [obs]):
      - [v_model]: the model's observation for the same input,
      - [v_agree]: [obs] = model observation (the correspondence),
      - [v_holds]: the decidable statement of the property evaluated on the
                   *implementation's* observation (the violation oracle).
    This file is extracted to OCaml (checker/) and is also evaluated inside Coq by
    [vm_compute] for the extraction self-check.  All values are integers ([Z]):
    [-1] = None, [-2] = the call panicked, booleans 0/1. *)
From Verif Require Import Base.Prelude Base.Enc Spec.ShortMsgObs Model.ShortMsg Model.PerChannel Model.Factory Model.CC14
  Model.Nrpn Model.Polling Spec.Canon Spec.MidiTable Spec.ScannerSpec Spec.CC14Spec Spec.NrpnSpec Spec.PollMonitor Spec.PollGrammar Spec.ConstSpec
  Generated.CtrlConsts Generated.NewtypeTables Generated.SerdeShapes Base.Cfg Model.Newtypes
  Model.Serde.
Open Scope Z_scope.

Record verdict : Type := mkV { v_agree : bool; v_holds : bool; v_model : list Z }.

Definition enc_cc14 (o : option cc14msg) : list Z :=
  match o with
  | None => [ZNONE; ZNONE; ZNONE]
  | Some m => [zN (cc_channel m); zN (cc_msb_cn m); zN (cc_value m)]
  end.

(** compare the implementation's observation with model and spec observations *)
Definition verdict_of (obs model spec : list Z) : verdict :=
  mkV (listZ_eqb obs model) (listZ_eqb obs spec) model.

Definition bad_record : verdict := mkV false false [-99].

(** * operation decoding (4 integers per operation: kind, a, b, c)
    kind 0: feed RawShortMessage(a,b,c)      kind 1: feed StructuredShortMessage from (a,b,c)
    kind 2: reset                            kind 3: poll(channel a)
    kind 4: advance the clock by a ns        kind 5: feed a third-party implementor (a,b,c) *)
Definition canon_bytes (b : bytes) : bytes :=
  match struct_of_bytes b with
  | Ok m => struct_tb m
  | Panic => b
  end.

Definition op_bytes (kind : Z) (a b c : Z) : bytes :=
  let raw := (nz a, nz b, nz c) in
  if Z.eqb kind 1 then canon_bytes raw else raw.

(** operation kind 9 = "the previous operation again, very many times" (harness: the first and
    the last of these applications are observed): in the model the operation is applied twice
    -- feeding one message again and again is stable after the first repetition *)
Fixpoint expand9 (p0 p1 p2 p3 : Z) (l : list Z) : list Z :=
  match l with
  | k :: a :: b :: c :: t =>
      if Z.eqb k 9 then p0 :: p1 :: p2 :: p3 :: p0 :: p1 :: p2 :: p3 :: expand9 p0 p1 p2 p3 t
      (* kind 11: a marker -- the two explicit copies of a block that follow it are run with many
         unobserved runs of the block in between; the model runs just the two copies *)
      else if Z.eqb k 11 then expand9 p0 p1 p2 p3 t
      else k :: a :: b :: c :: expand9 k a b c t
  | _ => l
  end.

Fixpoint dec_cc14ops (l : list Z) : list cc14op :=
  match l with
  | k :: a :: b :: c :: t =>
      (if Z.eqb k 2 || Z.eqb k 8 then CReset
       else if Z.eqb k 10 then CFeed (248, 0, 0)%N   (* real time passes: like a timing clock *)
       else CFeed (op_bytes k a b c)) :: dec_cc14ops t
  | _ => []
  end.

(** * restricted integer types: C04 / C05 (instances from the regenerated tables) *)
Definition dec_big (neg l3 l2 l1 l0 : Z) : Z :=
  let m := l3 * 79228162514264337593543950336 + l2 * 18446744073709551616 + l1 * 4294967296 + l0 in
  if Z.eqb neg 1 then - m else m.

Definition enabled_of (cfg : Z) : list String.string :=
  if Z.eqb cfg 0 then cargo_default ++ serde_features ++ cargo_serde
  else [].

Definition in_rng (r : option (Z * Z)) (z : Z) : bool :=
  match r with Some (lo, hi) => Z.leb lo z && Z.leb z hi | None => false end.

Definition is_try (k : conv_kind) : bool :=
  match k with CTry => true | CFrom => false end.

(** tag 40 (C04: only range membership and failure are observed) and tag 50 (C05: exact values) *)
Definition kind_eqb (a b : conv_kind) : bool :=
  match a, b with CFrom, CFrom | CTry, CTry => true | _, _ => false end.

(** the record names the conversion by kind and grid position (the grid of harness/src/probe.rs);
    it must be an entry of the regenerated table, otherwise the record is rejected *)
Definition conv_entry (kind : Z) (s d : nat) : option (conv_kind * String.string * String.string) :=
  match nth_error grid_types s, nth_error grid_types d with
  | Some src, Some dst =>
      let k := if Z.eqb kind 0 then CFrom else CTry in
      if existsb (fun e => match e with (k', a, b) => kind_eqb k k' && String.eqb a src && String.eqb b dst end)
                 conv_table
      then Some (k, src, dst) else None
  | _, _ => None
  end.

Definition check_conv (exact : bool) (kind : Z) (s d : nat) (x : Z) (obs : list Z) : verdict :=
  match conv_entry kind s d with
  | None => bad_record
  | Some (k, src, dst) =>
      if negb (in_rng (type_range newtype_defs src) x) then bad_record
      else
        let model := match conv_apply newtype_defs (k, src, dst) x with
                     | Some (Some v) => [0; v]
                     | Some None => [1; ZNONE]
                     | None => [-99]
                     end in
        let dmax := match type_range newtype_defs dst with Some (_, m) => m | None => -1 end in
        let must_fail := is_try k && negb (Z.leb 0 x && Z.leb x dmax) in
        let holds :=
          match obs with
          | [0; v] => negb must_fail && in_rng (type_range newtype_defs dst) v &&
                      (if exact then Z.eqb v x else true)
          | [1; _] => must_fail
          | _ => false
          end in
        let agree := if exact then listZ_eqb obs model
                     else match obs, model with
                          | [a; _], [b; _] => Z.eqb a b
                          | _, _ => false
                          end in
        mkV agree holds model
  end.

Definition nt_at (tidx : nat) : option (String.string * String.string * N) := nth_error newtype_defs tidx.

(** tag 41: the checked constructor in a feature configuration *)
Definition check_new (cfg : Z) (tidx : nat) (v : N) (obs : list Z) : verdict :=
  match nt_at tidx with
  | Some (_, _, m) =>
      let model := match nt_new new_cfg_guards (enabled_of cfg) m v with
                   | Ok x => [zN x] | Panic => [ZPANIC] end in
      verdict_of obs model (if N.leb v m then [zN v] else [ZPANIC])
  | None => bad_record
  end.

(** tag 42: FromStr.  Specification: exactly the unsigned decimal numerals (digits only,
    optionally preceded by '+') whose value is in range *)
Definition is_digit (c : N) : bool := N.leb 48 c && N.leb c 57.
Definition numeral_value (s : list N) : option Z :=
  let ds := match s with 43%N :: t => t | _ => s end in
  if Nat.ltb 0 (length ds) && forallb is_digit ds
  then Some (fold_left (fun acc c => 10 * acc + (zN c - 48)) ds 0)
  else None.

Definition check_parse (tidx : nat) (s : list N) (obs : list Z) : verdict :=
  match nt_at tidx with
  | Some (_, r, m) =>
      let pmax := match prim_range r with Some (_, hi) => hi | None => -1 end in
      let model := match nt_from_str pmax m s with Some v => [1; zN v] | None => [0; ZNONE] end in
      let spec := match numeral_value s with
                  | Some v => if Z.leb v (zN m) then [1; v] else [0; ZNONE]
                  | None => [0; ZNONE]
                  end in
      verdict_of obs model spec
  | None => bad_record
  end.

(** tag 43: MIN / MAX / Default *)
Definition check_consts (tidx : nat) (obs : list Z) : verdict :=
  match nt_at tidx with
  | Some (_, _, m) => verdict_of obs [0; zN m; 0] [0; zN m; 0]
  | None => bad_record
  end.

(** tag 51: Display prints the decimal value; parsing it back is the identity *)
Definition check_show (tidx : nat) (v : N) (obs : list Z) : verdict :=
  match nt_at tidx with
  | Some (_, r, m) =>
      let pmax := match prim_range r with Some (_, hi) => hi | None => -1 end in
      let txt := show v in
      let model := map zN txt ++ [match nt_from_str pmax m txt with Some x => zN x | None => ZNONE end] in
      (* independent reading: the digits denote v, no leading zero unless v = 0, re-parse gives v *)
      let digits := firstn (length obs - 1) obs in
      let ok_digits :=
        Nat.ltb 0 (length digits) && forallb (fun c => Z.leb 48 c && Z.leb c 57) digits &&
        Z.eqb (fold_left (fun acc c => 10 * acc + (c - 48)) digits 0) (zN v) &&
        (Nat.eqb (length digits) 1 || negb (Z.eqb (hd 0 digits) 48)) in
      mkV (listZ_eqb obs model) (ok_digits && Z.eqb (last obs ZNONE) (zN v)) model
  | None => bad_record
  end.

(** tag 52: equality and ordering agree with the numeric value *)
Definition check_ord (a b : N) (obs : list Z) : verdict :=
  let spec := [zb (N.ltb a b); zb (N.eqb a b); zb (N.leb a b); zb (N.ltb b a);
               (if N.ltb a b then 0 else if N.eqb a b then 1 else 2); zb (N.eqb a b)] in
  verdict_of obs spec spec.

(** * short messages: C01 / C02 / C03 / C06 (encoders in Spec/ShortMsgObs.v) *)
(** tag 10: from_bytes for every factory implementation *)
Definition model_10 (k : Z) (b : bytes) : list Z :=
  let fb := if Z.eqb k 1 then from_bytes (fun x => omap struct_tb (struct_fbu x)) b
            else from_bytes raw_fbu b in
  match fb with
  | Ok (Some r) => 1 :: enc_bytes r
  | Ok None => [0; ZNONE; ZNONE; ZNONE]
  | Panic => [ZPANIC]
  end.
Definition spec_10 (k : Z) (b : bytes) : list Z :=
  let '(s, a, c) := b in
  if N.leb 128 s then 1 :: enc_bytes (if Z.eqb k 1 then canon b else b)
  else [0; ZNONE; ZNONE; ZNONE].

(** tag 11: a StructuredShortMessage value: its bytes; back from bytes; via raw; to_structured *)
Definition model_11 (m : structured) : list Z :=
  let b := struct_tb m in
  enc_bytes b ++
  [zo (fun m' => zb (listZ_eqb (enc_struct m') (enc_struct m))) (struct_of_bytes b);
   zo (fun m' => zb (listZ_eqb (enc_struct m') (enc_struct m))) (raw_ts (raw_tb b));
   zo (fun m' => zb (listZ_eqb (enc_struct m') (enc_struct m))) (struct_ts m)].
Definition struct_layout (m : structured) : bytes :=
  match m with
  | SNoteOff ch a b => (128 + ch, a, b)
  | SNoteOn ch a b => (144 + ch, a, b)
  | SPolyphonicKeyPressure ch a b => (160 + ch, a, b)
  | SControlChange ch a b => (176 + ch, a, b)
  | SProgramChange ch a => (192 + ch, a, 0)
  | SChannelPressure ch a => (208 + ch, a, 0)
  | SPitchBendChange ch v => (224 + ch, v mod 128, v / 128)
  | SSystemExclusiveStart => (240, 0, 0)
  | STimeCodeQuarterFrame f =>
      (241,
       match f with
       | FrameCountLsNibble v => v
       | FrameCountMsNibble v => 16 + v
       | SecondsCountLsNibble v => 32 + v
       | SecondsCountMsNibble v => 48 + v
       | MinutesCountLsNibble v => 64 + v
       | MinutesCountMsNibble v => 80 + v
       | HoursCountLsNibble v => 96 + v
       | TcLast b t => 112 + 2 * tct_code t + (if b then 1 else 0)
       end, 0)
  | SSongPositionPointer p => (242, p mod 128, p / 128)
  | SSongSelect n => (243, n, 0)
  | STuneRequest => (246, 0, 0)
  | SSystemExclusiveEnd => (247, 0, 0)
  | STimingClock => (248, 0, 0)
  | SStart => (250, 0, 0)
  | SContinue => (251, 0, 0)
  | SStop => (252, 0, 0)
  | SActiveSensing => (254, 0, 0)
  | SSystemReset => (255, 0, 0)
  | SSystemCommonUndefined1 => (244, 0, 0)
  | SSystemCommonUndefined2 => (245, 0, 0)
  | SSystemRealTimeUndefined1 => (249, 0, 0)
  | SSystemRealTimeUndefined2 => (253, 0, 0)
  end%N.
Definition spec_11 (m : structured) : list Z := enc_bytes (struct_layout m) ++ [1; 1; 1].

(** tag 12: U7 -> TimeCodeQuarterFrame -> U7 *)
Definition model_12 (a : N) : list Z :=
  match tcqf_of_u7 a with
  | Ok f => enc_tcqf f ++ [zN (u7_of_tcqf f)]
  | Panic => [ZPANIC]
  end.
Definition spec_12 (a : N) : list Z :=
  (if N.ltb (a / 16) 7 then [zN (a / 16); zN (a mod 16); 0]
   else [7; zN (a mod 2); zN ((a / 2) mod 4)]) ++ [zN (canon_qf a)].

(** tag 13: u8 -> ShortMessageType -> u8 *)
Definition model_13 (b : N) : list Z :=
  match smt_of_code b with Some t => [1; zN (smt_code t)] | None => [0; ZNONE] end.
Definition spec_13 (b : N) : list Z :=
  if (N.leb 240 b && N.ltb b 256) || (N.leb 128 b && N.ltb b 240 && N.eqb (b mod 16) 0)
  then [1; zN b] else [0; ZNONE].

(** tag 30: build as kind k1, convert to kind k2 (conv 0: to_other, 1: from_other,
    2: to_structured); observe accessors and bytes of both *)
Definition model_30 (k1 k2 : Z) (b : bytes) : list Z :=
  match kind_bytes k1 b with
  | Ok b1 =>
      match kind_bytes k2 b1 with
      | Ok b2 => acc_obs_kind k1 b ++ enc_bytes b1 ++ acc_obs_kind k2 b1 ++ enc_bytes b2
      | Panic => [ZPANIC]
      end
  | Panic => [ZPANIC]
  end.
Definition spec_30 (k1 k2 : Z) (b : bytes) : list Z :=
  let b1 := if Z.eqb k1 1 then canon b else b in
  let b2 := if Z.eqb k2 1 then canon b1 else b1 in
  acc_spec b ++ enc_bytes b1 ++ acc_spec b ++ enc_bytes b2.

(** tag 60: named constructors for implementation k; bytes and accessors *)
Definition model_60 (k : Z) (idx x y z : N) : list Z :=
  let r := if N.eqb idx 8 then ctor_tcqf (kind_bytes k) x else ctor (kind_bytes k) idx x y z in
  match r with
  | Ok b => enc_bytes b ++ acc_obs_kind k b
  | Panic => [ZPANIC]
  end.
Definition spec_60 (k : Z) (idx x y z : N) : list Z :=
  let l := ctor_layout idx x y z in
  let b := if Z.eqb k 1 then canon l else l in
  enc_bytes b ++ acc_spec l.

(** tag 61: generic constructors (which 0: channel, 1: system common, 2: system real time) *)
Definition model_61 (k which : Z) (code ch a c : N) : list Z :=
  match smt_of_code code with
  | None => bad_record.(v_model)
  | Some t =>
      let r := if Z.eqb which 0 then channel_message (kind_bytes k) t ch a c
               else if Z.eqb which 1 then system_common_message (kind_bytes k) t a c
               else system_real_time_message (kind_bytes k) t in
      match r with Ok b => enc_bytes b | Panic => [ZPANIC] end
  end.
Definition spec_61 (k which : Z) (code ch a c : N) : list Z :=
  let cat_ok :=
    if Z.eqb which 0 then N.ltb code 240
    else if Z.eqb which 1 then N.leb 241 code && N.leb code 247
    else N.leb 248 code in
  if cat_ok then
    let l := if Z.eqb which 0 then ((code + ch)%N, a, c) else if Z.eqb which 1 then (code, a, c)
             else (code, 0%N, 0%N) in
    enc_bytes (if Z.eqb k 1 then canon l else l)
  else [ZPANIC].

(** tag 62: test_util shorthands with primitive (possibly out-of-range) arguments;
    idx 100 = short(status, d1, d2) *)
Definition model_62 (idx x y z : N) : list Z :=
  match (if N.eqb idx 100 then tu_short x y z else tu_ctor idx x y z) with
  | Ok b => enc_bytes b
  | Panic => [ZPANIC]
  end.
Definition spec_62 (idx x y z : N) : list Z :=
  if N.eqb idx 100 then
    if N.leb 128 x && N.ltb x 256 && N.ltb y 128 && N.ltb z 128 then enc_bytes (x, y, z) else [ZPANIC]
  else
    let '(mx, my, mz) := ctor_arg_max idx in
    let n := ctor_arity idx in
    if (Nat.ltb 0 n && N.ltb mx x) || (Nat.ltb 1 n && N.ltb my y) || (Nat.ltb 2 n && N.ltb mz z)
    then [ZPANIC]
    else enc_bytes (ctor_layout idx (if Nat.ltb 0 n then x else 0) (if Nat.ltb 1 n then y else 0)
                                 (if Nat.ltb 2 n then z else 0))%N.

(** * C07 / C08 *)
Definition outs_or_panic {S A} (r : outcome (S * list A)) (enc : A -> list Z) : list Z :=
  match r with
  | Ok (_, outs) => flat_map enc outs
  | Panic => [ZPANIC]
  end.

(** tag 70: ControlChange14BitMessage::new(ch, cn, v), getters, encodings into
    RawShortMessage and StructuredShortMessage *)
Definition model_70 (ch cn v : N) : list Z :=
  match cc14_new ch cn v with
  | Panic => [ZPANIC]
  | Ok m =>
      match cc14_lsb_cn m, cc14_to_short_messages raw_fbu m,
            cc14_to_short_messages struct_fbu m with
      | Ok l, Ok (r1, r2), Ok (s1, s2) =>
          [zN (cc_channel m); zN (cc_msb_cn m); zN l; zN (cc_value m)]
            ++ enc_bytes r1 ++ enc_bytes r2
            ++ enc_bytes (struct_tb s1) ++ enc_bytes (struct_tb s2)
      | _, _, _ => [ZPANIC]
      end
  end.

Definition spec_70 (ch cn v : N) : list Z :=
  if N.leb 32 cn then [ZPANIC]
  else
    let e := flat_map enc_bytes (cc14_encode_spec ch cn v) in
    [zN ch; zN cn; zN (cn + 32); zN v] ++ e ++ e.

(** tag 71: after an arbitrary prior history, feed the two messages of the encoding *)
Definition model_71 (ch cn v : N) (k : Z) (prior : list cc14op) : list Z :=
  match cc14_new ch cn v with
  | Panic => [ZPANIC]
  | Ok m =>
      match cc14_to_short_messages raw_fbu m with
      | Ok (r1, r2) =>
          match cc14_run cc14_new_scanner prior with
          | Ok (s, _) =>
              outs_or_panic
                (cc14_run s [CFeed (op_bytes k (zN (fst (fst r1))) (zN (snd (fst r1))) (zN (snd r1)));
                             CFeed (op_bytes k (zN (fst (fst r2))) (zN (snd (fst r2))) (zN (snd r2)))])
                enc_cc14
          | Panic => [ZPANIC]
          end
      | Panic => [ZPANIC]
      end
  end.

Definition spec_71 (ch cn v : N) : list Z :=
  enc_cc14 None ++ enc_cc14 (Some (mkCC14 ch cn v)).

(** tag 80: a history of feeds and resets from a new scanner *)
Definition model_80 (h : list cc14op) : list Z :=
  outs_or_panic (cc14_run cc14_new_scanner h) enc_cc14.
Definition spec_80 (h : list cc14op) : list Z :=
  flat_map enc_cc14 (cc14_spec_outs h).

(** * C09 / C10 / C11 *)
Definition zdt (d : datatype) : Z :=
  match d with DataEntry => 0 | DataIncrement => 1 | DataDecrement => 2 end.

Definition enc_pn (o : option pnmsg) : list Z :=
  match o with
  | None => [ZNONE; ZNONE; ZNONE; ZNONE; ZNONE; ZNONE]
  | Some m => [zN (pn_channel m); zN (pn_number m); zN (pn_value m); zb (pn_is_registered m);
               zb (pn_is_14_bit m); zdt (pn_data_type m)]
  end.

Definition enc_slot (o : option bytes) : list Z :=
  match o with None => [ZNONE; ZNONE; ZNONE] | Some b => enc_bytes b end.

Fixpoint dec_pnops (l : list Z) : list pnop :=
  match l with
  | k :: a :: b :: c :: t =>
      (if Z.eqb k 2 || Z.eqb k 8 then NReset
       else if Z.eqb k 10 then NFeed (248, 0, 0)%N   (* real time passes: like a timing clock *)
       else NFeed (op_bytes k a b c)) :: dec_pnops t
  | _ => []
  end.

(** the eight public constructors, numbered as in the harness *)
Definition pn_ctor (k : Z) (ch num v : N) : pnmsg :=
  match k with
  | 0 => non_registered_7_bit ch num v
  | 1 => non_registered_14_bit ch num v
  | 2 => non_registered_decrement ch num v
  | 3 => non_registered_increment ch num v
  | 4 => registered_7_bit ch num v
  | 5 => registered_14_bit ch num v
  | 6 => registered_decrement ch num v
  | _ => registered_increment ch num v
  end.

(** what the constructor numbered [k] is documented to build (independent of [pn_ctor]) *)
Definition pn_ctor_spec (k : Z) (ch num v : N) : pnmsg :=
  mkPN ch num v (Z.leb 4 k) (Z.eqb k 1 || Z.eqb k 5)
       (if Z.eqb k 2 || Z.eqb k 6 then DataDecrement
        else if Z.eqb k 3 || Z.eqb k 7 then DataIncrement else DataEntry).

Definition dec_order (z : Z) : byteorder := if Z.eqb z 0 then MsbFirst else LsbFirst.

(** tag 90: constructor, getters, encoding into both implementations, array conversion *)
Definition model_90 (k : Z) (ch num v : N) (order : Z) : list Z :=
  let m := pn_ctor k ch num v in
  match pn_to_short_messages raw_fbu m (dec_order order),
        pn_to_short_messages struct_fbu m (dec_order order),
        pn_to_short_messages raw_fbu m MsbFirst with
  | Ok r, Ok s, Ok a =>
      enc_pn (Some m) ++ flat_map enc_slot r ++ flat_map enc_slot (map (option_map struct_tb) s)
        ++ flat_map enc_slot a
  | _, _, _ => [ZPANIC]
  end.

Definition spec_90 (k : Z) (ch num v : N) (order : Z) : list Z :=
  let m := pn_ctor_spec k ch num v in
  let e := flat_map enc_slot (pn_encode_spec m (Z.eqb order 0)) in
  enc_pn (Some m) ++ e ++ e ++ flat_map enc_slot (pn_encode_spec m true).

Definition slots_to_ops (k : Z) (l : list (option bytes)) : list pnop :=
  flat_map (fun o => match o with
                     | Some b => [NFeed (op_bytes k (zN (fst (fst b))) (zN (snd (fst b))) (zN (snd b)))]
                     | None => []
                     end) l.

(** tag 100: encoding fed after an arbitrary prior history *)
Definition model_100 (k : Z) (ch num v : N) (order kind : Z) (prior : list pnop) : list Z :=
  let m := pn_ctor k ch num v in
  match pn_to_short_message_bytes m (dec_order order), pn_run pn_new_scanner prior with
  | Ok l, Ok (s, _) => outs_or_panic (pn_run s (slots_to_ops kind l)) enc_pn
  | _, _ => [ZPANIC]
  end.

Definition spec_100 (k : Z) (ch num v : N) : list Z :=
  let m := pn_ctor_spec k ch num v in
  if pn_is_14_bit m then enc_pn None ++ enc_pn None ++ enc_pn None ++ enc_pn (Some m)
  else enc_pn None ++ enc_pn None ++ enc_pn (Some m).

(** tag 101: running forms after one selection *)
Fixpoint take_ops (n : nat) (l : list Z) : list Z * list Z :=
  match n with
  | O => ([], l)
  | S n' =>
      match l with
      | k :: a :: b :: c :: t => let '(x, y) := take_ops n' t in (k :: a :: b :: c :: x, y)
      | _ => ([], [])
      end
  end.

Fixpoint pairs_of (l : list Z) : list (N * N) :=
  match l with
  | a :: b :: t => (nz a, nz b) :: pairs_of t
  | _ => []
  end.

Definition running_ops (kind : Z) (ch : N) (reg : bool) (num n : N) (vs : list Z) : list pnop :=
  let f := fun c v => NFeed (op_bytes kind (zN (176 + ch)%N) (zN c) (zN v)) in
  [f (if reg then 101 else 99)%N (num / 128)%N; f (if reg then 100 else 98)%N (num mod 128)%N]
    ++ (if N.eqb n 0%N then flat_map (fun p => [f 38%N (fst p); f 6%N (snd p)]) (pairs_of vs)
        else map (fun v => f n (nz v)) vs).

Definition model_101 (ch : N) (reg : bool) (num n : N) (kind : Z) (prior : list pnop)
  (vs : list Z) : list Z :=
  match pn_run pn_new_scanner prior with
  | Ok (s, _) => outs_or_panic (pn_run s (running_ops kind ch reg num n vs)) enc_pn
  | Panic => [ZPANIC]
  end.

Definition spec_101 (ch : N) (reg : bool) (num n : N) (vs : list Z) : list Z :=
  enc_pn None ++ enc_pn None ++
  (if N.eqb n 0%N then
     flat_map (fun p => enc_pn None ++
                        enc_pn (Some (mkPN ch num (128 * snd p + fst p)%N reg true DataEntry)))
              (pairs_of vs)
   else
     flat_map (fun v => enc_pn (Some (mkPN ch num (nz v) reg false
                                        (if N.eqb n 96%N then DataIncrement
                                         else if N.eqb n 97%N then DataDecrement else DataEntry))))
              vs).

(** tag 110: a history of feeds and resets from a new scanner *)
Definition model_110 (h : list pnop) : list Z := outs_or_panic (pn_run pn_new_scanner h) enc_pn.
Definition spec_110 (h : list pnop) : list Z := flat_map enc_pn (pn_spec_outs h).

(** timeouts: integers >= 2^61 stand for [Duration::MAX] (larger than any elapsed time) *)
(** timeouts beyond 64-bit nanoseconds are sentinels: 2^61+1 = Duration::from_secs(2^55),
    2^61+2 = 2^64+1 ns, any other value >= 2^61 = Duration::MAX *)
Definition dec_timeout (z : Z) : N :=
  if Z.eqb z 2305843009213693953 then 36028797018963968000000000%N
  else if Z.eqb z 2305843009213693954 then 18446744073709551617%N
  else if Z.leb 2305843009213693952 z then 18446744073709551616000000000%N else nz z.

(** * polling scanner: C13 / C14 *)
Fixpoint dec_sops (l : list Z) : list sop :=
  match l with
  | k :: a :: b :: c :: t =>
      (if Z.eqb k 2 || Z.eqb k 8 then OReset
       else if Z.eqb k 3 then OPoll (nz a)
       else if Z.eqb k 7 then OPoll (nz a)
       else if Z.eqb k 4 then OTick (nz a)
       else OFeed (op_bytes k a b c)) :: dec_sops t
  | _ => []
  end.

Definition enc_out2 (o : out2) : list Z := enc_pn (fst o) ++ enc_pn (snd o).

Definition dec_dt (z : Z) : datatype :=
  if Z.eqb z 1 then DataIncrement else if Z.eqb z 2 then DataDecrement else DataEntry.

Definition dec_pn6 (a b c d e f : Z) : option pnmsg :=
  if Z.ltb a 0 then None
  else Some (mkPN (nz a) (nz b) (nz c) (Z.eqb d 1) (Z.eqb e 1) (dec_dt f)).

Fixpoint dec_out2s (l : list Z) : list out2 :=
  match l with
  | a1 :: b1 :: c1 :: d1 :: e1 :: f1 :: a2 :: b2 :: c2 :: d2 :: e2 :: f2 :: t =>
      (dec_pn6 a1 b1 c1 d1 e1 f1, dec_pn6 a2 b2 c2 d2 e2 f2) :: dec_out2s t
  | _ => []
  end.

Definition poll_outs (timeout : N) (h : list sop) : outcome (list out2) :=
  match poll_run 0 (poll_new_scanner timeout) h with
  | Ok (_, _, outs) => Ok outs
  | Panic => Panic
  end.

Definition enc_outs (r : outcome (list out2)) : list Z :=
  match r with Ok outs => flat_map enc_out2 outs | Panic => [ZPANIC] end.

(** tag 140: a history of feeds, polls, resets and clock ticks from a new scanner; the
    property decider is the C14 trace monitor run on the implementation's outputs *)
Definition check_140 (timeout : N) (h : list sop) (obs : list Z) : verdict :=
  let model := enc_outs (poll_outs timeout h) in
  mkV (listZ_eqb obs model)
      (Nat.eqb (length obs) (12 * length h) && check_C14 timeout h (dec_out2s obs))
      model.

(** tag 130: only the results of poll operations are observed *)
Fixpoint only_polls (h : list sop) (outs : list out2) : list Z :=
  match h, outs with
  | OPoll _ :: h', o :: outs' => enc_out2 o ++ only_polls h' outs'
  | _ :: h', _ :: outs' => only_polls h' outs'
  | _, _ => []
  end.

Definition check_130 (timeout : N) (h : list sop) (obs : list Z) : verdict :=
  match poll_outs timeout h with
  | Ok outs =>
      let model := only_polls h outs in
      let seen := only_polls h (dec_out2s obs) in
      let ok := Nat.eqb (length obs) (12 * length h) && listZ_eqb seen model in
      mkV ok ok model
  | Panic => mkV false false [ZPANIC]
  end.

(** tag 131: the same feeds run under two different clocks (no polls): feed results must not
    depend on the passage of time.  obs = results of run A ++ results of run B. *)
Definition check_131 (timeout : N) (ha hb : list sop) (obs : list Z) : verdict :=
  let model := enc_outs (poll_outs timeout ha) ++ enc_outs (poll_outs timeout hb) in
  let na := (12 * length ha)%nat in
  let oa := firstn na obs in
  let ob := skipn na obs in
  let strip := fun (h : list sop) (l : list Z) =>
                 flat_map (fun p => match fst p with OTick _ => [] | _ => enc_out2 (snd p) end)
                          (combine h (dec_out2s l)) in
  mkV (listZ_eqb obs model)
      (Nat.eqb (length obs) (12 * (length ha + length hb)) &&
       listZ_eqb (strip ha oa) (strip hb ob))
      model.

(** tag 132: run A contains polls of kind 7 that come before the timeout of any pending value
    byte of their channel; run B is run A without them.  They must return nothing and must not
    change any other result. *)
Fixpoint early_ok (timeout now : N) (last : list (option N)) (l : list Z) : bool :=
  match l with
  | k :: a :: b :: c :: t =>
      if Z.eqb k 4 then early_ok timeout (now + nz a) last t
      else if Z.eqb k 7 then
        match nth_error last (Z.to_nat a) with
        | Some (Some t0) => N.ltb (now - t0) timeout && early_ok timeout now last t
        | Some None => early_ok timeout now last t
        | None => false
        end
      else if Z.eqb k 2 then early_ok timeout now (map (fun _ => None) last) t
      else if Z.eqb k 3 then early_ok timeout now last t
      else
        (* a feed: remember the time of controller 6 / 38 bytes per channel *)
        let s := nz a in
        if N.eqb (s / 16) 11 && (N.eqb (nz b) 6 || N.eqb (nz b) 38)
        then early_ok timeout now (upd last (N.to_nat (s mod 16)) (Some now)) t
        else early_ok timeout now last t
  | _ => true
  end.

Fixpoint drop_kind7 (l : list Z) : list Z :=
  match l with
  | k :: a :: b :: c :: t => if Z.eqb k 7 then drop_kind7 t else k :: a :: b :: c :: drop_kind7 t
  | _ => []
  end.

Fixpoint split_kind7 (l : list Z) (outs : list out2) : list Z * list Z :=
  match l, outs with
  | k :: a :: b :: c :: t, o :: outs' =>
      let '(x, y) := split_kind7 t outs' in
      if Z.eqb k 7 then (enc_out2 o ++ x, y) else (x, enc_out2 o ++ y)
  | _, _ => ([], [])
  end.

Definition check_132 (timeout : N) (l : list Z) (obs : list Z) : verdict :=
  let ha := dec_sops l in
  let hb := dec_sops (drop_kind7 l) in
  let model := enc_outs (poll_outs timeout ha) ++ enc_outs (poll_outs timeout hb) in
  let na := (12 * length ha)%nat in
  let '(early_results, others_a) := split_kind7 l (dec_out2s (firstn na obs)) in
  let others_b := flat_map enc_out2 (dec_out2s (skipn na obs)) in
  if negb (early_ok timeout 0 (repeat None 16) l) then bad_record
  else
    mkV (listZ_eqb obs model)
        (Nat.eqb (length obs) (12 * (length ha + length hb)) &&
         forallb (fun z => Z.eqb z ZNONE) early_results &&
         listZ_eqb others_a others_b)
        model.

(** * C12: documented sequence forms (tag 120): [prior] arbitrary traffic, then a
    grammar-conforming stream; the decider is the grammar transducer of Spec/PollGrammar.v *)
Definition is_flush (o : out2) : bool :=
  match o with
  | (None, None) => true
  | (Some r, None) => negb (pn_is_14_bit r) && datatype_eqb (pn_data_type r) DataEntry
  | _ => false
  end.

Definition out2_eqb (a b : out2) : bool := listZ_eqb (enc_out2 a) (enc_out2 b).

Fixpoint grammar_ok (exp : list (out2 * bool)) (outs : list out2) : bool :=
  match exp, outs with
  | [], [] => true
  | (e, first) :: exp', o :: outs' =>
      (if first then out2_eqb o e || is_flush o else out2_eqb o e) && grammar_ok exp' outs'
  | _, _ => false
  end.

Definition check_120 (timeout : N) (prior sentence : list sop) (obs : list Z) : verdict :=
  match poll_run 0 (poll_new_scanner timeout) prior with
  | Ok (now, s, _) =>
      let model := match poll_run now s sentence with
                   | Ok (_, _, outs) => flat_map enc_out2 outs
                   | Panic => [ZPANIC]
                   end in
      match g_run timeout now gstates_init sentence with
      | Some exp =>
          mkV (listZ_eqb obs model)
              (Nat.eqb (length obs) (12 * length sentence) && grammar_ok exp (dec_out2s obs))
              model
      | None => bad_record   (* the generator produced a stream outside the documented forms *)
      end
  | Panic => bad_record
  end.

(** * scanner-level properties C15 / C16 / C17 (kind 0: 14-bit CC, 1: (N)RPN, 2: polling) *)
Definition width (kind : Z) : nat := if Z.eqb kind 0 then 3%nat else if Z.eqb kind 1 then 6%nat else 12%nat.

(** runs [ops] after the prefix [pre] from a new scanner; [fresh]: the prefix only advances the
    clock (a new scanner is used for [ops]) *)
Definition run_enc (kind : Z) (timeout : N) (fresh : bool) (pre ops : list Z) : list Z :=
  if Z.eqb kind 0 then
    match cc14_run cc14_new_scanner (dec_cc14ops pre) with
    | Ok (s, _) => outs_or_panic (cc14_run (if fresh then cc14_new_scanner else s) (dec_cc14ops ops)) enc_cc14
    | Panic => [ZPANIC]
    end
  else if Z.eqb kind 1 then
    match pn_run pn_new_scanner (dec_pnops pre) with
    | Ok (s, _) => outs_or_panic (pn_run (if fresh then pn_new_scanner else s) (dec_pnops ops)) enc_pn
    | Panic => [ZPANIC]
    end
  else
    match poll_run 0 (poll_new_scanner timeout) (dec_sops pre) with
    | Ok (now, s, _) =>
        match poll_run now (if fresh then poll_new_scanner timeout else s) (dec_sops ops) with
        | Ok (_, _, outs) => flat_map enc_out2 outs
        | Panic => [ZPANIC]
        end
    | Panic => [ZPANIC]
    end.

Fixpoint chunks (fuel : nat) (w : nat) (l : list Z) : list (list Z) :=
  match fuel with
  | O => []
  | S f => match l with [] => [] | _ => firstn w l :: chunks f w (skipn w l) end
  end.

Fixpoint filter_ops_z (c : N) (ops : list Z) : list Z :=
  match ops with
  | k :: a :: b :: x :: t =>
      let o := match dec_sops [k; a; b; x] with o :: _ => o | [] => OReset end in
      if relevant c o then k :: a :: b :: x :: filter_ops_z c t else filter_ops_z c t
  | _ => []
  end.

(** channel the operation concerns (None: resets, ticks and system messages) *)
Definition op_channel (o : sop) : option N :=
  match o with
  | OFeed b => channel_table (fst (fst b))
  | OPoll c => Some c
  | _ => None
  end.

(** every message of a result chunk carries channel [c] (message channel = first integer of each
    message; cc14: 3 integers per message, otherwise 6) *)
Fixpoint chunk_channels_ok (fuel : nat) (mw : nat) (c : Z) (l : list Z) : bool :=
  match fuel with
  | O => true
  | S f =>
      match l with
      | [] => true
      | x :: _ => (Z.eqb x ZNONE || Z.eqb x c) && chunk_channels_ok f mw c (skipn mw l)
      end
  end.

Definition chunk_ok (kind : Z) (o : sop) (ch : list Z) : bool :=
  match op_channel o with
  | Some c => chunk_channels_ok 4 (if Z.eqb kind 0 then 3 else 6)%nat (zN c) ch
  | None => forallb (fun z => Z.eqb z ZNONE) ch
  end.

Fixpoint all_chunks_ok (kind : Z) (h : list sop) (cs : list (list Z)) : bool :=
  match h, cs with
  | o :: h', c :: cs' => chunk_ok kind o c && all_chunks_ok kind h' cs'
  | [], [] => true
  | _, _ => false
  end.

(** a further observation that is 1 whenever the call did not panic *)
Definition with_flag (l : list Z) : list Z := match l with [_] => l | _ => l ++ [1] end.

(** scanner kinds 10..12 are the scanners of kinds 0..2 created through [Default::default()]:
    by the documentation a default scanner is a new one (the polling scanner with timeout zero) *)
Definition ctor_kind (kind : Z) : Z := if Z.leb 10 kind then kind - 10 else kind.
Definition ctor_timeout (kind timeout : Z) : N := if Z.leb 10 kind then 0%N else dec_timeout timeout.

(** tag 150: interleaved run, then one own-scanner run per listed channel *)
Definition check_150 (kind : Z) (timeout : N) (chans : list N) (ops obs : list Z) : verdict :=
  let h := dec_sops ops in
  let w := width kind in
  let model :=
    run_enc kind timeout false [] ops ++
    flat_map (fun c => run_enc kind timeout false [] (filter_ops_z c ops)) chans in
  let n := length h in
  let multi := chunks (S n) w (firstn (n * w) obs) in
  let rest := skipn (n * w) obs in
  let fix segs (cs : list N) (l : list Z) : bool :=
      match cs with
      | [] => match l with [] => true | _ => false end
      | c :: cs' =>
          let k := length (filter (relevant c) h) in
          listZ_eqb (concat (outs_on (list Z) c h multi)) (firstn (k * w) l)
          && Nat.eqb (length (firstn (k * w) l)) (k * w)
          && segs cs' (skipn (k * w) l)
      end in
  mkV (listZ_eqb obs model)
      (Nat.eqb (length multi) n && all_chunks_ok kind h multi && segs chans rest)
      model.

(** tag 160: a non-contributing message after a prior history: reports nothing, state equal *)
Definition check_160 (kind : Z) (timeout : N) (prior msg obs : list Z) : verdict :=
  let nc := match dec_sops msg with
            | [OFeed b] => if Z.eqb kind 0 then noncontrib_cc14 b else noncontrib_pn b
            | _ => false
            end in
  if negb nc then bad_record
  else
    (* the model reports nothing for the message, and continues identically with or without it *)
    let out := run_enc kind timeout false prior msg in
    let m_none := forallb (fun z => Z.eqb z ZNONE) out in
    (* third observation: the rest of the stream is reported identically with and without the
       message (in the model this follows from the equality of the states) *)
    let model := [zb m_none; 1; 1] in
    verdict_of obs model [1; 1; 1].

(** tag 161: the ControllerNumber predicates, and whether each scanner reacts to the controller *)
Definition check_161 (n : N) (obs : list Z) : verdict :=
  let in_pn := existsb (N.eqb n) [6; 38; 96; 97; 98; 99; 100; 101]%N in
  let model := [zb (can_be_part_of_14_bit n); zopt (corresponding_lsb n);
                zb (is_parameter_number_cn n);
                zb (N.ltb n 64); zb in_pn; zb in_pn] in
  let spec := [zb (N.ltb n 64); (if N.ltb n 32 then zN (n + 32) else ZNONE); zb in_pn;
               zb (N.ltb n 64); zb in_pn; zb in_pn] in
  verdict_of obs model spec.

(** tag 162: the controller-number constants.  Input: index into the list of constant names;
    observation: the constant's value and the value of the constant it is the [_LSB] partner of
    (or -1), both as computed by the implementation. *)
Definition check_162 (idx : nat) (obs : list Z) : verdict :=
  match nth_error ctrl_const_names idx with
  | Some name =>
      let has_base := ends_with lsb_suffix name &&
                      existsb (String.eqb (strip_suffix lsb_suffix name)) ctrl_const_names in
      let model :=
        match lookup name ctrl_consts with
        | Some v =>
            [zN v;
             if has_base then
               match lookup (strip_suffix lsb_suffix name) ctrl_consts with
               | Some b => zN b
               | None => nth 1 obs ZNONE        (* base not a literal in the source *)
               end
             else ZNONE]
        | None => obs                           (* not a literal in the source: no model value *)
        end in
      let holds :=
        match obs with
        | [v; b] =>
            Z.leb 0 v && Z.leb v 127 &&
            (if has_base then Z.leb 0 b && Z.eqb v (b + 32) else Z.eqb b ZNONE)
        | _ => false
        end in
      mkV (listZ_eqb obs model) holds model
  | None => bad_record
  end.

(** tag 170: reset / default / copy *)
Definition check_170 (kind : Z) (timeout : N) (ops1 ops2 obs : list Z) : verdict :=
  let after_reset := run_enc kind timeout true ops1 ops2 in
  let cont := run_enc kind timeout false ops1 ops2 in
  let model := [1; 1; 1] ++ after_reset ++ after_reset ++ cont ++ cont in
  let n := (length (dec_sops ops2) * width kind)%nat in
  let body := skipn 3 obs in
  let a := firstn n body in
  let b := firstn n (skipn n body) in
  let c := firstn n (skipn (2 * n) body) in
  let d := skipn (3 * n) body in
  mkV (listZ_eqb obs model)
      (listZ_eqb (firstn 3 obs) [1; 1; 1] && Nat.eqb (length obs) (3 + 4 * n) &&
       listZ_eqb a b && listZ_eqb c d)
      model.

(** * C19: deserialization *)
(** JSON-like values as integers: 0 null | 1 b | 2 z | 3 n c1..cn (string) | 4 n v1..vn (array)
    | 5 n (k c1..ck value)... (object) *)
Fixpoint take_n {A} (n : nat) (l : list A) : list A * list A :=
  match n, l with
  | S n', x :: t => let '(a, b) := take_n n' t in (x :: a, b)
  | _, _ => ([], l)
  end.

Fixpoint dec_json (fuel : nat) (l : list Z) : option (jval * list Z) :=
  match fuel with
  | O => None
  | S f =>
      match l with
      | 0 :: t => Some (JNull, t)
      | 1 :: b :: t => Some (JBool (Z.eqb b 1), t)
      | 2 :: z :: t => Some (JInt z, t)
      | 3 :: n :: t => let '(cs, r) := take_n (Z.to_nat n) t in Some (JStr (map nz cs), r)
      | 4 :: n :: t =>
          match
            (fix elems (k : nat) (l : list Z) : option (list jval * list Z) :=
               match k with
               | O => Some ([], l)
               | S k' =>
                   match dec_json f l with
                   | Some (v, r) =>
                       match elems k' r with Some (vs, r') => Some (v :: vs, r') | None => None end
                   | None => None
                   end
               end) (Z.to_nat n) t
          with
          | Some (vs, r) => Some (JArr vs, r)
          | None => None
          end
      | 5 :: n :: t =>
          match
            (fix entries (k : nat) (l : list Z) : option (list (list N * jval) * list Z) :=
               match k with
               | O => Some ([], l)
               | S k' =>
                   match l with
                   | kl :: t0 =>
                       let '(cs, r0) := take_n (Z.to_nat kl) t0 in
                       match dec_json f r0 with
                       | Some (v, r) =>
                           match entries k' r with
                           | Some (es, r') => Some ((map nz cs, v) :: es, r')
                           | None => None
                           end
                       | None => None
                       end
                   | [] => None
                   end
               end) (Z.to_nat n) t
          with
          | Some (es, r) => Some (JObj es, r)
          | None => None
          end
      | _ => None
      end
  end.

Fixpoint enc_json (v : jval) : list Z :=
  match v with
  | JNull => [0]
  | JBool b => [1; zb b]
  | JInt z => [2; z]
  | JStr s => 3 :: Z.of_nat (length s) :: map zN s
  | JArr l => 4 :: Z.of_nat (length l) :: flat_map enc_json l
  | JObj l =>
      5 :: Z.of_nat (length l) ::
        flat_map (fun p => Z.of_nat (length (fst p)) :: map zN (fst p) ++ enc_json (snd p)) l
  end.

(** objects are compared up to the order of their entries (serde_json keeps them sorted by key) *)
Fixpoint codes_ltb (a b : list N) : bool :=
  match a, b with
  | [], [] => false
  | [], _ => true
  | _, [] => false
  | x :: a', y :: b' => N.ltb x y || (N.eqb x y && codes_ltb a' b')
  end.

Fixpoint insert_entry (e : list N * jval) (l : list (list N * jval)) : list (list N * jval) :=
  match l with
  | [] => [e]
  | h :: t => if codes_ltb (fst e) (fst h) then e :: l else h :: insert_entry e t
  end.

Fixpoint canon_json (v : jval) : jval :=
  match v with
  | JArr l => JArr (map canon_json l)
  | JObj l => JObj (fold_right (fun p acc => insert_entry (fst p, canon_json (snd p)) acc) [] l)
  | x => x
  end.

Fixpoint shape_of (name : String.string) (l : list (String.string * String.string)) : String.string :=
  match l with
  | [] => String.EmptyString
  | (n, s) :: t => if String.eqb n name then s else shape_of name t
  end.

Definition nt_de (tidx : nat) (v : jval) : option N :=
  match nt_at tidx with
  | Some (_, r, m) =>
      de_nt (shape_of nt_shape_name serde_shapes)
            (match prim_range r with Some (_, hi) => hi | None => -1 end) m v
  | None => None
  end.

(** positions of the six types in the regenerated table *)
Definition nt_index (name : String.string) : nat :=
  (fix go (l : list (String.string * String.string * N)) (i : nat) : nat :=
     match l with
     | [] => i
     | (n, _, _) :: t => if String.eqb n name then i else go t (S i)
     end) newtype_defs O.

Definition D_u4 := nt_de (nt_index name_U4).
Definition D_u7 := nt_de (nt_index name_U7).
Definition D_u14 := nt_de (nt_index name_U14).
Definition D_channel := nt_de (nt_index name_Channel).
Definition D_key := nt_de (nt_index name_KeyNumber).
Definition D_cn := nt_de (nt_index name_ControllerNumber).

Definition shape_raw := shape_of name_RawShortMessage serde_shapes.
Definition shape_cc14 := shape_of name_ControlChange14BitMessage serde_shapes.
Definition shape_pn := shape_of name_ParameterNumberMessage serde_shapes.
Definition shape_smt := shape_of name_ShortMessageType serde_shapes.

Definition zopt_list {A} (f : A -> list Z) (o : option A) : list Z :=
  match o with Some a => 1 :: f a | None => [0] end.

(** what the harness observes after a successful deserialization: the value's fields and the
    results of the accessors that may panic on an invalid value *)
Definition obs_raw (b : bytes) : list Z :=
  enc_bytes b ++ [match g_type bytes raw_sb b with Ok t => zN (smt_code t) | Panic => ZPANIC end].
Definition obs_cc14 (m : cc14msg) : list Z :=
  [zN (cc_channel m); zN (cc_msb_cn m); zN (cc_value m);
   match cc14_lsb_cn m with Ok l => zN l | Panic => ZPANIC end].
Definition obs_pn (m : pnmsg) : list Z :=
  enc_pn (Some m) ++
  match pn_to_short_messages raw_fbu m MsbFirst with
  | Ok l => flat_map enc_slot l
  | Panic => [ZPANIC]
  end.

Definition model_190 (tidx : Z) (v : jval) : list Z :=
  if Z.ltb tidx 6 then zopt_list (fun n => [zN n]) (nt_de (Z.to_nat tidx) v)
  else match tidx with
  | 10 => zopt_list (fun t => [zN (smt_code t)]) (de_smt shape_smt v)
  | 11 => zopt_list (fun t => [zN (tct_code t)]) (de_tct v)
  | 12 => zopt_list (fun d => [zdt d]) (de_datatype v)
  | 13 => zopt_list enc_tcqf (de_tcqf D_u4 v)
  | 14 => zopt_list enc_struct (de_structured D_u4 D_u7 D_u14 D_channel D_key D_cn v)
  | 15 => zopt_list obs_raw (de_raw D_u7 shape_raw v)
  | 16 => zopt_list obs_cc14 (de_cc14 D_u14 D_channel D_cn shape_cc14 v)
  | _ => zopt_list obs_pn (de_pn D_u14 D_channel shape_pn v)
  end.

(** C19 decider on the implementation's observation: a deserialized value is one the checked
    public constructors could have built *)
Definition all_in (l : list Z) (lo hi : Z) : bool := forallb (fun z => Z.leb lo z && Z.leb z hi) l.

Definition holds_190 (tidx : Z) (obs : list Z) : bool :=
  match obs with
  | [0] => true
  | 1 :: f =>
      negb (existsb (Z.eqb ZPANIC) f) &&
      (if Z.ltb tidx 6 then
         match nt_at (Z.to_nat tidx), f with
         | Some (_, _, m), [v] => Z.leb 0 v && Z.leb v (zN m)
         | _, _ => false
         end
       else match tidx, f with
       | 10, [c] => match smt_of_code (nz c) with Some _ => Z.leb 0 c | None => false end
       | 11, [c] => Z.leb 0 c && Z.leb c 3
       | 12, [d] => Z.leb 0 d && Z.leb d 2
       | 13, [i; x; y] => if Z.ltb i 7 then Z.leb 0 i && all_in [x] 0 15 else all_in [x] 0 1 && all_in [y] 0 3
       | 14, [v; x; y; z] => struct_wf (dec_struct v x y z) && Z.leb 0 v && Z.leb v 22
       | 15, [s0; a; b; _] => Z.leb 128 s0 && Z.leb s0 255 && all_in [a; b] 0 127
       | 16, [c; n; x; _] => all_in [c] 0 15 && all_in [n] 0 31 && all_in [x] 0 16383
       | 17, c :: n :: x :: r :: w :: d :: slots =>
           all_in [c] 0 15 && all_in [n; x] 0 16383 &&
           (if Z.eqb w 1 then Z.eqb d 0 else Z.leb x 127) &&
           (* every emitted data byte is a valid 7-bit value *)
           all_in slots (-1) 255 &&
           (fix ok (l : list Z) : bool :=
              match l with
              | s0 :: a :: b :: t => (Z.eqb s0 ZNONE || (Z.leb a 127 && Z.leb b 127)) && ok t
              | _ => true
              end) slots
       | _, _ => false
       end)
  | _ => false
  end.

(** tag 191: the natural representation of a valid value deserializes to an equal value *)
Definition model_191 (tidx : Z) (f : list Z) : list Z :=
  let fin := fun {A} (x : A) (ser : A -> jval) (de : jval -> option A) (eq : A -> A -> bool) =>
               enc_json (canon_json (ser x)) ++ [match de (ser x) with Some y => zb (eq x y) | None => 0 end] in
  match tidx, f with
  | 13, [i; x; y] =>
      let v := dec_tcqf i x y in
      fin v ser_tcqf (de_tcqf D_u4) (fun a b => listZ_eqb (enc_tcqf a) (enc_tcqf b))
  | 14, [v; x; y; z] =>
      let m := dec_struct v x y z in
      fin m ser_structured (de_structured D_u4 D_u7 D_u14 D_channel D_key D_cn)
          (fun a b => listZ_eqb (enc_struct a) (enc_struct b))
  | 15, [s0; a; b] =>
      fin (nz s0, nz a, nz b) ser_raw (de_raw D_u7 shape_raw)
          (fun a b => listZ_eqb (enc_bytes a) (enc_bytes b))
  | 16, [c; n; x] =>
      fin (mkCC14 (nz c) (nz n) (nz x)) ser_cc14 (de_cc14 D_u14 D_channel D_cn shape_cc14)
          (fun a b => listZ_eqb (obs_cc14 a) (obs_cc14 b))
  | 17, [c; n; x; r; w; d] =>
      fin (mkPN (nz c) (nz n) (nz x) (Z.eqb r 1) (Z.eqb w 1) (dec_dt d)) ser_pn
          (de_pn D_u14 D_channel shape_pn) (fun a b => listZ_eqb (enc_pn (Some a)) (enc_pn (Some b)))
  | _, [x] =>
      if Z.ltb tidx 6 then fin (nz x) jn (nt_de (Z.to_nat tidx)) N.eqb else [-99]
  | _, _ => [-99]
  end.

Definition check (tag : Z) (inp obs : list Z) : verdict :=
  match tag, inp with
  | 10, [k; s0; a; c] => verdict_of obs (model_10 k (nz s0, nz a, nz c)) (spec_10 k (nz s0, nz a, nz c))
  | 11, [v; x; y; z] => verdict_of obs (model_11 (dec_struct v x y z)) (spec_11 (dec_struct v x y z))
  | 12, [a] => verdict_of obs (model_12 (nz a)) (spec_12 (nz a))
  | 13, [b] => verdict_of obs (model_13 (nz b)) (spec_13 (nz b))
  | 15, [_] =>
      (* a message type that implements Default (the crate's do not) yields a valid message *)
      verdict_of obs [1; 1] [1; 1]
  | 14, [k; s0; a; c] =>
      (* every conversion path to the structured form and back to raw: all yield the canonical
         bytes; the structured value is a fixed point of every conversion *)
      let cb := enc_bytes (canon (nz s0, nz a, nz c)) in
      verdict_of obs (cb ++ cb ++ cb ++ cb ++ cb ++ [1]) (cb ++ cb ++ cb ++ cb ++ cb ++ [1])
  | 20, [k; s0; a; c] =>
      (* the accessor list in method syntax on the concrete type, then a flag: the same list
         through a generic parameter (always the trait's methods) is identical *)
      verdict_of obs (acc_obs_kind k (nz s0, nz a, nz c) ++ [1]) (acc_spec (nz s0, nz a, nz c) ++ [1])
  | 30, [k1; k2; conv; s0; a; c] =>
      (* C03 is about the implementations agreeing with *each other*: the two accessor lists
         must be equal and the bytes may differ only by canonicalisation *)
      let b := (nz s0, nz a, nz c) in
      let model := model_30 k1 k2 b in
      let acc1 := firstn 20 obs in
      let by1 := firstn 3 (skipn 20 obs) in
      let acc2 := firstn 20 (skipn 23 obs) in
      let by2 := skipn 43 obs in
      let b1 := if Z.eqb k1 1 then canon b else b in
      let b2 := if Z.eqb k2 1 then canon b1 else b1 in
      mkV (listZ_eqb obs model)
          (Nat.eqb (length obs) 46 && negb (existsb (Z.eqb ZPANIC) obs) && listZ_eqb acc1 acc2 &&
           listZ_eqb by1 (enc_bytes b1) && listZ_eqb by2 (enc_bytes b2))
          model
  | 40, [cfg; kind; s; d; neg; l3; l2; l1; l0] =>
      check_conv false kind (Z.to_nat s) (Z.to_nat d) (dec_big neg l3 l2 l1 l0) obs
  | 50, [cfg; kind; s; d; neg; l3; l2; l1; l0] =>
      check_conv true kind (Z.to_nat s) (Z.to_nat d) (dec_big neg l3 l2 l1 l0) obs
  | 41, [cfg; tidx; v] => check_new cfg (Z.to_nat tidx) (nz v) obs
  | 42, tidx :: chars => check_parse (Z.to_nat tidx) (map nz chars) obs
  | 43, [tidx] => check_consts (Z.to_nat tidx) obs
  | 51, [tidx; v] => check_show (Z.to_nat tidx) (nz v) obs
  | 52, [tidx; a; b] => check_ord (nz a) (nz b) obs
  | 60, [k; idx; x; y; z] =>
      (* C06: bytes and the accessors naming type, channel and fields; the super type
         (position 4 of the observation) belongs to C02 *)
      let mask := fun l : list Z => firstn 4 l ++ [0] ++ skipn 5 l in
      let model := model_60 k (nz idx) (nz x) (nz y) (nz z) in
      mkV (listZ_eqb obs model)
          (listZ_eqb (mask obs) (mask (spec_60 k (nz idx) (nz x) (nz y) (nz z))))
          model
  | 61, [k; which; code; ch; a; c] =>
      verdict_of obs (model_61 k which (nz code) (nz ch) (nz a) (nz c))
        (spec_61 k which (nz code) (nz ch) (nz a) (nz c))
  | 62, [idx; x; y; z] =>
      verdict_of obs (model_62 (nz idx) (nz x) (nz y) (nz z)) (spec_62 (nz idx) (nz x) (nz y) (nz z))
  | 63, [which; v] =>
      (* test_util scalar helpers: panic exactly for out-of-range arguments *)
      verdict_of obs (match tu_scalar (nz which) (nz v) with Ok x => [zN x] | Panic => [ZPANIC] end)
        (if N.leb (nz v) (tu_scalar_max (nz which)) then [v] else [ZPANIC])
  | 64, [which; ch; x; y] =>
      (* test_util shorthands of the multi-message constructs: which 0 control_change_14_bit,
         1 nrpn, 2 nrpn_14_bit, 3 rpn, 4 rpn_14_bit; observation = the message or a panic *)
      let chk := fun (mx v : N) => N.leb v mx in
      let spec :=
        if Z.eqb which 0 then
          (if chk 15%N (nz ch) && chk 31%N (nz x) && chk 16383%N (nz y)
           then [ch; x; y] else [ZPANIC])
        else
          let is14 := Z.eqb which 2 || Z.eqb which 4 in
          if chk 15%N (nz ch) && chk 16383%N (nz x) && chk (if is14 then 16383 else 127)%N (nz y)
          then [ch; x; y; zb (Z.leb 3 which); zb is14; 0] else [ZPANIC] in
      let model :=
        if Z.eqb which 0 then
          match checked 15%N (nz ch), checked 127%N (nz x), checked 16383%N (nz y) with
          | Ok c, Ok n, Ok v => match cc14_new c n v with
                                | Ok m => enc_cc14 (Some m) | Panic => [ZPANIC] end
          | _, _, _ => [ZPANIC]
          end
        else
          let is14 := Z.eqb which 2 || Z.eqb which 4 in
          match checked 15%N (nz ch), checked 16383%N (nz x), checked (if is14 then 16383 else 127)%N (nz y) with
          | Ok c, Ok n, Ok v =>
              enc_pn (Some (if is14 then pn_fourteen_bit c n v (Z.leb 3 which)
                            else pn_seven_bit c n v (Z.leb 3 which) DataEntry))
          | _, _, _ => [ZPANIC]
          end in
      verdict_of obs model spec
  | 70, [ch; cn; v] =>
      (* last integer: encoding into third-party factories gives the same bytes *)
      verdict_of obs (with_flag (model_70 (nz ch) (nz cn) (nz v))) (with_flag (spec_70 (nz ch) (nz cn) (nz v)))
  | 71, ch :: cn :: v :: k :: prior =>
      verdict_of obs (model_71 (nz ch) (nz cn) (nz v) k (dec_cc14ops prior))
        (spec_71 (nz ch) (nz cn) (nz v))
  | 80, h0 =>
      let h := expand9 0 248 0 0 h0 in
      verdict_of obs (model_80 (dec_cc14ops h)) (spec_80 (dec_cc14ops h))
  | 90, [k; ch; num; v; order] =>
      verdict_of obs (with_flag (model_90 k (nz ch) (nz num) (nz v) order))
                     (with_flag (spec_90 k (nz ch) (nz num) (nz v) order))
  | 100, k :: ch :: num :: v :: order :: kind :: prior =>
      verdict_of obs (model_100 k (nz ch) (nz num) (nz v) order kind (dec_pnops prior))
        (spec_100 k (nz ch) (nz num) (nz v))
  | 101, ch :: reg :: num :: n :: kind :: nprior :: rest =>
      let '(prior, vs) := take_ops (Z.to_nat nprior) rest in
      verdict_of obs
        (model_101 (nz ch) (Z.eqb reg 1) (nz num) (nz n) kind (dec_pnops prior) vs)
        (spec_101 (nz ch) (Z.eqb reg 1) (nz num) (nz n) vs)
  | 110, h0 =>
      let h := expand9 0 248 0 0 h0 in
      verdict_of obs (model_110 (dec_pnops h)) (spec_110 (dec_pnops h))
  | 120, timeout :: nprior :: rest =>
      let '(prior, sentence) := take_ops (Z.to_nat nprior) rest in
      check_120 (dec_timeout timeout) (dec_sops prior) (dec_sops sentence) obs
  | 130, timeout :: h => check_130 (dec_timeout timeout) (dec_sops h) obs
  | 131, timeout :: n :: rest =>
      let '(a, b) := take_ops (Z.to_nat n) rest in
      check_131 (dec_timeout timeout) (dec_sops a) (dec_sops b) obs
  | 132, timeout :: l => check_132 (dec_timeout timeout) l obs
  | 133, [timeout; which; c; x; y; v; w] =>
      (* a poll during which the timeout expires (the clock advances between two readings within
         the call): the scanner must behave as if that poll had happened at one instant -- just
         before the deadline (nothing reported, no effect) or at it *)
      let t := nz timeout in
      let st := (176 + nz c)%N in
      let first := if Z.eqb which 0 then 6%N else 38%N in
      let second := if Z.eqb which 0 then 38%N else 6%N in
      let mk := fun (d1 d2 : N) =>
        [OFeed (st, 99, nz x)%N; OFeed (st, 98, nz y)%N; OTick 10; OFeed (st, first, nz v);
         OTick d1; OPoll (nz c); OTick d2; OPoll (nz c); OFeed (st, second, nz w);
         OTick (t + 100); OPoll (nz c)] in
      let early := enc_outs (poll_outs t (mk (t - 1) 101))%N in
      let due := enc_outs (poll_outs t (mk t 100))%N in
      mkV (listZ_eqb obs early) (listZ_eqb obs early || listZ_eqb obs due) early
  | 140, timeout :: h => check_140 (dec_timeout timeout) (dec_sops h) obs
  | 150, kind :: timeout :: nch :: c1 :: c2 :: c3 :: ops0 =>
      let ops := expand9 0 248 0 0 ops0 in
      check_150 (ctor_kind kind) (ctor_timeout kind timeout) (firstn (Z.to_nat nch) [nz c1; nz c2; nz c3]) ops obs
  | 160, kind :: timeout :: nprior :: rest =>
      let '(prior, rest') := take_ops (Z.to_nat nprior) rest in
      (* the message (one operation), then the rest of the stream *)
      check_160 (ctor_kind kind) (ctor_timeout kind timeout) prior (firstn 4 rest') obs
  | 161, [n] => check_161 (nz n) obs
  | 162, [idx] => check_162 (Z.to_nat idx) obs
  | 190, tidx :: j =>
      match dec_json 50 j with
      | Some (v, []) =>
          let model := model_190 tidx v in
          mkV (listZ_eqb obs model) (holds_190 tidx obs) model
      | _ => bad_record
      end
  | 192, tidx :: shape :: data =>
      (* input shapes other than JSON values (byte strings, bare integers through serde's value
         deserializers).  The property: whatever is accepted survives the round trip through its
         own validating Deserialize.  Model: byte strings are rejected by every type; bare
         integers are what the integer-represented types read (restricted integers,
         ShortMessageType), everything else rejects them *)
      let holds := match obs with
                   | [0; _] => true
                   | [1; 1] => true
                   | _ => false
                   end in
      let intlike := Z.leb tidx 5 || Z.eqb tidx 10 in
      let model :=
        if Z.eqb shape 0 || negb intlike then [0; ZNONE]
        else match data with
             | [v] => (match (if Z.eqb tidx 10 then 0 else 1),
                              (if Z.eqb tidx 10
                               then (if Z.leb 128 v && Z.leb v 255 then true else false)
                               else Z.leb 0 v && Z.leb v (match nt_at (Z.to_nat tidx) with
                                                         | Some (_, _, m) => Z.of_N m | None => -1 end)) with
                       | _, true => [1; 1]
                       | _, false => [0; ZNONE]
                       end)
             | _ => [0; ZNONE]
             end in
      mkV (listZ_eqb obs model) holds model
  | 191, tidx :: f =>
      (* ... ++ [map-form round trip equal; positional-form round trip equal] *)
      let model := model_191 tidx f ++ [1] in
      mkV (listZ_eqb obs model) (Z.eqb (last obs 0) 1 && Z.eqb (last (removelast obs) 0) 1) model
  | 170, kind :: timeout :: n1 :: rest =>
      let '(ops1, ops2) := take_ops (Z.to_nat n1) rest in
      (* hundreds digit of the kind: the reset under test is called several times in a row *)
      check_170 (ctor_kind (kind mod 100)) (ctor_timeout (kind mod 100) timeout) ops1 ops2 obs
  | _, _ => bad_record
  end.
