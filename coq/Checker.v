(** Executable correspondence oracle.  [check tag inp obs] recomputes, for one record produced
    by the Rust harness (input [inp], the implementation's observation [obs]):
      - [v_model]: the model's observation for the same input,
      - [v_agree]: [obs] = model observation (the correspondence),
      - [v_holds]: the decidable statement of the property evaluated on the
                   *implementation's* observation (the violation oracle).
    This file is extracted to OCaml (checker/) and is also evaluated inside Coq by
    [vm_compute] for the extraction self-check.  All values are integers ([Z]):
    [-1] = None, [-2] = the call panicked, booleans 0/1. *)
From Verif Require Import Base.Prelude Model.ShortMsg Model.PerChannel Model.CC14 Model.Nrpn
  Model.Polling Spec.MidiTable Spec.CC14Spec.
Open Scope Z_scope.

Record verdict : Type := mkV { v_agree : bool; v_holds : bool; v_model : list Z }.

Definition ZNONE : Z := -1.
Definition ZPANIC : Z := -2.

Definition zN (n : N) : Z := Z.of_N n.
Definition zb (b : bool) : Z := if b then 1 else 0.
Definition zopt (o : option N) : Z := match o with Some n => zN n | None => ZNONE end.
Definition nz (z : Z) : N := Z.to_N z.

Definition enc_bytes (b : bytes) : list Z :=
  let '(s, a, c) := b in [zN s; zN a; zN c].

Definition enc_cc14 (o : option cc14msg) : list Z :=
  match o with
  | None => [ZNONE; ZNONE; ZNONE]
  | Some m => [zN (cc_channel m); zN (cc_msb_cn m); zN (cc_value m)]
  end.

(** compare the implementation's observation with model and spec observations *)
Definition verdict_of (obs model spec : list Z) : verdict :=
  mkV (listZ_eqb obs model) (listZ_eqb obs spec) model.

Definition bad_record : verdict := mkV false false [-99].

(** * operation decoding (4 integers per operation: kind, a, b, c)
    kind 0: feed RawShortMessage(a,b,c)      kind 1: feed StructuredShortMessage from (a,b,c)
    kind 2: reset                            kind 3: poll(channel a)
    kind 4: advance the clock by a ns        kind 5: feed a third-party implementor (a,b,c) *)
Definition canon_bytes (b : bytes) : bytes :=
  match struct_of_bytes b with
  | Ok m => struct_tb m
  | Panic => b
  end.

Definition op_bytes (kind : Z) (a b c : Z) : bytes :=
  let raw := (nz a, nz b, nz c) in
  if Z.eqb kind 1 then canon_bytes raw else raw.

Fixpoint dec_cc14ops (l : list Z) : list cc14op :=
  match l with
  | k :: a :: b :: c :: t =>
      (if Z.eqb k 2 then CReset else CFeed (op_bytes k a b c)) :: dec_cc14ops t
  | _ => []
  end.

(** * C07 / C08 *)
Definition outs_or_panic {S A} (r : outcome (S * list A)) (enc : A -> list Z) : list Z :=
  match r with
  | Ok (_, outs) => flat_map enc outs
  | Panic => [ZPANIC]
  end.

(** tag 70: ControlChange14BitMessage::new(ch, cn, v), getters, encodings into
    RawShortMessage and StructuredShortMessage *)
Definition model_70 (ch cn v : N) : list Z :=
  match cc14_new ch cn v with
  | Panic => [ZPANIC]
  | Ok m =>
      match cc14_lsb_cn m, cc14_to_short_messages raw_fbu m,
            cc14_to_short_messages struct_fbu m with
      | Ok l, Ok (r1, r2), Ok (s1, s2) =>
          [zN (cc_channel m); zN (cc_msb_cn m); zN l; zN (cc_value m)]
            ++ enc_bytes r1 ++ enc_bytes r2
            ++ enc_bytes (struct_tb s1) ++ enc_bytes (struct_tb s2)
      | _, _, _ => [ZPANIC]
      end
  end.

Definition spec_70 (ch cn v : N) : list Z :=
  if N.leb 32 cn then [ZPANIC]
  else
    let e := flat_map enc_bytes (cc14_encode_spec ch cn v) in
    [zN ch; zN cn; zN (cn + 32); zN v] ++ e ++ e.

(** tag 71: after an arbitrary prior history, feed the two messages of the encoding *)
Definition model_71 (ch cn v : N) (k : Z) (prior : list cc14op) : list Z :=
  match cc14_new ch cn v with
  | Panic => [ZPANIC]
  | Ok m =>
      match cc14_to_short_messages raw_fbu m with
      | Ok (r1, r2) =>
          match cc14_run cc14_new_scanner prior with
          | Ok (s, _) =>
              outs_or_panic
                (cc14_run s [CFeed (op_bytes k (zN (fst (fst r1))) (zN (snd (fst r1))) (zN (snd r1)));
                             CFeed (op_bytes k (zN (fst (fst r2))) (zN (snd (fst r2))) (zN (snd r2)))])
                enc_cc14
          | Panic => [ZPANIC]
          end
      | Panic => [ZPANIC]
      end
  end.

Definition spec_71 (ch cn v : N) : list Z :=
  enc_cc14 None ++ enc_cc14 (Some (mkCC14 ch cn v)).

(** tag 80: a history of feeds and resets from a new scanner *)
Definition model_80 (h : list cc14op) : list Z :=
  outs_or_panic (cc14_run cc14_new_scanner h) enc_cc14.
Definition spec_80 (h : list cc14op) : list Z :=
  flat_map enc_cc14 (cc14_spec_outs h).

Definition check (tag : Z) (inp obs : list Z) : verdict :=
  match tag, inp with
  | 70, [ch; cn; v] => verdict_of obs (model_70 (nz ch) (nz cn) (nz v)) (spec_70 (nz ch) (nz cn) (nz v))
  | 71, ch :: cn :: v :: k :: prior =>
      verdict_of obs (model_71 (nz ch) (nz cn) (nz v) k (dec_cc14ops prior))
        (spec_71 (nz ch) (nz cn) (nz v))
  | 80, h => verdict_of obs (model_80 (dec_cc14ops h)) (spec_80 (dec_cc14ops h))
  | _, _ => bad_record
  end.
