(** Extraction of the correspondence oracle to OCaml.  [ExtrOcamlBasic] only: its
    [Extract Inductive] directives for bool, option, unit, list, prod, sumbool, sumor.
    No [Extract Constant] of our own; N / positive / Z stay the extracted inductives. *)
From Coq Require Import ExtrOcamlBasic.
From Verif Require Import Checker.
Extraction "model.ml" check.
