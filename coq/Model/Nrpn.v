(** Model of src/parameter_number_message.rs and src/parameter_number_message_scanner.rs.
    Definitions only. *)
From Verif Require Import Base.Prelude Model.ShortMsg Model.PerChannel Model.CC14.

Inductive datatype := DataEntry | DataIncrement | DataDecrement.
Inductive byteorder := MsbFirst | LsbFirst.

Definition datatype_eqb (a b : datatype) : bool :=
  match a, b with
  | DataEntry, DataEntry | DataIncrement, DataIncrement | DataDecrement, DataDecrement => true
  | _, _ => false
  end.

Record pnmsg : Type := mkPN {
  pn_channel : N;
  pn_number : N;
  pn_value : N;
  pn_is_registered : bool;
  pn_is_14_bit : bool;
  pn_data_type : datatype
}.

Definition pn_seven_bit (ch num v : N) (reg : bool) (dt : datatype) : pnmsg :=
  mkPN ch num v reg false dt.
Definition pn_fourteen_bit (ch num v : N) (reg : bool) : pnmsg :=
  mkPN ch num v reg true DataEntry.

(** the eight public constructors *)
Definition non_registered_7_bit ch n v := pn_seven_bit ch n v false DataEntry.
Definition non_registered_14_bit ch n v := pn_fourteen_bit ch n v false.
Definition non_registered_decrement ch n v := pn_seven_bit ch n v false DataDecrement.
Definition non_registered_increment ch n v := pn_seven_bit ch n v false DataIncrement.
Definition registered_7_bit ch n v := pn_seven_bit ch n v true DataEntry.
Definition registered_14_bit ch n v := pn_fourteen_bit ch n v true.
Definition registered_decrement ch n v := pn_seven_bit ch n v true DataDecrement.
Definition registered_increment ch n v := pn_seven_bit ch n v true DataIncrement.

(** * to_short_messages, keeping the [i] / [messages[i]] bookkeeping of the code.
    The slots hold byte triples; the factory is applied afterwards (it is called once per
    filled slot in the code, in slot order). *)
Definition set_slot {A} (msgs : list (option A)) (i : nat) (x : A) : outcome (list (option A)) :=
  if Nat.ltb i (length msgs) then Ok (upd msgs i (Some x)) else Panic.

Definition pn_data_entry_msb_bytes (m : pnmsg) : bytes :=
  control_change_bytes (pn_channel m) 6
    (if pn_is_14_bit m then extract_high_7 (pn_value m) else (pn_value m) mod 256).
Definition pn_data_entry_lsb_bytes (m : pnmsg) : bytes :=
  control_change_bytes (pn_channel m) 38 (extract_low_7 (pn_value m)).
Definition pn_inc_dec_bytes (m : pnmsg) (cn : N) : bytes :=
  control_change_bytes (pn_channel m) cn (extract_low_7 (pn_value m)).

Definition pn_to_short_message_bytes (m : pnmsg) (order : byteorder)
  : outcome (list (option bytes)) :=
  let msgs := [None; None; None; None] in
  let i := 0%nat in
  msgs <- set_slot msgs i
    (control_change_bytes (pn_channel m) (if pn_is_registered m then 101 else 99)
       (extract_high_7 (pn_number m))) ;;
  let i := S i in
  msgs <- set_slot msgs i
    (control_change_bytes (pn_channel m) (if pn_is_registered m then 100 else 98)
       (extract_low_7 (pn_number m))) ;;
  let i := S i in
  match pn_data_type m with
  | DataEntry =>
      match order with
      | MsbFirst =>
          msgs <- set_slot msgs i (pn_data_entry_msb_bytes m) ;;
          let i := S i in
          if pn_is_14_bit m then set_slot msgs i (pn_data_entry_lsb_bytes m) else Ok msgs
      | LsbFirst =>
          if pn_is_14_bit m then
            msgs <- set_slot msgs i (pn_data_entry_lsb_bytes m) ;;
            let i := S i in
            set_slot msgs i (pn_data_entry_msb_bytes m)
          else set_slot msgs i (pn_data_entry_msb_bytes m)
      end
  | DataIncrement => set_slot msgs i (pn_inc_dec_bytes m 96)
  | DataDecrement => set_slot msgs i (pn_inc_dec_bytes m 97)
  end.

Fixpoint map_slots {M} (fbu : bytes -> outcome M) (l : list (option bytes))
  : outcome (list (option M)) :=
  match l with
  | [] => Ok []
  | None :: t => r <- map_slots fbu t ;; Ok (None :: r)
  | Some b :: t => x <- fbu b ;; r <- map_slots fbu t ;; Ok (Some x :: r)
  end.

Definition pn_to_short_messages {M} (fbu : bytes -> outcome M) (m : pnmsg) (order : byteorder)
  : outcome (list (option M)) :=
  l <- pn_to_short_message_bytes m order ;; map_slots fbu l.

(** * ParameterNumberMessageScanner: ScannerForOneChannel *)
Record pnst : Type := mkPNSt {
  s_number_msb : option N;
  s_number_lsb : option N;
  s_is_registered : bool;
  s_value_lsb : option N
}.
Definition pnst_init : pnst := mkPNSt None None false None.

Definition pn_build_number (st : pnst) : option N :=
  match s_number_lsb st with
  | None => None
  | Some l =>
      match s_number_msb st with
      | None => None
      | Some m => Some (build_14 m l)
      end
  end.

Definition pn_feed1_core (st : pnst) (m : structured) : pnst * option pnmsg :=
  match m with
  | SControlChange channel cn v =>
      match cn with
      | 98 => (mkPNSt (s_number_msb st) (Some v) false None, None)
      | 99 => (mkPNSt (Some v) (s_number_lsb st) false None, None)
      | 100 => (mkPNSt (s_number_msb st) (Some v) true None, None)
      | 101 => (mkPNSt (Some v) (s_number_lsb st) true None, None)
      | 38 => (mkPNSt (s_number_msb st) (s_number_lsb st) (s_is_registered st) (Some v), None)
      | 6 =>
          match pn_build_number st with
          | None => (st, None)
          | Some number =>
              (st, Some (match s_value_lsb st with
                         | Some l => pn_fourteen_bit channel number (build_14 v l)
                                       (s_is_registered st)
                         | None => pn_seven_bit channel number v (s_is_registered st) DataEntry
                         end))
          end
      | 96 =>
          match pn_build_number st with
          | None => (st, None)
          | Some number =>
              (st, Some (pn_seven_bit channel number v (s_is_registered st) DataIncrement))
          end
      | 97 =>
          match pn_build_number st with
          | None => (st, None)
          | Some number =>
              (st, Some (pn_seven_bit channel number v (s_is_registered st) DataDecrement))
          end
      | _ => (st, None)
      end
  | _ => (st, None)
  end.

(** [ScannerForOneChannel::feed] has no panic site *)
Definition pn_feed1 (st : pnst) (m : structured) : outcome (pnst * option pnmsg) :=
  Ok (pn_feed1_core st m).

Definition pn_reset1 (st : pnst) : pnst := pnst_init.

Definition pn_scanner := list pnst.
Definition pn_new_scanner : pn_scanner := replicate 16 pnst_init.
Definition pn_feed : pn_scanner -> bytes -> outcome (pn_scanner * option pnmsg) :=
  feed_multi pnst (option pnmsg) pn_feed1 None.
Definition pn_reset : pn_scanner -> pn_scanner := reset_multi pnst pn_reset1.

Inductive pnop := NFeed (b : bytes) | NReset.

Definition pn_step (s : pn_scanner) (o : pnop) : outcome (pn_scanner * option pnmsg) :=
  match o with
  | NFeed b => pn_feed s b
  | NReset => Ok (pn_reset s, None)
  end.

Fixpoint pn_run (s : pn_scanner) (h : list pnop)
  : outcome (pn_scanner * list (option pnmsg)) :=
  match h with
  | [] => Ok (s, [])
  | o :: h' =>
      r <- pn_step s o ;;
      r' <- pn_run (fst r) h' ;;
      Ok (fst r', snd r :: snd r')
  end.
