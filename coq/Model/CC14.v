(** Model of src/control_change_14_bit_message.rs, src/control_change_14_bit_message_scanner.rs
    and the ControllerNumber predicates of src/controller_number_mod.rs.  Definitions only. *)
From Verif Require Import Base.Prelude Model.ShortMsg Model.PerChannel.

(** * ControllerNumber predicates *)
Definition can_be_part_of_14_bit (n : N) : bool := N.ltb n 64.
Definition corresponding_lsb (n : N) : option N :=
  if N.leb 32 n then None else Some (n + 32).
Definition is_parameter_number_cn (n : N) : bool :=
  match n with
  | 98 | 99 | 100 | 101 | 38 | 6 | 96 | 97 => true
  | _ => false
  end.

(** * factory: control_change (short_message_factory.rs:122-134) *)
Definition control_change_bytes (ch cn v : N) : bytes :=
  (build_status_byte (smt_code TControlChange) ch, cn, v).

(** * ControlChange14BitMessage *)
Record cc14msg : Type := mkCC14 { cc_channel : N; cc_msb_cn : N; cc_value : N }.

Definition cc14_new (ch cn v : N) : outcome cc14msg :=
  match corresponding_lsb cn with
  | Some _ => Ok (mkCC14 ch cn v)
  | None => Panic
  end.

Definition cc14_lsb_cn (m : cc14msg) : outcome N :=
  match corresponding_lsb (cc_msb_cn m) with
  | Some l => Ok l
  | None => Panic (* expect("impossible") *)
  end.

Definition cc14_to_short_messages {M} (fbu : bytes -> outcome M) (m : cc14msg)
  : outcome (M * M) :=
  m1 <- fbu (control_change_bytes (cc_channel m) (cc_msb_cn m) (extract_high_7 (cc_value m))) ;;
  l <- cc14_lsb_cn m ;;
  m2 <- fbu (control_change_bytes (cc_channel m) l (extract_low_7 (cc_value m))) ;;
  Ok (m1, m2).

(** * ScannerForOneChannel *)
Record cc14st : Type := mkCC14St { st_msb_cn : option N; st_value_msb : option N }.
Definition cc14st_init : cc14st := mkCC14St None None.

Definition cc14_process_value_lsb (st : cc14st) (channel lsb_cn value_lsb : N)
  : outcome (cc14st * option cc14msg) :=
  match st_msb_cn st with
  | None => Ok (st, None)
  | Some msb_cn =>
      match st_value_msb st with
      | None => Ok (st, None)
      | Some value_msb =>
          match corresponding_lsb msb_cn with
          | None => Panic (* expect("impossible") *)
          | Some l =>
              if negb (N.eqb lsb_cn l) then Ok (st, None)
              else
                m <- cc14_new channel msb_cn (build_14 value_msb value_lsb) ;;
                Ok (st, Some m)
          end
      end
  end.

Definition cc14_feed1 (st : cc14st) (m : structured) : outcome (cc14st * option cc14msg) :=
  match m with
  | SControlChange channel cn v =>
      if N.leb cn 31 then Ok (mkCC14St (Some cn) (Some v), None)
      else if N.leb cn 63 then cc14_process_value_lsb st channel cn v
      else Ok (st, None)
  | _ => Ok (st, None)
  end.

Definition cc14_reset1 (st : cc14st) : cc14st := mkCC14St None None.

(** * ControlChange14BitMessageScanner *)
Definition cc14_scanner := list cc14st.
Definition cc14_new_scanner : cc14_scanner := replicate 16 cc14st_init.
Definition cc14_feed : cc14_scanner -> bytes -> outcome (cc14_scanner * option cc14msg) :=
  feed_multi cc14st (option cc14msg) cc14_feed1 None.
Definition cc14_reset : cc14_scanner -> cc14_scanner := reset_multi cc14st cc14_reset1.

(** operations of a history *)
Inductive cc14op := CFeed (b : bytes) | CReset.

Definition cc14_step (s : cc14_scanner) (o : cc14op)
  : outcome (cc14_scanner * option cc14msg) :=
  match o with
  | CFeed b => cc14_feed s b
  | CReset => Ok (cc14_reset s, None)
  end.

(** run a history, collecting outputs; a panic anywhere makes the whole run [Panic] *)
Fixpoint cc14_run (s : cc14_scanner) (h : list cc14op)
  : outcome (cc14_scanner * list (option cc14msg)) :=
  match h with
  | [] => Ok (s, [])
  | o :: h' =>
      r <- cc14_step s o ;;
      r' <- cc14_run (fst r) h' ;;
      Ok (fst r', snd r :: snd r')
  end.
