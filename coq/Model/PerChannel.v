(** The 16-element per-channel array shared by the three scanners
    ([scanner_by_channel: [ScannerForOneChannel; 16]], indexed by [msg.channel()]).
    Definitions only. *)
From Verif Require Import Base.Prelude Model.ShortMsg.

Section PerChannel.
  Variables (St Out : Type).
  (** one-channel [feed]; it receives the message's [to_structured()] *)
  Variable feed1 : St -> structured -> outcome (St * Out).
  (** the value returned for channel-less messages *)
  Variable none : Out.

  (** [feed(&mut self, msg)]: [msg.channel()?] then index, then the sub-scanner's feed. *)
  Definition feed_multi (s : list St) (b : bytes) : outcome (list St * Out) :=
    oc <- g_channel bytes raw_sb raw_d1 b ;;
    match oc with
    | None => Ok (s, none)
    | Some c =>
        match nth_error s (N.to_nat c) with
        | None => Panic (* index out of bounds *)
        | Some st =>
            m <- raw_ts b ;;
            r <- feed1 st m ;;
            Ok (upd s (N.to_nat c) (fst r), snd r)
        end
    end.

  Variable reset1 : St -> St.
  Definition reset_multi (s : list St) : list St := map reset1 s.
End PerChannel.

(** operations of a scanner history (feeds, polls, resets, clock ticks) *)
Inductive sop : Type := OFeed (b : bytes) | OPoll (channel : N) | OReset | OTick (dt : N).

Definition replicate {A} (n : nat) (x : A) : list A := repeat x n.
