(** Model of src/short_message_factory.rs (constructors) and src/test_util.rs (shorthands).
    Every constructor assembles a byte triple and calls [from_bytes_unchecked] ([fbu]).
    Definitions only. *)
From Verif Require Import Base.Prelude Model.ShortMsg.

Definition chan_bytes (t : smtype) (ch a c : N) : bytes := (build_status_byte (smt_code t) ch, a, c).
Definition sys_bytes (t : smtype) (a c : N) : bytes := (smt_code t, a, c).

(** the named constructors, numbered as in the harness *)
Definition ctor_bytes (idx : N) (x y z : N) : bytes :=
  match idx with
  | 0 => chan_bytes TNoteOn x y z
  | 1 => chan_bytes TNoteOff x y z
  | 2 => chan_bytes TControlChange x y z
  | 3 => chan_bytes TProgramChange x y 0
  | 4 => chan_bytes TPolyphonicKeyPressure x y z
  | 5 => chan_bytes TChannelPressure x y 0
  | 6 => chan_bytes TPitchBendChange x ((N.land y 127) mod 256) ((N.shiftr y 7) mod 256)
  | 7 => sys_bytes TSystemExclusiveStart 0 0
  | 8 => sys_bytes TTimeCodeQuarterFrame x 0   (* x = U7::from(frame) *)
  | 9 => sys_bytes TSongPositionPointer ((N.land x 127) mod 256) ((N.shiftr x 7) mod 256)
  | 10 => sys_bytes TSongSelect x 0
  | 11 => sys_bytes TTuneRequest 0 0
  | 12 => sys_bytes TSystemExclusiveEnd 0 0
  | 13 => sys_bytes TTimingClock 0 0
  | 14 => sys_bytes TStart 0 0
  | 15 => sys_bytes TContinue 0 0
  | 16 => sys_bytes TStop 0 0
  | 17 => sys_bytes TActiveSensing 0 0
  | _ => sys_bytes TSystemReset 0 0
  end.

Definition ctor {M} (fbu : bytes -> outcome M) (idx x y z : N) : outcome M :=
  fbu (ctor_bytes idx x y z).

(** time_code_quarter_frame takes a frame; the harness passes a 7-bit value and converts *)
Definition ctor_tcqf {M} (fbu : bytes -> outcome M) (a : N) : outcome M :=
  f <- tcqf_of_u7 a ;; fbu (sys_bytes TTimeCodeQuarterFrame (u7_of_tcqf f) 0).

(** the generic constructors assert the category of the given type *)
Definition fuzzy_eqb (a b : fuzzy_super) : bool :=
  match a, b with
  | FChannel, FChannel | FSystemCommon, FSystemCommon | FSystemRealTime, FSystemRealTime
  | FSystemExclusive, FSystemExclusive => true
  | _, _ => false
  end.

Definition channel_message {M} (fbu : bytes -> outcome M) (t : smtype) (ch a c : N) : outcome M :=
  if fuzzy_eqb (smt_super t) FChannel then fbu (chan_bytes t ch a c) else Panic.
Definition system_common_message {M} (fbu : bytes -> outcome M) (t : smtype) (a c : N)
  : outcome M :=
  if fuzzy_eqb (smt_super t) FSystemCommon then fbu (sys_bytes t a c) else Panic.
Definition system_real_time_message {M} (fbu : bytes -> outcome M) (t : smtype) : outcome M :=
  if fuzzy_eqb (smt_super t) FSystemRealTime then fbu (sys_bytes t 0 0) else Panic.

(** * test_util: primitives are converted with try_into().expect(..) *)
Definition checked (max v : N) : outcome N := if N.leb v max then Ok v else Panic.

(** [short(status, d1, d2)]: u7(d1), u7(d2), then from_bytes(..).expect *)
Definition tu_short (s a c : N) : outcome bytes :=
  a' <- checked 127 a ;; c' <- checked 127 c ;;
  match extract_type s with Some _ => Ok (s, a', c') | None => Panic end.

(** the shorthand for named constructor [idx]: argument maxima per position *)
Definition ctor_arg_max (idx : N) : N * N * N :=
  match idx with
  | 0 | 1 | 2 | 4 => (15, 127, 127)
  | 3 | 5 => (15, 127, 0)
  | 6 => (15, 16383, 0)
  | 9 => (16383, 0, 0)
  | 10 => (127, 0, 0)
  | _ => (0, 0, 0)
  end.

Definition ctor_arity (idx : N) : nat :=
  match idx with
  | 0 | 1 | 2 | 4 => 3%nat
  | 3 | 5 | 6 => 2%nat
  | 9 | 10 => 1%nat
  | _ => 0%nat
  end.

Definition tu_ctor (idx x y z : N) : outcome bytes :=
  let '(mx, my, mz) := ctor_arg_max idx in
  let n := ctor_arity idx in
  x' <- (if Nat.leb 1 n then checked mx x else Ok 0) ;;
  y' <- (if Nat.leb 2 n then checked my y else Ok 0) ;;
  z' <- (if Nat.leb 3 n then checked mz z else Ok 0) ;;
  Ok (ctor_bytes idx x' y' z').

(** test_util::{u4, u7, u14, channel, key_number, controller_number}: [try_into().expect(..)] *)
Definition tu_scalar_max (which : N) : N :=
  match which with
  | 0 => 15 | 1 => 127 | 2 => 16383 | 3 => 15 | 4 => 127 | _ => 127
  end.
Definition tu_scalar (which v : N) : outcome N := checked (tu_scalar_max which) v.
