(** Model of src/bit_util.rs, src/short_message.rs, src/raw_short_message.rs,
    src/structured_short_message.rs.  Definitions only (executable, extractable).

    Conventions: bytes, U4/U7/U14/Channel/... values are bare [N]; validity is a separate
    predicate.  Shifts and masks are written as the Rust code writes them; [u8] shifts wrap
    modulo 256.  Every Rust panic site is an [outcome]. *)
From Verif Require Import Base.Prelude.

(** * bit helpers (short_message.rs:510-523, bit_util.rs) *)
Definition shl8 (x k : N) : N := (N.shiftl x k) mod 256.
Definition shl16 (x k : N) : N := (N.shiftl x k) mod 65536.

Definition extract_low_nibble (b : N) : N := N.land b 15.
Definition extract_high_nibble (b : N) : N := N.land (N.shiftr b 4) 15.
Definition build_byte_from_nibbles (h l : N) : N := N.lor (shl8 h 4) l.

Definition extract_high_7 (v : N) : N := N.land (N.shiftr v 7) 127.
Definition extract_low_7 (v : N) : N := N.land v 127.
Definition build_14 (hi lo : N) : N := N.lor (shl16 hi 7) lo.
Definition build_status_byte (t ch : N) : N := N.lor t ch.
Definition extract_channel (s : N) : N := N.land s 15.

(** * ShortMessageType (repr(u8), TryFromPrimitive / IntoPrimitive) *)
Inductive smtype : Type :=
| TNoteOff | TNoteOn | TPolyphonicKeyPressure | TControlChange | TProgramChange
| TChannelPressure | TPitchBendChange
| TSystemExclusiveStart
| TTimeCodeQuarterFrame | TSongPositionPointer | TSongSelect
| TSystemCommonUndefined1 | TSystemCommonUndefined2 | TTuneRequest | TSystemExclusiveEnd
| TTimingClock | TSystemRealTimeUndefined1 | TStart | TContinue | TStop
| TSystemRealTimeUndefined2 | TActiveSensing | TSystemReset.

Definition all_smtypes : list smtype :=
  [TNoteOff; TNoteOn; TPolyphonicKeyPressure; TControlChange; TProgramChange;
   TChannelPressure; TPitchBendChange; TSystemExclusiveStart;
   TTimeCodeQuarterFrame; TSongPositionPointer; TSongSelect;
   TSystemCommonUndefined1; TSystemCommonUndefined2; TTuneRequest; TSystemExclusiveEnd;
   TTimingClock; TSystemRealTimeUndefined1; TStart; TContinue; TStop;
   TSystemRealTimeUndefined2; TActiveSensing; TSystemReset].

Definition smt_code (t : smtype) : N :=
  match t with
  | TNoteOff => 128 | TNoteOn => 144 | TPolyphonicKeyPressure => 160
  | TControlChange => 176 | TProgramChange => 192 | TChannelPressure => 208
  | TPitchBendChange => 224
  | TSystemExclusiveStart => 240
  | TTimeCodeQuarterFrame => 241 | TSongPositionPointer => 242 | TSongSelect => 243
  | TSystemCommonUndefined1 => 244 | TSystemCommonUndefined2 => 245
  | TTuneRequest => 246 | TSystemExclusiveEnd => 247
  | TTimingClock => 248 | TSystemRealTimeUndefined1 => 249 | TStart => 250
  | TContinue => 251 | TStop => 252 | TSystemRealTimeUndefined2 => 253
  | TActiveSensing => 254 | TSystemReset => 255
  end.

Definition smt_of_code (c : N) : option smtype :=
  find (fun t => N.eqb (smt_code t) c) all_smtypes.

Definition smt_eqb (a b : smtype) : bool := N.eqb (smt_code a) (smt_code b).

(** * super types and categories *)
Inductive fuzzy_super := FChannel | FSystemCommon | FSystemRealTime | FSystemExclusive.
Inductive super := ChannelVoice | ChannelMode | SystemCommon | SystemRealTime | SystemExclusive.
Inductive maincat := CatChannel | CatSystem.

Definition smt_super (t : smtype) : fuzzy_super :=
  match t with
  | TNoteOn | TNoteOff | TChannelPressure | TPolyphonicKeyPressure | TPitchBendChange
  | TProgramChange | TControlChange => FChannel
  | TTimingClock | TSystemRealTimeUndefined1 | TStart | TContinue | TStop
  | TSystemRealTimeUndefined2 | TActiveSensing | TSystemReset => FSystemRealTime
  | TTimeCodeQuarterFrame | TSongPositionPointer | TSongSelect | TSystemCommonUndefined1
  | TSystemCommonUndefined2 | TTuneRequest | TSystemExclusiveEnd => FSystemCommon
  | TSystemExclusiveStart => FSystemExclusive
  end.

Definition fuzzy_main (f : fuzzy_super) : maincat :=
  match f with FChannel => CatChannel | _ => CatSystem end.

Definition super_main (s : super) : maincat :=
  match s with
  | ChannelMode | ChannelVoice => CatChannel
  | SystemCommon | SystemRealTime | SystemExclusive => CatSystem
  end.

(** controller_number_mod.rs:64-68.  [channel_mode_threshold] is the value of the constant the
    code compares with (ALL_SOUND_OFF after the D1 repair; RESET_ALL_CONTROLLERS = 121 before). *)
Definition channel_mode_threshold : N := 120.
Definition is_channel_mode_cn (n : N) : bool := N.leb channel_mode_threshold n.

(** * TimeCodeType / TimeCodeQuarterFrame *)
Inductive tctype := Fps24 | Fps25 | Fps30DropFrame | Fps30NonDrop.
Definition tct_code (t : tctype) : N :=
  match t with Fps24 => 0 | Fps25 => 1 | Fps30DropFrame => 2 | Fps30NonDrop => 3 end.
Definition tct_of_code (c : N) : option tctype :=
  match c with
  | 0 => Some Fps24 | 1 => Some Fps25 | 2 => Some Fps30DropFrame | 3 => Some Fps30NonDrop
  | _ => None
  end.

Inductive tcqf : Type :=
| FrameCountLsNibble (v : N)
| FrameCountMsNibble (v : N)
| SecondsCountLsNibble (v : N)
| SecondsCountMsNibble (v : N)
| MinutesCountLsNibble (v : N)
| MinutesCountMsNibble (v : N)
| HoursCountLsNibble (v : N)
| TcLast (hours_count_ms_bit : bool) (time_code_type : tctype).

Definition build_mtc (frame_type data : N) : N := N.lor (shl8 frame_type 4) data.

(** impl From<TimeCodeQuarterFrame> for U7 *)
Definition u7_of_tcqf (f : tcqf) : N :=
  match f with
  | FrameCountLsNibble v => build_mtc 0 v
  | FrameCountMsNibble v => build_mtc 1 v
  | SecondsCountLsNibble v => build_mtc 2 v
  | SecondsCountMsNibble v => build_mtc 3 v
  | MinutesCountLsNibble v => build_mtc 4 v
  | MinutesCountMsNibble v => build_mtc 5 v
  | HoursCountLsNibble v => build_mtc 6 v
  | TcLast b t =>
      let bit_0 := if b then 1 else 0 in
      let bit_1_and_2 := shl8 (tct_code t) 1 in
      build_mtc 7 (N.lor bit_1_and_2 bit_0)
  end.

(** impl From<U7> for TimeCodeQuarterFrame ([unreachable!] and [expect] are panic sites) *)
Definition tcqf_of_u7 (data : N) : outcome tcqf :=
  match extract_high_nibble data with
  | 0 => Ok (FrameCountLsNibble (extract_low_nibble data))
  | 1 => Ok (FrameCountMsNibble (extract_low_nibble data))
  | 2 => Ok (SecondsCountLsNibble (extract_low_nibble data))
  | 3 => Ok (SecondsCountMsNibble (extract_low_nibble data))
  | 4 => Ok (MinutesCountLsNibble (extract_low_nibble data))
  | 5 => Ok (MinutesCountMsNibble (extract_low_nibble data))
  | 6 => Ok (HoursCountLsNibble (extract_low_nibble data))
  | 7 =>
      match tct_of_code (N.shiftr (N.land data 6) 1) with
      | Some t => Ok (TcLast (negb (N.eqb (N.land data 1) 0)) t)
      | None => Panic
      end
  | _ => Panic
  end.

(** * extract_type_from_status_byte *)
Definition extract_type (status : N) : option smtype :=
  let h := extract_high_nibble status in
  let relevant := if N.eqb h 15 then status else build_byte_from_nibbles h 0 in
  smt_of_code relevant.

(** * StructuredShortMessage *)
Inductive structured : Type :=
| SNoteOff (channel key_number velocity : N)
| SNoteOn (channel key_number velocity : N)
| SPolyphonicKeyPressure (channel key_number pressure_amount : N)
| SControlChange (channel controller_number control_value : N)
| SProgramChange (channel program_number : N)
| SChannelPressure (channel pressure_amount : N)
| SPitchBendChange (channel pitch_bend_value : N)
| SSystemExclusiveStart
| STimeCodeQuarterFrame (frame : tcqf)
| SSongPositionPointer (position : N)
| SSongSelect (song_number : N)
| STuneRequest
| SSystemExclusiveEnd
| STimingClock
| SStart
| SContinue
| SStop
| SActiveSensing
| SSystemReset
| SSystemCommonUndefined1
| SSystemCommonUndefined2
| SSystemRealTimeUndefined1
| SSystemRealTimeUndefined2.

Definition bytes : Type := (N * N * N)%type.

(** StructuredShortMessage::from_bytes_unchecked *)
Definition struct_of_bytes (b : bytes) : outcome structured :=
  let '(s, a, c) := b in
  match extract_type s with
  | None => Panic
  | Some t =>
      match t with
      | TNoteOff => Ok (SNoteOff (extract_channel s) a c)
      | TNoteOn => Ok (SNoteOn (extract_channel s) a c)
      | TPolyphonicKeyPressure => Ok (SPolyphonicKeyPressure (extract_channel s) a c)
      | TControlChange => Ok (SControlChange (extract_channel s) a c)
      | TProgramChange => Ok (SProgramChange (extract_channel s) a)
      | TChannelPressure => Ok (SChannelPressure (extract_channel s) a)
      | TPitchBendChange => Ok (SPitchBendChange (extract_channel s) (build_14 c a))
      | TSystemExclusiveStart => Ok SSystemExclusiveStart
      | TTimeCodeQuarterFrame => omap STimeCodeQuarterFrame (tcqf_of_u7 a)
      | TSongPositionPointer => Ok (SSongPositionPointer (build_14 c a))
      | TSongSelect => Ok (SSongSelect a)
      | TTuneRequest => Ok STuneRequest
      | TSystemExclusiveEnd => Ok SSystemExclusiveEnd
      | TTimingClock => Ok STimingClock
      | TStart => Ok SStart
      | TContinue => Ok SContinue
      | TStop => Ok SStop
      | TActiveSensing => Ok SActiveSensing
      | TSystemReset => Ok SSystemReset
      | TSystemCommonUndefined1 => Ok SSystemCommonUndefined1
      | TSystemCommonUndefined2 => Ok SSystemCommonUndefined2
      | TSystemRealTimeUndefined1 => Ok SSystemRealTimeUndefined1
      | TSystemRealTimeUndefined2 => Ok SSystemRealTimeUndefined2
      end
  end.

(** impl ShortMessage for StructuredShortMessage *)
Definition struct_sb (m : structured) : N :=
  match m with
  | SNoteOff ch _ _ => build_status_byte (smt_code TNoteOff) ch
  | SNoteOn ch _ _ => build_status_byte (smt_code TNoteOn) ch
  | SPolyphonicKeyPressure ch _ _ => build_status_byte (smt_code TPolyphonicKeyPressure) ch
  | SControlChange ch _ _ => build_status_byte (smt_code TControlChange) ch
  | SProgramChange ch _ => build_status_byte (smt_code TProgramChange) ch
  | SChannelPressure ch _ => build_status_byte (smt_code TChannelPressure) ch
  | SPitchBendChange ch _ => build_status_byte (smt_code TPitchBendChange) ch
  | SSystemExclusiveStart => smt_code TSystemExclusiveStart
  | STimeCodeQuarterFrame _ => smt_code TTimeCodeQuarterFrame
  | SSongPositionPointer _ => smt_code TSongPositionPointer
  | SSongSelect _ => smt_code TSongSelect
  | STuneRequest => smt_code TTuneRequest
  | SSystemExclusiveEnd => smt_code TSystemExclusiveEnd
  | STimingClock => smt_code TTimingClock
  | SStart => smt_code TStart
  | SContinue => smt_code TContinue
  | SStop => smt_code TStop
  | SActiveSensing => smt_code TActiveSensing
  | SSystemReset => smt_code TSystemReset
  | SSystemCommonUndefined1 => smt_code TSystemCommonUndefined1
  | SSystemCommonUndefined2 => smt_code TSystemCommonUndefined2
  | SSystemRealTimeUndefined1 => smt_code TSystemRealTimeUndefined1
  | SSystemRealTimeUndefined2 => smt_code TSystemRealTimeUndefined2
  end.

Definition struct_d1 (m : structured) : N :=
  match m with
  | SNoteOff _ k _ => k
  | SNoteOn _ k _ => k
  | SPolyphonicKeyPressure _ k _ => k
  | SControlChange _ cn _ => cn
  | SProgramChange _ p => p
  | SChannelPressure _ p => p
  | SPitchBendChange _ v => extract_low_7 v
  | SSystemExclusiveStart => 0
  | STimeCodeQuarterFrame f => u7_of_tcqf f
  | SSongPositionPointer p => extract_low_7 p
  | SSongSelect n => n
  | _ => 0
  end.

Definition struct_d2 (m : structured) : N :=
  match m with
  | SNoteOff _ _ v => v
  | SNoteOn _ _ v => v
  | SPolyphonicKeyPressure _ _ p => p
  | SControlChange _ _ v => v
  | SProgramChange _ _ => 0
  | SChannelPressure _ _ => 0
  | SPitchBendChange _ v => extract_high_7 v
  | SSongPositionPointer p => extract_high_7 p
  | _ => 0
  end.

(** * trait ShortMessage: default methods over the three byte getters.
    [tb] is [to_bytes] (overridable), [ts] is [to_structured] (overridable). *)
Section Impl.
  Variable M : Type.
  Variables (sb d1 d2 : M -> N).
  Variable tb : M -> bytes.
  Variable ts : M -> outcome structured.

  Definition g_to_bytes_default (m : M) : bytes := (sb m, d1 m, d2 m).

  Definition g_type (m : M) : outcome smtype :=
    match extract_type (sb m) with Some t => Ok t | None => Panic end.

  Definition g_super_type (m : M) : outcome super :=
    t <- g_type m ;;
    Ok (match t with
        | TNoteOn | TNoteOff | TChannelPressure | TPolyphonicKeyPressure | TPitchBendChange
        | TProgramChange => ChannelVoice
        | TControlChange => if is_channel_mode_cn (d1 m) then ChannelMode else ChannelVoice
        | TTimingClock | TSystemRealTimeUndefined1 | TStart | TContinue | TStop
        | TSystemRealTimeUndefined2 | TActiveSensing | TSystemReset => SystemRealTime
        | TTimeCodeQuarterFrame | TSongPositionPointer | TSongSelect | TSystemCommonUndefined1
        | TSystemCommonUndefined2 | TTuneRequest | TSystemExclusiveEnd => SystemCommon
        | TSystemExclusiveStart => SystemExclusive
        end).

  Definition g_main_category (m : M) : outcome maincat :=
    omap super_main (g_super_type m).

  Definition g_is_note_on (m : M) : outcome bool :=
    s <- ts m ;;
    Ok (match s with SNoteOn _ _ v => N.ltb 0 v | _ => false end).

  Definition g_is_note_off (m : M) : outcome bool :=
    s <- ts m ;;
    Ok (match s with
        | SNoteOff _ _ _ => true
        | SNoteOn _ _ v => N.eqb v 0
        | _ => false
        end).

  Definition g_is_note (m : M) : outcome bool :=
    t <- g_type m ;;
    Ok (match t with TNoteOn | TNoteOff => true | _ => false end).

  Definition g_channel (m : M) : outcome (option N) :=
    c <- g_main_category m ;;
    Ok (match c with
        | CatChannel => Some (extract_channel (sb m))
        | CatSystem => None
        end).

  Definition g_key_number (m : M) : outcome (option N) :=
    t <- g_type m ;;
    Ok (match t with
        | TNoteOff | TNoteOn | TPolyphonicKeyPressure => Some (d1 m)
        | _ => None
        end).

  Definition g_velocity (m : M) : outcome (option N) :=
    t <- g_type m ;;
    Ok (match t with TNoteOff | TNoteOn => Some (d2 m) | _ => None end).

  Definition g_controller_number (m : M) : outcome (option N) :=
    t <- g_type m ;;
    Ok (match t with TControlChange => Some (d1 m) | _ => None end).

  Definition g_control_value (m : M) : outcome (option N) :=
    t <- g_type m ;;
    Ok (match t with TControlChange => Some (d2 m) | _ => None end).

  Definition g_program_number (m : M) : outcome (option N) :=
    t <- g_type m ;;
    Ok (match t with TProgramChange => Some (d1 m) | _ => None end).

  Definition g_pressure_amount (m : M) : outcome (option N) :=
    t <- g_type m ;;
    Ok (match t with
        | TPolyphonicKeyPressure => Some (d2 m)
        | TChannelPressure => Some (d1 m)
        | _ => None
        end).

  Definition g_pitch_bend_value (m : M) : outcome (option N) :=
    t <- g_type m ;;
    Ok (match t with TPitchBendChange => Some (build_14 (d2 m) (d1 m)) | _ => None end).
End Impl.

(** The default [to_structured] goes through [to_bytes] and
    [StructuredShortMessage::from_bytes_unchecked]. *)
Definition g_to_structured_default {M} (tb : M -> bytes) (m : M) : outcome structured :=
  struct_of_bytes (tb m).

(** * RawShortMessage: stores the tuple verbatim. *)
Definition raw_sb (b : bytes) : N := fst (fst b).
Definition raw_d1 (b : bytes) : N := snd (fst b).
Definition raw_d2 (b : bytes) : N := snd b.
Definition raw_tb (b : bytes) : bytes := g_to_bytes_default bytes raw_sb raw_d1 raw_d2 b.
Definition raw_ts (b : bytes) : outcome structured := g_to_structured_default raw_tb b.

(** StructuredShortMessage as an implementor *)
Definition struct_tb (m : structured) : bytes :=
  g_to_bytes_default structured struct_sb struct_d1 struct_d2 m.
Definition struct_ts (m : structured) : outcome structured := Ok m.

(** * ShortMessageFactory::from_bytes (parametric in from_bytes_unchecked) *)
Definition from_bytes {M} (fbu : bytes -> outcome M) (b : bytes) : outcome (option M) :=
  match extract_type (fst (fst b)) with
  | None => Ok None
  | Some _ => omap Some (fbu b)
  end.

Definition raw_fbu (b : bytes) : outcome bytes := Ok b.
Definition struct_fbu (b : bytes) : outcome structured := struct_of_bytes b.

(** to_other / from_other *)
Definition to_other {M O} (tb : M -> bytes) (fbu : bytes -> outcome O) (m : M) : outcome O :=
  fbu (tb m).

(** * validity *)
Definition valid3 (b : bytes) : bool :=
  let '(s, a, c) := b in N.leb 128 s && N.ltb s 256 && N.ltb a 128 && N.ltb c 128.

Definition tcqf_wf (f : tcqf) : bool :=
  match f with
  | FrameCountLsNibble v | FrameCountMsNibble v | SecondsCountLsNibble v
  | SecondsCountMsNibble v | MinutesCountLsNibble v | MinutesCountMsNibble v
  | HoursCountLsNibble v => N.ltb v 16
  | TcLast _ _ => true
  end.

Definition struct_wf (m : structured) : bool :=
  match m with
  | SNoteOff ch a b | SNoteOn ch a b | SPolyphonicKeyPressure ch a b | SControlChange ch a b =>
      N.ltb ch 16 && N.ltb a 128 && N.ltb b 128
  | SProgramChange ch a | SChannelPressure ch a => N.ltb ch 16 && N.ltb a 128
  | SPitchBendChange ch v => N.ltb ch 16 && N.ltb v 16384
  | STimeCodeQuarterFrame f => tcqf_wf f
  | SSongPositionPointer p => N.ltb p 16384
  | SSongSelect n => N.ltb n 128
  | _ => true
  end.
