(** Model of the serde Deserialize / Serialize impls of the crate's public types, over a
    JSON-like value model mirroring [serde_json::Value] used as a deserializer.

    How a type obtains its impls (plain derive, [serde(try_from = ...)], serde_repr) is *data*:
    the shape strings of Generated/SerdeShapes.v are passed in, so dropping or adding a
    [try_from] in the source changes this model.  serde / serde_derive / serde_json semantics are
    modelled, not verified (trusted base); they are tied by the correspondence check.
    Definitions only. *)
From Coq Require Import String Ascii.
From Verif Require Import Base.Prelude Model.ShortMsg Model.CC14 Model.Nrpn.
Open Scope Z_scope.
Open Scope string_scope.

Inductive jval : Type :=
| JNull
| JBool (b : bool)
| JInt (z : Z)
| JStr (s : list N)
| JArr (l : list jval)
| JObj (l : list (list N * jval)).

Definition codes (s : string) : list N := map N_of_ascii (list_ascii_of_string s).

Fixpoint codes_eqb (a b : list N) : bool :=
  match a, b with
  | [], [] => true
  | x :: a', y :: b' => N.eqb x y && codes_eqb a' b'
  | _, _ => false
  end.

(** * primitives: the integer visitors accept any JSON integer in the primitive's range *)
Definition de_int (lo hi : Z) (v : jval) : option Z :=
  match v with JInt z => if Z.leb lo z && Z.leb z hi then Some z else None | _ => None end.
Definition de_u8 := de_int 0 255.
Definition de_u16 := de_int 0 65535.
Definition de_bool (v : jval) : option bool := match v with JBool b => Some b | _ => None end.

(** * Shapes.  How a type obtains Deserialize, as far as the translator can tell from the source:
    "derive" -- a plain derive: the fields are deserialized and stored, nothing is validated;
    anything else ("try_from:<T>", "custom" = a hand-written impl, "unknown" = not recognised,
    "repr") -- modelled as *validating*, which is what the property demands; whether the
    implementation really validates is then a matter for the correspondence check, which feeds
    invalid representations of every kind. *)

(** * restricted integers.  validating: deserialize a u16, then the checked TryFrom;
    shape "derive": the transparent newtype derive over the representation (no range check) *)
Definition de_nt (shape : string) (repr_max : Z) (max : N) (v : jval) : option N :=
  if String.eqb shape "derive" then option_map Z.to_N (de_int 0 repr_max v)
  else
    match de_u16 v with
    | Some z => if Z.leb z (Z.of_N max) then Some (Z.to_N z) else None
    | None => None
    end.

(** * structs with named fields: a map (unknown keys ignored, every field exactly once) or a
    sequence of exactly the right length *)
Fixpoint count_key (k : list N) (l : list (list N * jval)) : nat :=
  match l with
  | [] => O
  | (k', _) :: t => (if codes_eqb k k' then 1 else 0)%nat + count_key k t
  end.

Fixpoint find_key (k : list N) (l : list (list N * jval)) : option jval :=
  match l with
  | [] => None
  | (k', v) :: t => if codes_eqb k k' then Some v else find_key k t
  end.

(** the values of the named fields, in declaration order *)
Definition struct_fields_gen (allow_seq : bool) (names : list string) (v : jval)
  : option (list jval) :=
  match v with
  | JObj l =>
      (fix go (ns : list string) : option (list jval) :=
         match ns with
         | [] => Some []
         | n :: ns' =>
             if Nat.eqb (count_key (codes n) l) 1 then
               match find_key (codes n) l, go ns' with
               | Some x, Some r => Some (x :: r)
               | _, _ => None
               end
             else None
         end) names
  | JArr l => if allow_seq && Nat.eqb (length l) (length names) then Some l else None
  | _ => None
  end.

(** a top-level struct accepts a map or a sequence; the content of a struct *variant* must be a
    map (serde_json's value deserializer) *)
Definition struct_fields := struct_fields_gen true.
Definition variant_fields := struct_fields_gen false.

(** * externally tagged enums: "Name" (unit variants only) or {"Name": content} (one entry) *)
Definition enum_variant (v : jval) : option (list N * option jval) :=
  match v with
  | JStr s => Some (s, None)
  | JObj [(k, c)] => Some (k, Some c)
  | _ => None
  end.

Definition unit_content (c : option jval) : bool :=
  match c with None => true | Some JNull => true | _ => false end.

Section Types.
  (** the deserializer of each restricted integer type (instantiated from the tables) *)
  Variables (de_u4 de_u7 de_u14 de_channel de_key de_cn : jval -> option N).
  (** shapes of the composite types *)
  Variables (shape_raw shape_cc14 shape_pn shape_smt : string).

  Definition de_tct (v : jval) : option tctype :=
    match enum_variant v with
    | Some (n, c) =>
        if negb (unit_content c) then None
        else if codes_eqb n (codes "Fps24") then Some Fps24
        else if codes_eqb n (codes "Fps25") then Some Fps25
        else if codes_eqb n (codes "Fps30DropFrame") then Some Fps30DropFrame
        else if codes_eqb n (codes "Fps30NonDrop") then Some Fps30NonDrop
        else None
    | None => None
    end.

  Definition de_datatype (v : jval) : option datatype :=
    match enum_variant v with
    | Some (n, c) =>
        if negb (unit_content c) then None
        else if codes_eqb n (codes "DataEntry") then Some DataEntry
        else if codes_eqb n (codes "DataIncrement") then Some DataIncrement
        else if codes_eqb n (codes "DataDecrement") then Some DataDecrement
        else None
    | None => None
    end.

  Definition de_smt (v : jval) : option smtype :=
    (* serde_repr, or any other way of obtaining the documented representation (the status byte
       as an integer, checked): everything but a plain derive, whose representation -- variant
       names -- is another one *)
    if String.eqb shape_smt "derive" then None
    else match de_u8 v with Some z => smt_of_code (Z.to_N z) | None => None end.

  Definition de_tcqf (v : jval) : option tcqf :=
    match enum_variant v with
    | Some (n, Some c) =>
        let nib := fun mk : N -> tcqf => option_map mk (de_u4 c) in
        if codes_eqb n (codes "FrameCountLsNibble") then nib FrameCountLsNibble
        else if codes_eqb n (codes "FrameCountMsNibble") then nib FrameCountMsNibble
        else if codes_eqb n (codes "SecondsCountLsNibble") then nib SecondsCountLsNibble
        else if codes_eqb n (codes "SecondsCountMsNibble") then nib SecondsCountMsNibble
        else if codes_eqb n (codes "MinutesCountLsNibble") then nib MinutesCountLsNibble
        else if codes_eqb n (codes "MinutesCountMsNibble") then nib MinutesCountMsNibble
        else if codes_eqb n (codes "HoursCountLsNibble") then nib HoursCountLsNibble
        else if codes_eqb n (codes "Last") then
          match variant_fields ["hours_count_ms_bit"; "time_code_type"]%string c with
          | Some [b; t] =>
              match de_bool b, de_tct t with
              | Some b', Some t' => Some (TcLast b' t')
              | _, _ => None
              end
          | _ => None
          end
        else None
    | _ => None
    end.

  Definition de3 (names : list string) (d1 d2 d3 : jval -> option N) (mk : N -> N -> N -> structured)
    (c : jval) : option structured :=
    match variant_fields names c with
    | Some [a; b; x] =>
        match d1 a, d2 b, d3 x with
        | Some a', Some b', Some x' => Some (mk a' b' x')
        | _, _, _ => None
        end
    | _ => None
    end.

  Definition de2 (names : list string) (d1 d2 : jval -> option N) (mk : N -> N -> structured)
    (c : jval) : option structured :=
    match variant_fields names c with
    | Some [a; b] =>
        match d1 a, d2 b with
        | Some a', Some b' => Some (mk a' b')
        | _, _ => None
        end
    | _ => None
    end.

  Definition de1 (name : string) (d1 : jval -> option N) (mk : N -> structured) (c : jval)
    : option structured :=
    match variant_fields [name] c with
    | Some [a] => option_map mk (d1 a)
    | _ => None
    end.

  Definition unit_variants : list (string * structured) :=
    [("SystemExclusiveStart", SSystemExclusiveStart); ("TuneRequest", STuneRequest);
     ("SystemExclusiveEnd", SSystemExclusiveEnd); ("TimingClock", STimingClock);
     ("Start", SStart); ("Continue", SContinue); ("Stop", SStop);
     ("ActiveSensing", SActiveSensing); ("SystemReset", SSystemReset);
     ("SystemCommonUndefined1", SSystemCommonUndefined1);
     ("SystemCommonUndefined2", SSystemCommonUndefined2);
     ("SystemRealTimeUndefined1", SSystemRealTimeUndefined1);
     ("SystemRealTimeUndefined2", SSystemRealTimeUndefined2)]%string.

  Fixpoint find_unit (n : list N) (l : list (string * structured)) : option structured :=
    match l with
    | [] => None
    | (k, m) :: t => if codes_eqb n (codes k) then Some m else find_unit n t
    end.

  Definition de_structured (v : jval) : option structured :=
    match enum_variant v with
    | Some (n, c) =>
        match find_unit n unit_variants with
        | Some m => if unit_content c then Some m else None
        | None =>
            match c with
            | None => None
            | Some c =>
                if codes_eqb n (codes "NoteOff") then
                  de3 ["channel"; "key_number"; "velocity"]%string de_channel de_key de_u7 SNoteOff c
                else if codes_eqb n (codes "NoteOn") then
                  de3 ["channel"; "key_number"; "velocity"]%string de_channel de_key de_u7 SNoteOn c
                else if codes_eqb n (codes "PolyphonicKeyPressure") then
                  de3 ["channel"; "key_number"; "pressure_amount"]%string de_channel de_key de_u7
                      SPolyphonicKeyPressure c
                else if codes_eqb n (codes "ControlChange") then
                  de3 ["channel"; "controller_number"; "control_value"]%string de_channel de_cn de_u7
                      SControlChange c
                else if codes_eqb n (codes "ProgramChange") then
                  de2 ["channel"; "program_number"]%string de_channel de_u7 SProgramChange c
                else if codes_eqb n (codes "ChannelPressure") then
                  de2 ["channel"; "pressure_amount"]%string de_channel de_u7 SChannelPressure c
                else if codes_eqb n (codes "PitchBendChange") then
                  de2 ["channel"; "pitch_bend_value"]%string de_channel de_u14 SPitchBendChange c
                else if codes_eqb n (codes "TimeCodeQuarterFrame") then
                  option_map STimeCodeQuarterFrame (de_tcqf c)
                else if codes_eqb n (codes "SongPositionPointer") then
                  de1 "position" de_u14 SSongPositionPointer c
                else if codes_eqb n (codes "SongSelect") then
                  de1 "song_number" de_u7 SSongSelect c
                else None
            end
        end
    | None => None
    end.

  (** RawShortMessage((u8, U7, U7)): a 3-element sequence.  With [try_from = "(u8,U7,U7)"] the
      checked TryFrom (from_bytes) additionally rejects status bytes below 0x80. *)
  Definition de_raw (v : jval) : option bytes :=
    match v with
    | JArr [s; a; b] =>
        match de_u8 s, de_u7 a, de_u7 b with
        | Some s', Some a', Some b' =>
            let st := Z.to_N s' in
            if String.eqb shape_raw "derive" then Some (st, a', b')
            else match extract_type st with Some _ => Some (st, a', b') | None => None end
        | _, _, _ => None
        end
    | _ => None
    end.

  (** ControlChange14BitMessage { channel, msb_controller_number, value }.  With a validating
      [try_from] the constructor's condition (MSB controller number <= 31) is enforced. *)
  Definition de_cc14 (v : jval) : option cc14msg :=
    match struct_fields ["channel"; "msb_controller_number"; "value"]%string v with
    | Some [c; n; x] =>
        match de_channel c, de_cn n, de_u14 x with
        | Some c', Some n', Some x' =>
            if String.eqb shape_cc14 "derive" then Some (mkCC14 c' n' x')
            else match cc14_new c' n' x' with Ok m => Some m | Panic => None end
        | _, _, _ => None
        end
    | _ => None
    end.

  Definition pn_consistent (m : pnmsg) : bool :=
    if pn_is_14_bit m then datatype_eqb (pn_data_type m) DataEntry
    else N.ltb (pn_value m) 128.

  Definition de_pn (v : jval) : option pnmsg :=
    match struct_fields ["channel"; "number"; "value"; "is_registered"; "is_14_bit"; "data_type"]%string v with
    | Some [c; n; x; r; w; d] =>
        match de_channel c, de_u14 n, de_u14 x, de_bool r, de_bool w, de_datatype d with
        | Some c', Some n', Some x', Some r', Some w', Some d' =>
            let m := mkPN c' n' x' r' w' d' in
            if String.eqb shape_pn "derive" then Some m
            else if pn_consistent m then Some m else None
        | _, _, _, _, _, _ => None
        end
    | _ => None
    end.

  (** * Serialize: the natural representation *)
  Definition jn (n : N) : jval := JInt (Z.of_N n).
  Definition jobj (l : list (string * jval)) : jval := JObj (map (fun p => (codes (fst p), snd p)) l).
  Definition jvar (name : string) (c : jval) : jval := JObj [(codes name, c)].

  Definition ser_tct (t : tctype) : jval :=
    JStr (codes (match t with Fps24 => "Fps24" | Fps25 => "Fps25"
                         | Fps30DropFrame => "Fps30DropFrame" | Fps30NonDrop => "Fps30NonDrop" end)).
  Definition ser_datatype (d : datatype) : jval :=
    JStr (codes (match d with DataEntry => "DataEntry" | DataIncrement => "DataIncrement"
                         | DataDecrement => "DataDecrement" end)).
  Definition ser_tcqf (f : tcqf) : jval :=
    match f with
    | FrameCountLsNibble v => jvar "FrameCountLsNibble" (jn v)
    | FrameCountMsNibble v => jvar "FrameCountMsNibble" (jn v)
    | SecondsCountLsNibble v => jvar "SecondsCountLsNibble" (jn v)
    | SecondsCountMsNibble v => jvar "SecondsCountMsNibble" (jn v)
    | MinutesCountLsNibble v => jvar "MinutesCountLsNibble" (jn v)
    | MinutesCountMsNibble v => jvar "MinutesCountMsNibble" (jn v)
    | HoursCountLsNibble v => jvar "HoursCountLsNibble" (jn v)
    | TcLast b t => jvar "Last" (jobj [("hours_count_ms_bit", JBool b); ("time_code_type", ser_tct t)])
    end.
  Definition ser_structured (m : structured) : jval :=
    match m with
    | SNoteOff c k v => jvar "NoteOff" (jobj [("channel", jn c); ("key_number", jn k); ("velocity", jn v)])
    | SNoteOn c k v => jvar "NoteOn" (jobj [("channel", jn c); ("key_number", jn k); ("velocity", jn v)])
    | SPolyphonicKeyPressure c k v =>
        jvar "PolyphonicKeyPressure" (jobj [("channel", jn c); ("key_number", jn k); ("pressure_amount", jn v)])
    | SControlChange c k v =>
        jvar "ControlChange" (jobj [("channel", jn c); ("controller_number", jn k); ("control_value", jn v)])
    | SProgramChange c p => jvar "ProgramChange" (jobj [("channel", jn c); ("program_number", jn p)])
    | SChannelPressure c p => jvar "ChannelPressure" (jobj [("channel", jn c); ("pressure_amount", jn p)])
    | SPitchBendChange c v => jvar "PitchBendChange" (jobj [("channel", jn c); ("pitch_bend_value", jn v)])
    | SSystemExclusiveStart => JStr (codes "SystemExclusiveStart")
    | STimeCodeQuarterFrame f => jvar "TimeCodeQuarterFrame" (ser_tcqf f)
    | SSongPositionPointer p => jvar "SongPositionPointer" (jobj [("position", jn p)])
    | SSongSelect n => jvar "SongSelect" (jobj [("song_number", jn n)])
    | STuneRequest => JStr (codes "TuneRequest")
    | SSystemExclusiveEnd => JStr (codes "SystemExclusiveEnd")
    | STimingClock => JStr (codes "TimingClock")
    | SStart => JStr (codes "Start")
    | SContinue => JStr (codes "Continue")
    | SStop => JStr (codes "Stop")
    | SActiveSensing => JStr (codes "ActiveSensing")
    | SSystemReset => JStr (codes "SystemReset")
    | SSystemCommonUndefined1 => JStr (codes "SystemCommonUndefined1")
    | SSystemCommonUndefined2 => JStr (codes "SystemCommonUndefined2")
    | SSystemRealTimeUndefined1 => JStr (codes "SystemRealTimeUndefined1")
    | SSystemRealTimeUndefined2 => JStr (codes "SystemRealTimeUndefined2")
    end.
  Definition ser_raw (b : bytes) : jval := let '(s, a, c) := b in JArr [jn s; jn a; jn c].
  Definition ser_cc14 (m : cc14msg) : jval :=
    jobj [("channel", jn (cc_channel m)); ("msb_controller_number", jn (cc_msb_cn m));
          ("value", jn (cc_value m))].
  Definition ser_pn (m : pnmsg) : jval :=
    jobj [("channel", jn (pn_channel m)); ("number", jn (pn_number m)); ("value", jn (pn_value m));
          ("is_registered", JBool (pn_is_registered m)); ("is_14_bit", JBool (pn_is_14_bit m));
          ("data_type", ser_datatype (pn_data_type m))].
End Types.

(** names used to look types up in the regenerated tables *)
Definition nt_shape_name := "newtype".
Definition name_U4 := "U4".
Definition name_U7 := "U7".
Definition name_U14 := "U14".
Definition name_Channel := "Channel".
Definition name_KeyNumber := "KeyNumber".
Definition name_ControllerNumber := "ControllerNumber".
Definition name_RawShortMessage := "RawShortMessage".
Definition name_ControlChange14BitMessage := "ControlChange14BitMessage".
Definition name_ParameterNumberMessage := "ParameterNumberMessage".
Definition name_ShortMessageType := "ShortMessageType".
