(** Model of src/newtype_macros.rs: the restricted integer types, the conversion macros,
    the checked constructor [new] (per feature configuration), FromStr and Display.
    The *instances* (which types, which conversions, which cfg guards) are data: the tables of
    Generated/NewtypeTables.v, regenerated from the source on every run, are passed in as
    arguments here so that this file does not depend on them.  Definitions only. *)
From Coq Require Import String.
From Verif Require Import Base.Prelude Base.Cfg.
Open Scope Z_scope.
Open Scope string_scope.

(** primitive integer types: inclusive range ([usize]/[isize] are 64-bit: trusted-base item) *)
Definition prim_range (p : string) : option (Z * Z) :=
  if String.eqb p "u8" then Some (0, 255)
  else if String.eqb p "u16" then Some (0, 65535)
  else if String.eqb p "u32" then Some (0, 4294967295)
  else if String.eqb p "u64" then Some (0, 18446744073709551615)
  else if String.eqb p "usize" then Some (0, 18446744073709551615)
  else if String.eqb p "u128" then Some (0, 340282366920938463463374607431768211455)
  else if String.eqb p "i8" then Some (-128, 127)
  else if String.eqb p "i16" then Some (-32768, 32767)
  else if String.eqb p "i32" then Some (-2147483648, 2147483647)
  else if String.eqb p "i64" then Some (-9223372036854775808, 9223372036854775807)
  else if String.eqb p "isize" then Some (-9223372036854775808, 9223372036854775807)
  else if String.eqb p "i128" then
    Some (-170141183460469231731687303715884105728, 170141183460469231731687303715884105727)
  else None.

(** Rust's [as] cast between integer types: wrap into the target's range *)
Definition wrap (r : Z * Z) (z : Z) : Z :=
  let '(lo, hi) := r in ((z - lo) mod (hi - lo + 1)) + lo.

(** features the std harness build enables in addition to the crate's defaults *)
Definition serde_features : list string := ["serde"; "serde_repr"].

(** the numeric types in the order of the harness's conversion grid (harness/src/probe.rs) *)
Definition grid_types : list string :=
  ["U4"; "U7"; "U14"; "Channel"; "KeyNumber"; "ControllerNumber";
   "u8"; "u16"; "u32"; "u64"; "u128"; "usize"; "i8"; "i16"; "i32"; "i64"; "i128"; "isize"].

Definition newtypes := list (string * string * N).

Fixpoint nt_lookup (defs : newtypes) (name : string) : option (string * N) :=
  match defs with
  | [] => None
  | (n, r, m) :: t => if String.eqb n name then Some (r, m) else nt_lookup t name
  end.

(** value range of a type name (newtype or primitive) and the primitive that represents it *)
Definition type_range (defs : newtypes) (name : string) : option (Z * Z) :=
  match nt_lookup defs name with
  | Some (_, m) => Some (0, Z.of_N m)
  | None => prim_range name
  end.

Definition repr_range (defs : newtypes) (name : string) : option (Z * Z) :=
  match nt_lookup defs name with
  | Some (r, _) => prim_range r
  | None => prim_range name
  end.

(** result of applying a conversion to the source value [x]:
    [None] = the table entry is malformed; [Some None] = Err; [Some (Some v)] = Ok / infallible *)
Definition conv_apply (defs : newtypes) (e : conv_kind * string * string) (x : Z)
  : option (option Z) :=
  let '(k, src, dst) := e in
  match repr_range defs dst, type_range defs dst with
  | Some rr, Some (_, dmax) =>
      match k with
      | CFrom =>
          (* the infallible macros: [$dst(value as $repr)] / [value.0 as $dst] -- an [as] cast *)
          Some (Some (wrap rr x))
      | CTry =>
          (* the fallible macros: is_valid (0 <= number && number <= max, compared in the source's
             type), then the cast.  (The signed-source variant rejects negatives only and relies
             on the source's non-negative range fitting; on such pairs the two coincide, on any
             other pair the correspondence check shows the difference.) *)
          if Z.leb 0 x && Z.leb x dmax then Some (Some (wrap rr x)) else Some None
      end
  | _, _ => None
  end.

(** the checked constructor: [assert!(is_valid(value))] is compiled in iff one of the cfg guards
    holds in the feature configuration *)
Definition new_checked (guards : list cfgexpr) (enabled : list string) : bool :=
  existsb (cfg_eval enabled) guards.

Definition nt_new (guards : list cfgexpr) (enabled : list string) (max : N) (v : N) : outcome N :=
  if new_checked guards enabled && negb (N.leb v max) then Panic else Ok v.

(** * FromStr: the primitive's [from_str] (optional '+', at least one ASCII digit, overflow is
    an error), then the range check.  Strings are lists of character codes. *)
Fixpoint parse_digits (l : list N) (acc : Z) : option Z :=
  match l with
  | [] => Some acc
  | c :: t =>
      if N.leb 48 c && N.leb c 57 then parse_digits t (10 * acc + Z.of_N (c - 48)) else None
  end.

Definition parse_prim (pmax : Z) (s : list N) : option Z :=
  let digits := match s with 43%N :: t => t | _ => s end in
  match digits with
  | [] => None
  | _ =>
      match parse_digits digits 0 with
      | Some v => if Z.leb v pmax then Some v else None
      | None => None
      end
  end.

Definition nt_from_str (pmax : Z) (max : N) (s : list N) : option N :=
  match parse_prim pmax s with
  | Some v => if Z.leb v (Z.of_N max) then Some (Z.to_N v) else None
  | None => None
  end.

(** * Display: the decimal value *)
Fixpoint show_digits (fuel : nat) (v : N) (acc : list N) : list N :=
  match fuel with
  | O => acc
  | S f =>
      let acc' := (48 + v mod 10)%N :: acc in
      if N.ltb v 10 then acc' else show_digits f (v / 10)%N acc'
  end.

Definition show (v : N) : list N := show_digits 40 v [].
