(** Model of src/polling_parameter_number_message_scanner.rs.  Time is explicit: every
    operation takes [now] (nanoseconds of a monotone clock); [Instant::elapsed] is the
    saturating difference.  Definitions only. *)
From Verif Require Import Base.Prelude Model.ShortMsg Model.PerChannel Model.CC14 Model.Nrpn.

Record numst : Type := mkNum { ns_msb : N; ns_lsb : N; ns_reg : bool }.

Inductive pstate : Type :=
| PWaitNum (first_number_byte : option N) (is_registered is_msb : bool)
| PWaitVal (ns : numst)
| PPending (ns : numst) (arrival : N) (first_value_byte : N) (is_msb : bool)
| PComplete (ns : numst) (value_msb value_lsb : N).

Record pollst : Type := mkPoll { p_timeout : N; p_state : pstate }.

Definition pstate_default : pstate := PWaitNum None false false.
Definition pollst_new (timeout : N) : pollst := mkPoll timeout pstate_default.

Definition ns_number (ns : numst) : N := build_14 (ns_msb ns) (ns_lsb ns).

(** ValuePendingState::resolve *)
Definition resolve (channel : N) (ns : numst) (first : N) (is_msb : bool) : option pnmsg :=
  if is_msb then Some (pn_seven_bit channel (ns_number ns) first (ns_reg ns) DataEntry)
  else None.

Definition out2 : Type := (option pnmsg * option pnmsg)%type.

Definition with_state (st : pollst) (s : pstate) : pollst := mkPoll (p_timeout st) s.

(** process_number_byte *)
Definition poll_number_byte (st : pollst) (byte : N) (is_registered is_msb : bool) (channel : N)
  : pollst * option pnmsg :=
  match p_state st with
  | PWaitNum first sreg smsb =>
      match first with
      | Some state_byte =>
          if Bool.eqb smsb is_msb then
            (with_state st (PWaitNum (Some byte) is_registered is_msb), None)
          else
            (with_state st
               (PWaitVal (mkNum (if smsb then state_byte else byte)
                                (if smsb then byte else state_byte)
                                is_registered)), None)
      | None => (with_state st (PWaitNum (Some byte) is_registered is_msb), None)
      end
  | PWaitVal ns | PComplete ns _ _ =>
      (with_state st
         (PWaitVal (mkNum (if is_msb then byte else ns_msb ns)
                          (if is_msb then ns_lsb ns else byte)
                          is_registered)), None)
  | PPending ns _ first fmsb =>
      (with_state st
         (PWaitVal (mkNum (if is_msb then byte else ns_msb ns)
                          (if is_msb then ns_lsb ns else byte)
                          is_registered)),
       resolve channel ns first fmsb)
  end.

(** process_expected_value_byte_when_pending *)
Definition expected_value_byte (st : pollst) (channel : N) (ns : numst) (first : N)
  (fmsb : bool) (byte : N) : pollst * option pnmsg :=
  let value_msb := if fmsb then first else byte in
  let value_lsb := if fmsb then byte else first in
  (with_state st (PComplete ns value_msb value_lsb),
   Some (pn_fourteen_bit channel (ns_number ns) (build_14 value_msb value_lsb) (ns_reg ns))).

Definition poll_value_lsb (now : N) (st : pollst) (channel value_lsb : N)
  : pollst * option pnmsg :=
  match p_state st with
  | PWaitNum _ _ _ => (st, None)
  | PWaitVal ns => (with_state st (PPending ns now value_lsb false), None)
  | PPending ns _ first fmsb =>
      if fmsb then expected_value_byte st channel ns first fmsb value_lsb
      else (with_state st (PWaitVal ns), None)
  | PComplete ns vmsb _ =>
      (with_state st (PComplete ns vmsb value_lsb),
       Some (pn_fourteen_bit channel (ns_number ns) (build_14 vmsb value_lsb) (ns_reg ns)))
  end.

Definition poll_value_msb (now : N) (st : pollst) (channel value_msb : N)
  : pollst * option pnmsg :=
  match p_state st with
  | PWaitNum _ _ _ => (st, None)
  | PWaitVal ns => (with_state st (PPending ns now value_msb true), None)
  | PPending ns _ first fmsb =>
      if fmsb then
        (with_state st (PPending ns now value_msb true),
         Some (pn_seven_bit channel (ns_number ns) first (ns_reg ns) DataEntry))
      else expected_value_byte st channel ns first fmsb value_msb
  | PComplete ns _ _ => (with_state st (PPending ns now value_msb true), None)
  end.

Definition poll_value_inc_dec (st : pollst) (channel : N) (dt : datatype) (value : N)
  : pollst * out2 :=
  match p_state st with
  | PWaitNum _ _ _ => (st, (None, None))
  | PWaitVal ns =>
      (with_state st (PWaitVal ns),
       (Some (pn_seven_bit channel (ns_number ns) value (ns_reg ns) dt), None))
  | PPending ns _ first fmsb =>
      if fmsb then
        (with_state st (PWaitVal ns),
         (Some (pn_seven_bit channel (ns_number ns) first (ns_reg ns) DataEntry),
          Some (pn_seven_bit channel (ns_number ns) value (ns_reg ns) dt)))
      else (with_state st (PWaitVal ns), (None, None))
  | PComplete ns _ _ =>
      (with_state st (PWaitVal ns),
       (Some (pn_seven_bit channel (ns_number ns) value (ns_reg ns) dt), None))
  end.

Definition one (r : pollst * option pnmsg) : pollst * out2 := (fst r, (snd r, None)).

(** ScannerForOneChannel::feed *)
Definition poll_feed1_core (now : N) (st : pollst) (m : structured) : pollst * out2 :=
  match m with
  | SControlChange channel cn v =>
      match cn with
      | 98 => one (poll_number_byte st v false false channel)
      | 99 => one (poll_number_byte st v false true channel)
      | 100 => one (poll_number_byte st v true false channel)
      | 101 => one (poll_number_byte st v true true channel)
      | 38 => one (poll_value_lsb now st channel v)
      | 6 => one (poll_value_msb now st channel v)
      | 96 => poll_value_inc_dec st channel DataIncrement v
      | 97 => poll_value_inc_dec st channel DataDecrement v
      | _ => (st, (None, None))
      end
  | _ => (st, (None, None))
  end.

Definition poll_feed1 (now : N) (st : pollst) (m : structured) : outcome (pollst * out2) :=
  Ok (poll_feed1_core now st m).

(** ScannerForOneChannel::poll *)
Definition poll_poll1 (now : N) (st : pollst) (channel : N) : pollst * option pnmsg :=
  match p_state st with
  | PPending ns arrival first fmsb =>
      if N.ltb (now - arrival) (p_timeout st) then (st, None)
      else (with_state st (PWaitVal ns), resolve channel ns first fmsb)
  | _ => (st, None)
  end.

Definition poll_reset1 (st : pollst) : pollst := with_state st pstate_default.

(** * PollingParameterNumberMessageScanner *)
Definition poll_scanner := list pollst.
Definition poll_new_scanner (timeout : N) : poll_scanner := replicate 16 (pollst_new timeout).

Definition poll_feed (now : N) : poll_scanner -> bytes -> outcome (poll_scanner * out2) :=
  feed_multi pollst out2 (poll_feed1 now) (None, None).

Definition poll_poll (now : N) (s : poll_scanner) (channel : N)
  : outcome (poll_scanner * option pnmsg) :=
  match nth_error s (N.to_nat channel) with
  | None => Panic
  | Some st =>
      let r := poll_poll1 now st channel in
      Ok (upd s (N.to_nat channel) (fst r), snd r)
  end.

Definition poll_reset : poll_scanner -> poll_scanner := reset_multi pollst poll_reset1.

(** operations of a history: [sop] of Model/PerChannel.v; [OTick dt] advances the clock *)
Definition pollop := sop.

(** outputs of one operation (feed: two slots; poll: first slot; others: nothing) *)
Definition poll_step (now : N) (s : poll_scanner) (o : pollop)
  : outcome (N * poll_scanner * out2) :=
  match o with
  | OFeed b => r <- poll_feed now s b ;; Ok (now, fst r, snd r)
  | OPoll c => r <- poll_poll now s c ;; Ok (now, fst r, (snd r, None))
  | OReset => Ok (now, poll_reset s, (None, None))
  | OTick dt => Ok (now + dt, s, (None, None))
  end.

Fixpoint poll_run (now : N) (s : poll_scanner) (h : list pollop)
  : outcome (N * poll_scanner * list out2) :=
  match h with
  | [] => Ok (now, s, [])
  | o :: h' =>
      r <- poll_step now s o ;;
      let '(now1, s1, out) := r in
      r' <- poll_run now1 s1 h' ;;
      let '(now2, s2, outs) := r' in
      Ok (now2, s2, out :: outs)
  end.
