(** Generic theory of the 16-channel product used by all three scanners.

    Layer L1: for valid messages the model's [feed_multi] (shifts, [outcome], structured
    messages) equals an *arithmetic machine* [gstep] that looks the channel up in the MIDI table
    and hands the Control-Change view of the message to a one-channel transition function.
    Layer L2 (this file): channel isolation (C15), transparency of non-contributing messages
    (C16) and reset-is-new (C17) are proved once for [gstep], for any one-channel machine. *)
From Verif Require Import Base.Prelude Base.Sweep Model.ShortMsg Model.PerChannel
  Spec.MidiTable Spec.ScannerSpec Proofs.BitFacts Proofs.ShortMsgFacts.

Section Generic.
  Variables (St Out : Type).
  (** one-channel transition on the Control-Change view [(channel, controller, value)] *)
  Variable f1v : N -> St -> option (N * N * N) -> St * Out.
  Variable poll1 : N -> St -> N -> St * Out.
  Variable reset1 : St -> St.
  Variable none : Out.

  Definition sop_valid (o : sop) : bool :=
    match o with
    | OFeed b => valid3 b
    | OPoll c => N.ltb c 16
    | OReset | OTick _ => true
    end.

  (** the arithmetic 16-channel machine *)
  Definition gstep (now : N) (s : list St) (o : sop) : N * list St * Out :=
    match o with
    | OFeed b =>
        match channel_table (fst (fst b)) with
        | None => (now, s, none)
        | Some c =>
            match nth_error s (N.to_nat c) with
            | Some st =>
                let r := f1v now st (as_cc b) in (now, upd s (N.to_nat c) (fst r), snd r)
            | None => (now, s, none)
            end
        end
    | OPoll c =>
        match nth_error s (N.to_nat c) with
        | Some st => let r := poll1 now st c in (now, upd s (N.to_nat c) (fst r), snd r)
        | None => (now, s, none)
        end
    | OReset => (now, map reset1 s, none)
    | OTick dt => (now + dt, s, none)
    end.

  Fixpoint grun (now : N) (s : list St) (h : list sop) : N * list St * list Out :=
    match h with
    | [] => (now, s, [])
    | o :: h' =>
        let '(now1, s1, out) := gstep now s o in
        let '(now2, s2, outs) := grun now1 s1 h' in
        (now2, s2, out :: outs)
    end.

  (** the one-channel machine that sees only channel [c]'s inputs *)
  Definition step1 (c : N) (now : N) (st : St) (o : sop) : N * St * Out :=
    match o with
    | OFeed b => let r := f1v now st (as_cc b) in (now, fst r, snd r)
    | OPoll _ => let r := poll1 now st c in (now, fst r, snd r)
    | OReset => (now, reset1 st, none)
    | OTick dt => (now + dt, st, none)
    end.

  Fixpoint run1 (c : N) (now : N) (st : St) (h : list sop) : N * St * list Out :=
    match h with
    | [] => (now, st, [])
    | o :: h' =>
        let '(now1, st1, out) := step1 c now st o in
        let '(now2, st2, outs) := run1 c now1 st1 h' in
        (now2, st2, out :: outs)
    end.

  Lemma gstep_length now s o : length (snd (fst (gstep now s o))) = length s.
  Proof.
    destruct o as [b|c| |dt]; cbn [gstep].
    - destruct (channel_table _); [|reflexivity].
      destruct (nth_error s _); cbn [fst snd]; [apply upd_length|reflexivity].
    - destruct (nth_error s _); cbn [fst snd]; [apply upd_length|reflexivity].
    - cbn [fst snd]. apply map_length.
    - reflexivity.
  Qed.

  (** one step of the product, seen from channel [c] *)
  Lemma gstep_proj c now s o st :
    c < 16 -> nth_error s (N.to_nat c) = Some st ->
    let '(now1, s1, out) := gstep now s o in
    if relevant c o then
      let '(now1', st1, out') := step1 c now st o in
      now1 = now1' /\ nth_error s1 (N.to_nat c) = Some st1 /\ out = out'
    else now1 = now /\ nth_error s1 (N.to_nat c) = Some st.
  Proof.
    intros Hc Hst. destruct o as [b|c'| |dt]; cbn [gstep relevant step1].
    - destruct (channel_table (fst (fst b))) as [c'|] eqn:E; cbn [optN_eqb].
      + destruct (N.eqb_spec c' c) as [->|Hne].
        * rewrite Hst. cbn [fst snd]. repeat split.
          apply nth_error_upd_same. apply nth_error_Some. congruence.
        * destruct (nth_error s (N.to_nat c')) as [st'|]; cbn [fst snd].
          -- split; [reflexivity|]. rewrite nth_error_upd_other by lia. exact Hst.
          -- split; [reflexivity|exact Hst].
      + split; [reflexivity|exact Hst].
    - destruct (N.eqb_spec c' c) as [->|Hne].
      + rewrite Hst. cbn [fst snd]. repeat split.
        apply nth_error_upd_same. apply nth_error_Some. congruence.
      + destruct (nth_error s (N.to_nat c')) as [st'|]; cbn [fst snd].
        * split; [reflexivity|]. rewrite nth_error_upd_other by lia. exact Hst.
        * split; [reflexivity|exact Hst].
    - repeat split. rewrite nth_error_map, Hst. reflexivity.
    - repeat split. exact Hst.
  Qed.

  (** C15 (generic): under any interleaving, what is reported at channel [c]'s operations, and
      channel [c]'s final state, are exactly those of a scanner of its own fed only the
      operations that concern [c], in the same order (and at the same times) *)
  Theorem isolation c : c < 16 -> forall h now s st,
    nth_error s (N.to_nat c) = Some st ->
    let '(now2, s2, outs) := grun now s h in
    let '(now2', st2, outs') := run1 c now st (filter (relevant c) h) in
    now2 = now2' /\ nth_error s2 (N.to_nat c) = Some st2 /\ outs_on Out c h outs = outs'.
  Proof.
    intros Hc. induction h as [|o h IH]; intros now s st Hst.
    - cbn. auto.
    - cbn [grun filter].
      pose proof (gstep_proj c now s o st Hc Hst) as Hp.
      destruct (gstep now s o) as [[now1 s1] out] eqn:Eg.
      destruct (relevant c o) eqn:Er.
      + cbn [run1]. destruct (step1 c now st o) as [[now1' st1] out'] eqn:E1.
        destruct Hp as (-> & Hst1 & ->).
        specialize (IH now1' s1 st1 Hst1).
        destruct (grun now1' s1 h) as [[now2 s2] outs].
        destruct (run1 c now1' st1 (filter (relevant c) h)) as [[now2' st2] outs'].
        destruct IH as (-> & H2 & <-). cbn [outs_on]. rewrite Er. auto.
      + destruct Hp as (-> & Hst1).
        specialize (IH now s1 st Hst1).
        destruct (grun now s1 h) as [[now2 s2] outs].
        destruct (run1 c now st (filter (relevant c) h)) as [[now2' st2] outs'].
        destruct IH as (-> & H2 & <-). cbn [outs_on]. rewrite Er. auto.
  Qed.

  (** system messages (no channel) report nothing and change nothing *)
  Lemma gstep_system now s b :
    channel_table (fst (fst b)) = None -> gstep now s (OFeed b) = (now, s, none).
  Proof. intros H. cbn [gstep]. rewrite H. reflexivity. Qed.

  (** C16 (generic): a message on which the one-channel machine stutters leaves the whole
      scanner equal and reports nothing *)
  Lemma gstep_stutter now s b :
    (forall c st, channel_table (fst (fst b)) = Some c -> nth_error s (N.to_nat c) = Some st ->
                  f1v now st (as_cc b) = (st, none)) ->
    gstep now s (OFeed b) = (now, s, none).
  Proof.
    intros H. cbn [gstep]. destruct (channel_table (fst (fst b))) as [c|] eqn:E; [|reflexivity].
    destruct (nth_error s (N.to_nat c)) as [st|] eqn:En; [|reflexivity].
    rewrite (H c st eq_refl En). cbn [fst snd]. rewrite upd_same_id by exact En. reflexivity.
  Qed.

  (** C17 (generic): if resetting a channel yields the initial channel state, reset yields the
      new scanner *)
  Lemma greset_is_new now s init :
    (forall st, In st s -> reset1 st = init) ->
    gstep now s OReset = (now, replicate (length s) init, none).
  Proof.
    intros H. cbn [gstep]. f_equal. f_equal.
    induction s as [|x s IH]; [reflexivity|].
    cbn [map length replicate repeat]. rewrite (H x) by (left; reflexivity).
    f_equal. apply IH. intros st Hin. apply H. right. exact Hin.
  Qed.

  (** ** L1 bridge: the model's [feed_multi] on valid bytes is [gstep] *)
  Variable feed1 : N -> St -> structured -> outcome (St * Out).
  Variable good : St -> Prop.
  Hypothesis feed1_view :
    forall now st m, good st -> feed1 now st m = Ok (f1v now st (scc_view m)).

  Lemma feed_multi_bridge now s b :
    length s = 16%nat -> Forall good s -> valid3 b = true ->
    feed_multi St Out (feed1 now) none s b
    = Ok (snd (fst (gstep now s (OFeed b))), snd (gstep now s (OFeed b))).
  Proof.
    intros Hlen Hgood Hv. destruct b as [[s0 a] x].
    pose proof (raw_ts_view _ Hv) as (m & Hts & Hview).
    apply valid3_bounds in Hv as (H1 & H2 & Ha & Hx).
    unfold feed_multi. rewrite raw_channel_spec by assumption. cbn [obind gstep fst snd].
    destruct (channel_table s0) as [c|] eqn:Ec; [|reflexivity].
    pose proof (channel_table_lt _ _ Ec) as Hc.
    destruct (nth_error s (N.to_nat c)) as [st|] eqn:En.
    - rewrite Hts. cbn [obind]. rewrite feed1_view.
      + rewrite Hview. reflexivity.
      + rewrite Forall_forall in Hgood. apply Hgood. eapply nth_error_In. exact En.
    - exfalso. apply nth_error_None in En. lia.
  Qed.
End Generic.
