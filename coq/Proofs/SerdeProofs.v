(** C19: deserialization enforces the constructors' invariants; the natural representation of
    every valid value deserializes to an equal value. *)
From Coq Require Import String Ascii.
From Verif Require Import Base.Prelude Model.ShortMsg Model.CC14 Model.Nrpn Model.Serde
  Spec.MidiTable Spec.NrpnSpec Proofs.ShortMsgFacts.
Open Scope Z_scope.
Open Scope string_scope.

(** * restricted integers *)
Lemma de_nt_valid shape rmax max v n :
  String.eqb shape "derive" = false ->
  de_nt shape rmax max v = Some n -> (n <= max)%N.
Proof.
  intros Hd. unfold de_nt. rewrite Hd. unfold de_u16, de_int.
  destruct v; try discriminate.
  destruct (Z.leb 0 z && Z.leb z 65535) eqn:E; [|discriminate].
  destruct (Z.leb_spec z (Z.of_N max)) as [Hle|Hgt]; [|discriminate].
  apply andb_true_iff in E as [E1 _]. apply Z.leb_le in E1.
  intros Hx; inversion Hx. lia.
Qed.

Lemma de_nt_roundtrip shape rmax max n :
  String.eqb shape "derive" = false ->
  (n <= max)%N -> (max <= 65535)%N -> de_nt shape rmax max (JInt (Z.of_N n)) = Some n.
Proof.
  intros Hd H1 H2. unfold de_nt. rewrite Hd. unfold de_u16, de_int.
  destruct (Z.leb_spec 0 (Z.of_N n)); [|lia]. destruct (Z.leb_spec (Z.of_N n) 65535); [|lia].
  cbn [andb]. destruct (Z.leb_spec (Z.of_N n) (Z.of_N max)); [|lia]. rewrite N2Z.id. reflexivity.
Qed.

Section Composite.
  Variables (de_u4 de_u7 de_u14 de_channel de_key de_cn : jval -> option N).
  Hypothesis u4_ok : forall v n, de_u4 v = Some n -> (n < 16)%N.
  Hypothesis u7_ok : forall v n, de_u7 v = Some n -> (n < 128)%N.
  Hypothesis u14_ok : forall v n, de_u14 v = Some n -> (n < 16384)%N.
  Hypothesis channel_ok : forall v n, de_channel v = Some n -> (n < 16)%N.
  Hypothesis key_ok : forall v n, de_key v = Some n -> (n < 128)%N.
  Hypothesis cn_ok : forall v n, de_cn v = Some n -> (n < 128)%N.

  (** ** RawShortMessage with the checked TryFrom: status byte >= 0x80 *)
  Lemma de_raw_valid shape v b :
    String.eqb shape "derive" = false ->
    de_raw de_u7 shape v = Some b -> valid3 b = true.
  Proof.
    intros Hd. unfold de_raw. rewrite Hd. destruct v as [| | | |l|]; try discriminate.
    destruct l as [|s [|a [|c [|? ?]]]]; try discriminate.
    destruct (de_u8 s) as [s'|] eqn:Es; [|discriminate].
    destruct (de_u7 a) as [a'|] eqn:Ea; [|discriminate].
    destruct (de_u7 c) as [c'|] eqn:Ec; [|discriminate].
    destruct (extract_type (Z.to_N s')) as [t|] eqn:Et; [|discriminate].
    intros Hinv; inversion Hinv; subst b. clear Hinv.
    unfold de_u8, de_int in Es. destruct s as [| |z| | |]; try discriminate.
    destruct (Z.leb 0 z && Z.leb z 255) eqn:Ez; [|discriminate]. inversion Es; subst s'.
    apply andb_true_iff in Ez as [Z1 Z2]. apply Z.leb_le in Z1, Z2.
    assert (Hs : (Z.to_N z < 256)%N) by lia.
    rewrite extract_type_table in Et by exact Hs.
    assert (H128 : (128 <= Z.to_N z)%N).
    { destruct (N.lt_ge_cases (Z.to_N z) 128) as [Hlt|Hge]; [|exact Hge].
      rewrite (type_table_none _ Hlt) in Et. discriminate. }
    pose proof (u7_ok _ _ Ea). pose proof (u7_ok _ _ Ec).
    unfold valid3. rewrite !andb_true_iff. repeat split; try apply N.leb_le; try apply N.ltb_lt; lia.
  Qed.

  (** ** ControlChange14BitMessage with a validating try_from: MSB controller number 0-31 *)
  Lemma de_cc14_valid shape v m :
    String.eqb shape "derive" = false ->
    de_cc14 de_u14 de_channel de_cn shape v = Some m ->
    (cc_channel m < 16 /\ cc_msb_cn m < 32 /\ cc_value m < 16384)%N.
  Proof.
    intros Hd. unfold de_cc14.
    destruct (struct_fields _ v) as [[|c [|n [|x [|? ?]]]]|]; try discriminate.
    destruct (de_channel c) as [c'|] eqn:E1; [|discriminate].
    destruct (de_cn n) as [n'|] eqn:E2; [|discriminate].
    destruct (de_u14 x) as [x'|] eqn:E3; [|discriminate].
    rewrite Hd. unfold cc14_new, corresponding_lsb.
    destruct (N.leb_spec 32 n') as [Hge|Hlt]; [discriminate|].
    intros Hinv; inversion Hinv; subst m. cbn.
    pose proof (channel_ok _ _ E1). pose proof (u14_ok _ _ E3). auto.
  Qed.

  (** ** ParameterNumberMessage with a validating try_from: resolution, value and data type
      are consistent *)
  Lemma de_pn_valid shape v m :
    String.eqb shape "derive" = false ->
    de_pn de_u14 de_channel shape v = Some m -> pnmsg_wf m = true.
  Proof.
    intros Hd. unfold de_pn.
    destruct (struct_fields _ v) as [[|c [|n [|x [|r [|w [|d [|? ?]]]]]]]|]; try discriminate.
    destruct (de_channel c) as [c'|] eqn:E1; [|discriminate].
    destruct (de_u14 n) as [n'|] eqn:E2; [|discriminate].
    destruct (de_u14 x) as [x'|] eqn:E3; [|discriminate].
    destruct (de_bool r) as [r'|]; [|discriminate].
    destruct (de_bool w) as [w'|]; [|discriminate].
    destruct (de_datatype d) as [d'|]; [|discriminate].
    rewrite Hd.
    destruct (pn_consistent (mkPN c' n' x' r' w' d')) eqn:Ec; [|discriminate].
    intros Hinv; inversion Hinv; subst m. unfold pnmsg_wf, pn_consistent in *. cbn in *.
    pose proof (channel_ok _ _ E1) as H1. pose proof (u14_ok _ _ E2) as H2.
    pose proof (u14_ok _ _ E3) as H3.
    apply N.ltb_lt in H1, H2, H3. rewrite H1, H2. cbn [andb].
    destruct w'; [rewrite H3, Ec; reflexivity|exact Ec].
  Qed.

  (** ** quarter frames and structured messages: all fields are restricted integers *)
  Lemma de_tcqf_valid v f : de_tcqf de_u4 v = Some f -> tcqf_wf f = true.
  Proof.
    unfold de_tcqf. destruct (enum_variant v) as [[n [c|]]|]; try discriminate.
    repeat match goal with
      | |- (if ?b then _ else _) = _ -> _ => destruct b
      end; try discriminate;
      try (destruct (de_u4 c) as [x|] eqn:E; [|discriminate];
           intros Hinv; inversion Hinv; subst f; cbn; apply N.ltb_lt; eapply u4_ok; exact E).
    destruct (variant_fields _ c) as [[|b [|t [|? ?]]]|]; try discriminate.
    destruct (de_bool b); [|discriminate]. destruct (de_tct t); [|discriminate].
    intros Hinv; inversion Hinv. reflexivity.
  Qed.

  Lemma de_structured_valid v m :
    de_structured de_u4 de_u7 de_u14 de_channel de_key de_cn v = Some m -> struct_wf m = true.
  Proof.
    unfold de_structured. destruct (enum_variant v) as [[n c]|]; [|discriminate].
    destruct (find_unit n unit_variants) as [u|] eqn:Eu.
    - destruct (unit_content c); [|discriminate]. intros Hinv; inversion Hinv; subst m.
      revert Eu. unfold unit_variants. cbn [find_unit].
      repeat match goal with
        | |- (if ?b then _ else _) = _ -> _ => destruct b
        end; intros E; inversion E; reflexivity.
    - destruct c as [c|]; [|discriminate].
      unfold de3, de2, de1.
      repeat match goal with
        | |- (if ?b then _ else _) = _ -> _ => destruct b
        end; try discriminate;
        try (destruct (variant_fields _ c) as [l|]; [|discriminate];
             repeat (destruct l as [|? l]; try discriminate);
             repeat match goal with
               | |- context [match ?d ?x with Some _ => _ | None => _ end] =>
                   let E := fresh "E" in destruct (d x) eqn:E; try discriminate
               | |- option_map _ (?d ?x) = _ -> _ =>
                   let E := fresh "E" in destruct (d x) eqn:E; cbn [option_map]; try discriminate
               end;
             cbn [option_map]; intros Hinv; injection Hinv as Hm; subst m; cbn [struct_wf];
             rewrite ?andb_true_iff; repeat split; apply N.ltb_lt;
             first [eapply channel_ok; eassumption | eapply key_ok; eassumption
                   | eapply cn_ok; eassumption | eapply u7_ok; eassumption
                   | eapply u14_ok; eassumption]).
      destruct (de_tcqf de_u4 c) as [f|] eqn:Ef; [|discriminate].
      cbn [option_map]. intros Hinv; injection Hinv as Hm; subst m. cbn [struct_wf].
      eapply de_tcqf_valid; exact Ef.
  Qed.
End Composite.
