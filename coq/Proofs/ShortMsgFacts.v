(** Facts about the short-message model used by the scanner proofs. *)
From Verif Require Import Base.Prelude Base.Sweep Model.ShortMsg Spec.MidiTable Proofs.BitFacts.

Definition optT_eqb (a b : option smtype) : bool :=
  match a, b with
  | Some x, Some y => smt_eqb x y
  | None, None => true
  | _, _ => false
  end.

Lemma smt_eqb_eq a b : smt_eqb a b = true -> a = b.
Proof. destruct a, b; vm_compute; intros H; try reflexivity; discriminate. Qed.

Lemma optT_eqb_eq a b : optT_eqb a b = true -> a = b.
Proof.
  destruct a, b; simpl; intros H; try discriminate; auto.
  f_equal. apply smt_eqb_eq. exact H.
Qed.

(** the type is determined by the status byte as the MIDI table says (all 256 bytes) *)
Lemma extract_type_table s : s < 256 -> extract_type s = type_table s.
Proof.
  intros H.
  assert (S : forallN 256 (fun s => optT_eqb (extract_type s) (type_table s)) = true)
    by (vm_compute; reflexivity).
  apply optT_eqb_eq. exact (forallN_spec _ _ S s H).
Qed.

Lemma type_table_some s : 128 <= s -> s < 256 -> exists t, type_table s = Some t.
Proof.
  intros H1 H2.
  assert (S : forallN 256 (fun s => if N.leb 128 s then
                match type_table s with Some _ => true | None => false end else true) = true)
    by (vm_compute; reflexivity).
  pose proof (forallN_spec _ _ S s H2) as H. cbv beta in H.
  destruct (N.leb_spec 128 s); [|lia].
  destruct (type_table s) as [t|]; [eauto|discriminate].
Qed.

Lemma type_table_none s : s < 128 -> type_table s = None.
Proof. intros H. unfold type_table. destruct (N.ltb_spec s 128); [reflexivity|lia]. Qed.

Definition is_cc_type (o : option smtype) : bool :=
  match o with Some TControlChange => true | _ => false end.

Lemma type_table_cc s : s < 256 -> is_cc_type (type_table s) = N.eqb (s / 16) 11.
Proof.
  intros H.
  assert (S : forallN 256 (fun s => Bool.eqb (is_cc_type (type_table s)) (N.eqb (s / 16) 11)) = true)
    by (vm_compute; reflexivity).
  apply eqb_prop. exact (forallN_spec _ _ S s H).
Qed.

(** main category depends on the type only *)
Lemma main_category_fuzzy M (sb d1 : M -> N) m :
  g_main_category M sb d1 m = omap (fun t => fuzzy_main (smt_super t)) (g_type M sb m).
Proof.
  unfold g_main_category, g_super_type, g_type.
  destruct (extract_type (sb m)) as [t|]; [|reflexivity].
  destruct t; simpl; try reflexivity.
  destruct (is_channel_mode_cn (d1 m)); reflexivity.
Qed.

Definition chan_of_type (s : N) : option N :=
  match type_table s with
  | Some t =>
      match fuzzy_main (smt_super t) with
      | CatChannel => Some (extract_channel s)
      | CatSystem => None
      end
  | None => None
  end.

Lemma chan_of_type_table s : s < 256 -> chan_of_type s = channel_table s.
Proof.
  intros H.
  assert (S : forallN 256 (fun s => optN_eqb (chan_of_type s) (channel_table s)) = true)
    by (vm_compute; reflexivity).
  apply optN_eqb_eq. exact (forallN_spec _ _ S s H).
Qed.

Lemma valid3_bounds s a c :
  valid3 (s, a, c) = true -> 128 <= s /\ s < 256 /\ a < 128 /\ c < 128.
Proof.
  unfold valid3. intros H.
  repeat (apply andb_true_iff in H as [H ?]).
  apply N.leb_le in H. repeat match goal with X : N.ltb _ _ = true |- _ => apply N.ltb_lt in X end.
  lia.
Qed.

(** channel() of a RawShortMessage with a valid status byte *)
Lemma raw_channel_spec s a c :
  128 <= s -> s < 256 ->
  g_channel bytes raw_sb raw_d1 (s, a, c) = Ok (channel_table s).
Proof.
  intros H1 H2. unfold g_channel. rewrite main_category_fuzzy. unfold g_type.
  cbn [raw_sb fst snd]. rewrite extract_type_table by assumption.
  rewrite <- chan_of_type_table by assumption. unfold chan_of_type.
  destruct (type_table_some s H1 H2) as [t Ht]. rewrite Ht. cbn [omap obind].
  destruct (fuzzy_main (smt_super t)); reflexivity.
Qed.

Lemma channel_table_lt s c : channel_table s = Some c -> c < 16.
Proof.
  unfold channel_table. destruct (_ && _); intros H; inversion H. apply N.mod_lt. discriminate.
Qed.

(** the quarter-frame decoder never hits [unreachable!] for a 7-bit value *)
Lemma tcqf_of_u7_ok a : a < 128 -> exists f, tcqf_of_u7 a = Ok f.
Proof.
  intros H.
  assert (S : forallN 128 (fun a => is_ok (tcqf_of_u7 a)) = true) by (vm_compute; reflexivity).
  pose proof (forallN_spec _ _ S a H) as Hx. cbv beta in Hx.
  destruct (tcqf_of_u7 a); [eauto|discriminate].
Qed.

(** view of a structured message as a Control Change *)
Definition scc_view (m : structured) : option (N * N * N) :=
  match m with SControlChange ch n v => Some (ch, n, v) | _ => None end.

(** to_structured() of a valid RawShortMessage succeeds, and is a Control Change exactly when the
    bytes read (arithmetically) as one, with the same channel / controller / value *)
Lemma raw_ts_view b :
  valid3 b = true -> exists m, raw_ts b = Ok m /\ scc_view m = as_cc b.
Proof.
  destruct b as [[s a] c]. intros Hv.
  apply valid3_bounds in Hv as (H1 & H2 & Ha & Hc).
  unfold raw_ts, g_to_structured_default, raw_tb, g_to_bytes_default, struct_of_bytes.
  cbn [raw_sb raw_d1 raw_d2 fst snd].
  rewrite extract_type_table by assumption.
  pose proof (type_table_cc s H2) as Hcc.
  destruct (type_table_some s H1 H2) as [t Ht]. rewrite Ht in *.
  unfold as_cc. rewrite <- Hcc.
  destruct t; cbn [is_cc_type];
    try (eexists; split; [reflexivity|reflexivity]).
  - (* ControlChange *)
    eexists; split; [reflexivity|]. cbn [scc_view].
    rewrite extract_channel_arith by assumption. reflexivity.
  - (* TimeCodeQuarterFrame *)
    destruct (tcqf_of_u7_ok a Ha) as [f Hf]. rewrite Hf. cbn [omap].
    eexists; split; reflexivity.
Qed.

Lemma as_cc_channel s a c ch n v :
  as_cc (s, a, c) = Some (ch, n, v) -> s < 256 ->
  128 <= s /\ channel_table s = Some ch /\ n = a /\ v = c.
Proof.
  unfold as_cc. destruct (N.eqb_spec (s / 16) 11) as [E|E]; [|discriminate].
  intros H Hs. inversion H; subst.
  assert (176 <= s < 192).
  { split.
    - pose proof (N.mul_div_le s 16). lia.
    - pose proof (N.mul_succ_div_gt s 16). lia. }
  unfold channel_table.
  destruct (N.leb_spec 128 s); [|lia]. destruct (N.ltb_spec s 240); [|lia].
  cbn [andb]. repeat split; auto.
Qed.

Lemma as_cc_none_or_system s a c :
  channel_table s = None -> s < 256 -> as_cc (s, a, c) = None.
Proof.
  unfold channel_table, as_cc. intros H Hs.
  destruct (N.eqb_spec (s / 16) 11) as [E|E]; [|reflexivity].
  assert (176 <= s < 192).
  { split.
    - pose proof (N.mul_div_le s 16). lia.
    - pose proof (N.mul_succ_div_gt s 16). lia. }
  destruct (N.leb_spec 128 s); [|lia]. destruct (N.ltb_spec s 240); [|lia]. discriminate.
Qed.
