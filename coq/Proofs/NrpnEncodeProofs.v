(** C09 / C10: the (N)RPN encoder, and the scanner inverting it from any reachable state. *)
From Verif Require Import Base.Prelude Base.Sweep Model.ShortMsg Model.PerChannel Model.CC14
  Model.Nrpn Spec.MidiTable Spec.NrpnSpec Proofs.BitFacts Proofs.ShortMsgFacts
  Proofs.PerChannelProofs Proofs.CC14Proofs Proofs.NrpnProofs.

(** * C09: constructors and getters *)
Lemma pn_ctor_getters ch n v :
  (let m := non_registered_7_bit ch n v in
   pn_channel m = ch /\ pn_number m = n /\ pn_value m = v /\ pn_is_registered m = false /\
   pn_is_14_bit m = false /\ pn_data_type m = DataEntry) /\
  (let m := non_registered_14_bit ch n v in
   pn_channel m = ch /\ pn_number m = n /\ pn_value m = v /\ pn_is_registered m = false /\
   pn_is_14_bit m = true /\ pn_data_type m = DataEntry) /\
  (let m := non_registered_decrement ch n v in
   pn_channel m = ch /\ pn_number m = n /\ pn_value m = v /\ pn_is_registered m = false /\
   pn_is_14_bit m = false /\ pn_data_type m = DataDecrement) /\
  (let m := non_registered_increment ch n v in
   pn_channel m = ch /\ pn_number m = n /\ pn_value m = v /\ pn_is_registered m = false /\
   pn_is_14_bit m = false /\ pn_data_type m = DataIncrement) /\
  (let m := registered_7_bit ch n v in
   pn_channel m = ch /\ pn_number m = n /\ pn_value m = v /\ pn_is_registered m = true /\
   pn_is_14_bit m = false /\ pn_data_type m = DataEntry) /\
  (let m := registered_14_bit ch n v in
   pn_channel m = ch /\ pn_number m = n /\ pn_value m = v /\ pn_is_registered m = true /\
   pn_is_14_bit m = true /\ pn_data_type m = DataEntry) /\
  (let m := registered_decrement ch n v in
   pn_channel m = ch /\ pn_number m = n /\ pn_value m = v /\ pn_is_registered m = true /\
   pn_is_14_bit m = false /\ pn_data_type m = DataDecrement) /\
  (let m := registered_increment ch n v in
   pn_channel m = ch /\ pn_number m = n /\ pn_value m = v /\ pn_is_registered m = true /\
   pn_is_14_bit m = false /\ pn_data_type m = DataIncrement).
Proof. cbn. repeat split. Qed.

(** every message built by a public constructor from in-range arguments is well-formed:
    7-bit values are at most 127; 14-bit implies data entry *)
Lemma pn_ctor_wf ch n v7 v14 :
  ch < 16 -> n < 16384 -> v7 < 128 -> v14 < 16384 ->
  forallb pnmsg_wf
    [non_registered_7_bit ch n v7; non_registered_14_bit ch n v14;
     non_registered_decrement ch n v7; non_registered_increment ch n v7;
     registered_7_bit ch n v7; registered_14_bit ch n v14;
     registered_decrement ch n v7; registered_increment ch n v7] = true.
Proof.
  intros Hc Hn H7 H14. cbn [forallb]. unfold pnmsg_wf. cbn.
  apply N.ltb_lt in Hc, Hn, H7, H14. rewrite Hc, Hn, H7, H14. reflexivity.
Qed.

Lemma pnmsg_wf_bounds m :
  pnmsg_wf m = true ->
  pn_channel m < 16 /\ pn_number m < 16384 /\
  (if pn_is_14_bit m then pn_value m < 16384 /\ pn_data_type m = DataEntry
   else pn_value m < 128).
Proof.
  unfold pnmsg_wf. intros H.
  apply andb_true_iff in H as [H H3]. apply andb_true_iff in H as [H1 H2].
  apply N.ltb_lt in H1, H2. split; [exact H1|]. split; [exact H2|].
  destruct (pn_is_14_bit m).
  - apply andb_true_iff in H3 as [H3 H4]. apply N.ltb_lt in H3. split; [exact H3|].
    destruct (pn_data_type m); try discriminate; reflexivity.
  - apply N.ltb_lt in H3. exact H3.
Qed.

(** * C09: the encoding is the slot table *)
Lemma pn_encode_is_spec m order :
  pnmsg_wf m = true ->
  pn_to_short_message_bytes m order
  = Ok (pn_encode_spec m (match order with MsbFirst => true | LsbFirst => false end)).
Proof.
  intros Hwf. apply pnmsg_wf_bounds in Hwf as (Hc & Hn & Hv).
  destruct m as [ch num v reg b14 dt]. cbn [pn_channel pn_number pn_value pn_is_14_bit
                                            pn_data_type pn_is_registered] in *.
  unfold pn_to_short_message_bytes, pn_encode_spec, pn_data_entry_msb_bytes,
    pn_data_entry_lsb_bytes, pn_inc_dec_bytes.
  cbn [pn_channel pn_number pn_value pn_is_14_bit pn_data_type pn_is_registered].
  rewrite !control_change_bytes_arith by assumption.
  rewrite extract_high_7_arith, extract_low_7_arith by assumption.
  destruct b14.
  - destruct Hv as [Hv ->].
    rewrite extract_high_7_arith, extract_low_7_arith by assumption.
    destruct order; reflexivity.
  - rewrite (extract_low_7_arith v) by lia.
    rewrite (N.mod_small v 256) by lia. rewrite (N.mod_small v 128) by lia.
    destruct dt, order; reflexivity.
Qed.

Lemma pn_four_slots_iff_14_bit m order l :
  pnmsg_wf m = true -> pn_to_short_message_bytes m order = Ok l ->
  length l = 4%nat /\
  (nth_error l 3 <> Some None <-> pn_is_14_bit m = true) /\
  (forall i, (i < 3)%nat -> nth_error l i <> Some None).
Proof.
  intros Hwf H. rewrite (pn_encode_is_spec m order Hwf) in H. inversion H; subst l. clear H.
  apply pnmsg_wf_bounds in Hwf as (_ & _ & Hv).
  unfold pn_encode_spec.
  destruct (pn_is_14_bit m) eqn:E14.
  - destruct Hv as [_ ->]. destruct order; cbn; (split; [reflexivity|]); (split; [split; [reflexivity|discriminate]|]);
      intros [|[|[|i]]] Hi; cbn; try discriminate; lia.
  - destruct (pn_data_type m); cbn; (split; [reflexivity|]);
      (split; [split; [intros H; exfalso; apply H; reflexivity|discriminate]|]);
      intros [|[|[|i]]] Hi; cbn; try discriminate; lia.
Qed.

(** both factory implementations receive the same bytes *)
Lemma map_slots_struct l :
  Forall (fun o => match o with
                   | Some (s, a, c) => exists ch, ch < 16 /\ s = 176 + ch
                   | None => True end) l ->
  omap (map (option_map struct_tb)) (map_slots struct_fbu l) = Ok l.
Proof.
  induction 1 as [|o l Ho Hl IH]; [reflexivity|].
  destruct o as [[[s a] c]|]; cbn [map_slots].
  - destruct Ho as (ch & Hch & ->).
    pose proof (struct_cc_roundtrip ch a c Hch) as H.
    destruct (struct_fbu (176 + ch, a, c)) as [m|]; [|discriminate]. cbn [obind omap] in *.
    destruct (map_slots struct_fbu l) as [r|]; [|discriminate]. cbn [obind omap] in *.
    assert (E : struct_tb m = (176 + ch, a, c)) by congruence.
    cbn [map option_map]. rewrite E. injection IH as ->. reflexivity.
  - destruct (map_slots struct_fbu l) as [r|]; [|discriminate]. cbn [obind omap] in *.
    cbn [map option_map]. injection IH as ->. reflexivity.
Qed.

Lemma pn_encode_struct m order :
  pnmsg_wf m = true ->
  omap (map (option_map struct_tb)) (pn_to_short_messages struct_fbu m order)
  = Ok (pn_encode_spec m (match order with MsbFirst => true | LsbFirst => false end)).
Proof.
  intros Hwf. unfold pn_to_short_messages. rewrite (pn_encode_is_spec m order Hwf). cbn [obind].
  apply map_slots_struct. apply pnmsg_wf_bounds in Hwf as (Hc & _ & _).
  unfold pn_encode_spec.
  destruct (pn_data_type m), (pn_is_14_bit m), order; cbn [app];
    repeat (constructor; try (exists (pn_channel m); split; [assumption|reflexivity]); try exact I).
Qed.

(** * C10: the scanner inverts the encoder, from any reachable state *)
Definition cc (ch n v : N) : pnop := NFeed (176 + ch, n, v).

Lemma as_cc_cc ch n v : ch < 16 -> as_cc (176 + ch, n, v) = Some (ch, n, v).
Proof.
  intros H. unfold as_cc.
  assert (Ediv : (176 + ch) / 16 = 11) by (symmetry; apply (N.div_unique (176 + ch) 16 11 ch); lia).
  assert (Emod : (176 + ch) mod 16 = ch) by (symmetry; apply (N.mod_unique (176 + ch) 16 11 ch); lia).
  rewrite Ediv, Emod. reflexivity.
Qed.

Lemma cc_valid ch n v : ch < 16 -> n < 128 -> v < 128 -> pnop_valid (cc ch n v) = true.
Proof.
  intros. cbn [cc pnop_valid valid3].
  repeat (apply andb_true_iff; split); try apply N.leb_le; try apply N.ltb_lt; lia.
Qed.

Definition msb_cn (reg : bool) : N := if reg then 101 else 99.
Definition lsb_cn (reg : bool) : N := if reg then 100 else 98.

(** observers right after a number selection (MSB then LSB) *)
Lemma obs_after_select hr ch reg hi lo :
  ch < 16 ->
  obs_state ch (cc ch (lsb_cn reg) lo :: cc ch (msb_cn reg) hi :: hr)
  = mkPNSt (Some hi) (Some lo) reg None.
Proof.
  intros Hc. unfold obs_state, latest_number_msb, latest_number_lsb, cc.
  cbn [latest_cc latest_registered v38_after_number].
  rewrite !as_cc_cc by assumption. rewrite N.eqb_refl. unfold is_number_cn.
  destruct reg; cbn [msb_cn lsb_cn andb]; kill_tests; reflexivity.
Qed.

(** value bytes (controllers 6, 38, 96, 97) keep number and registered flag *)
Lemma obs_after_value hr ch n v :
  ch < 16 -> n = 6 \/ n = 96 \/ n = 97 ->
  obs_state ch (cc ch n v :: hr) = obs_state ch hr.
Proof.
  intros Hc Hn. unfold obs_state, latest_number_msb, latest_number_lsb, cc.
  cbn [latest_cc latest_registered v38_after_number].
  rewrite !as_cc_cc by assumption. rewrite N.eqb_refl. unfold is_number_cn.
  cbn [andb]. kill_tests; reflexivity.
Qed.

Lemma obs_after_38 hr ch v :
  ch < 16 ->
  obs_state ch (cc ch 38 v :: hr)
  = mkPNSt (latest_number_msb ch hr) (latest_number_lsb ch hr) (latest_registered ch hr) (Some v).
Proof.
  intros Hc. unfold obs_state, latest_number_msb, latest_number_lsb, cc.
  cbn [latest_cc latest_registered v38_after_number].
  rewrite !as_cc_cc by assumption. rewrite N.eqb_refl. unfold is_number_cn.
  cbn [andb]. kill_tests; reflexivity.
Qed.

(** what the specification reports for a value byte, given the observed channel state *)
Lemma spec_out_value hr ch n v m l reg o38 :
  ch < 16 -> obs_state ch hr = mkPNSt (Some m) (Some l) reg o38 ->
  pn_spec_out hr (cc ch n v) =
  if N.eqb n 6 || N.eqb n 96 || N.eqb n 97 then
    if N.eqb n 96 then Some (mkPN ch (128 * m + l) v reg false DataIncrement)
    else if N.eqb n 97 then Some (mkPN ch (128 * m + l) v reg false DataDecrement)
    else match o38 with
         | Some l38 => Some (mkPN ch (128 * m + l) (128 * v + l38) reg true DataEntry)
         | None => Some (mkPN ch (128 * m + l) v reg false DataEntry)
         end
  else None.
Proof.
  intros Hc Hobs. unfold obs_state in Hobs. inversion Hobs as [[E1 E2 E3 E4]].
  cbn [pn_spec_out cc]. rewrite as_cc_cc by assumption. rewrite E1, E2. reflexivity.
Qed.

Lemma spec_out_number hr ch reg v (which : bool) :
  ch < 16 -> pn_spec_out hr (cc ch (if which then msb_cn reg else lsb_cn reg) v) = None.
Proof.
  intros Hc. cbn [pn_spec_out cc]. rewrite as_cc_cc by assumption.
  destruct which, reg; cbn [msb_cn lsb_cn]; kill_tests; reflexivity.
Qed.

(** the selection prefix of every encoding *)
Definition select (ch : N) (reg : bool) (num : N) : list pnop :=
  [cc ch (msb_cn reg) (num / 128); cc ch (lsb_cn reg) (num mod 128)].

(** spec outputs of: selection, then a list of value bytes of one kind (running form) *)
Lemma spec_running_single hr ch reg num n vs :
  ch < 16 -> num < 16384 -> n = 6 \/ n = 96 \/ n = 97 ->
  pn_spec_outs_from hr (select ch reg num ++ map (cc ch n) vs)
  = [None; None] ++
    map (fun v => Some (mkPN ch num v reg false
                          (if N.eqb n 96 then DataIncrement
                           else if N.eqb n 97 then DataDecrement else DataEntry))) vs.
Proof.
  intros Hc Hnum Hn. pose proof (div_mod_128 num Hnum) as (Hhi & Hlo & Hsum).
  unfold select. cbn [app pn_spec_outs_from].
  rewrite (spec_out_number hr ch reg (num / 128) true Hc).
  rewrite (spec_out_number _ ch reg (num mod 128) false Hc).
  f_equal. f_equal.
  pose proof (obs_after_select hr ch reg (num / 128) (num mod 128) Hc) as Hobs.
  remember (cc ch (lsb_cn reg) (num mod 128) :: cc ch (msb_cn reg) (num / 128) :: hr) as hr1.
  clear Heqhr1. revert hr1 Hobs.
  induction vs as [|v vs IH]; intros hr1 Hobs; [reflexivity|].
  cbn [map pn_spec_outs_from]. rewrite (spec_out_value hr1 ch n v _ _ _ _ Hc Hobs). rewrite Hsum.
  f_equal.
  - destruct Hn as [Hn|[Hn|Hn]]; subst n; reflexivity.
  - apply IH. rewrite obs_after_value by assumption. exact Hobs.
Qed.

(** running LSB,MSB pairs: each pair yields nothing, then a 14-bit data entry *)
Fixpoint pairs_ops (ch : N) (ps : list (N * N)) : list pnop :=
  match ps with
  | [] => []
  | (l, m) :: t => cc ch 38 l :: cc ch 6 m :: pairs_ops ch t
  end.

Fixpoint pairs_outs (ch num : N) (reg : bool) (ps : list (N * N)) : list (option pnmsg) :=
  match ps with
  | [] => []
  | (l, m) :: t => None :: Some (mkPN ch num (128 * m + l) reg true DataEntry) :: pairs_outs ch num reg t
  end.

Lemma spec_running_pairs hr ch reg num ps :
  ch < 16 -> num < 16384 ->
  pn_spec_outs_from hr (select ch reg num ++ pairs_ops ch ps)
  = [None; None] ++ pairs_outs ch num reg ps.
Proof.
  intros Hc Hnum. pose proof (div_mod_128 num Hnum) as (Hhi & Hlo & Hsum).
  unfold select. cbn [app pn_spec_outs_from].
  rewrite (spec_out_number hr ch reg (num / 128) true Hc).
  rewrite (spec_out_number _ ch reg (num mod 128) false Hc).
  f_equal. f_equal.
  pose proof (obs_after_select hr ch reg (num / 128) (num mod 128) Hc) as Hobs.
  remember (cc ch (lsb_cn reg) (num mod 128) :: cc ch (msb_cn reg) (num / 128) :: hr) as hr1.
  clear Heqhr1.
  assert (Hgen : forall o38, obs_state ch hr1 = mkPNSt (Some (num / 128)) (Some (num mod 128)) reg o38 ->
                 pn_spec_outs_from hr1 (pairs_ops ch ps) = pairs_outs ch num reg ps).
  { clear Hobs. revert hr1. induction ps as [|[l m] ps IH]; intros hr1 o38 Hobs; [reflexivity|].
    cbn [pairs_ops pairs_outs pn_spec_outs_from].
    assert (H38 : pn_spec_out hr1 (cc ch 38 l) = None).
    { cbn [pn_spec_out cc]. rewrite as_cc_cc by assumption. reflexivity. }
    rewrite H38. f_equal.
    assert (Hobs1 : obs_state ch (cc ch 38 l :: hr1)
                    = mkPNSt (Some (num / 128)) (Some (num mod 128)) reg (Some l)).
    { rewrite obs_after_38 by assumption. unfold obs_state in Hobs.
      inversion Hobs as [[E1 E2 E3 E4]]. reflexivity. }
    rewrite (spec_out_value _ ch 6 m _ _ _ _ Hc Hobs1). rewrite Hsum. cbn [N.eqb orb].
    f_equal. apply (IH _ (Some l)). rewrite obs_after_value by (auto). exact Hobs1. }
  exact (Hgen None Hobs).
Qed.

(** lifting to the scanner: from any state reached by a valid history *)
Lemma ops_valid_select ch reg num :
  ch < 16 -> num < 16384 -> Forall (fun o => pnop_valid o = true) (select ch reg num).
Proof.
  intros Hc Hn. pose proof (div_mod_128 num Hn) as (Hhi & Hlo & _).
  unfold select. repeat constructor; apply cc_valid; try assumption;
    destruct reg; cbn [msb_cn lsb_cn]; lia.
Qed.

Lemma scan_after_history h ops :
  Forall (fun o => pnop_valid o = true) h -> Forall (fun o => pnop_valid o = true) ops ->
  exists s0 outs0 s1,
    pn_run pn_new_scanner h = Ok (s0, outs0) /\
    pn_run s0 ops = Ok (s1, pn_spec_outs_from (rev h) ops).
Proof.
  intros Hh Hops.
  destruct (pn_run_correct_from _ [] h PInv_init (Forall_nil _) Hh) as (s0 & Hrun & Hinv & Hv).
  rewrite app_nil_r in Hinv, Hv.
  destruct (pn_run_correct_from s0 (rev h) ops Hinv Hv Hops) as (s1 & Hrun1 & _).
  exists s0, (pn_spec_outs h), s1. split; assumption.
Qed.

(** C10, single messages: encoding of a 7-bit / increment / decrement message (either byte
    order), after any valid history: nothing, nothing, then exactly the message *)
Lemma scan_encode_7bit h m order :
  Forall (fun o => pnop_valid o = true) h ->
  pnmsg_wf m = true -> pn_is_14_bit m = false ->
  exists ops s0 outs0 s1,
    omap (fun l => flat_map (fun o => match o with Some b => [NFeed b] | None => [] end) l)
         (pn_to_short_message_bytes m order) = Ok ops /\
    pn_run pn_new_scanner h = Ok (s0, outs0) /\
    pn_run s0 ops = Ok (s1, [None; None; Some m]).
Proof.
  intros Hh Hwf H7.
  rewrite (pn_encode_is_spec m order Hwf). cbn [omap].
  pose proof (pnmsg_wf_bounds m Hwf) as (Hc & Hn & Hv). rewrite H7 in Hv.
  destruct m as [ch num v reg b14 dt]. cbn [pn_channel pn_number pn_value pn_is_14_bit
                                            pn_data_type pn_is_registered] in *. subst b14.
  set (n := match dt with DataEntry => 6 | DataIncrement => 96 | DataDecrement => 97 end).
  assert (Hn3 : n = 6 \/ n = 96 \/ n = 97) by (destruct dt; subst n; auto).
  assert (Hops : Forall (fun o => pnop_valid o = true) (select ch reg num ++ map (cc ch n) [v])).
  { apply Forall_app. split; [apply ops_valid_select; assumption|].
    repeat constructor. apply cc_valid; try assumption. destruct dt; subst n; lia. }
  destruct (scan_after_history h _ Hh Hops) as (s0 & outs0 & s1 & Hr0 & Hr1).
  rewrite (spec_running_single (rev h) ch reg num n [v] Hc Hn Hn3) in Hr1.
  exists (select ch reg num ++ map (cc ch n) [v]), s0, outs0, s1.
  split; [|split; [exact Hr0|]].
  - unfold pn_encode_spec, select, cc, msb_cn, lsb_cn.
    cbn [pn_channel pn_number pn_value pn_is_14_bit pn_data_type pn_is_registered].
    destruct dt, reg; subst n; reflexivity.
  - rewrite Hr1. destruct dt; subst n; reflexivity.
Qed.

(** C10, 14-bit LSB-first: nothing, nothing, nothing, then exactly the message *)
Lemma scan_encode_14bit_lsb_first h m :
  Forall (fun o => pnop_valid o = true) h ->
  pnmsg_wf m = true -> pn_is_14_bit m = true ->
  exists ops s0 outs0 s1,
    omap (fun l => flat_map (fun o => match o with Some b => [NFeed b] | None => [] end) l)
         (pn_to_short_message_bytes m LsbFirst) = Ok ops /\
    pn_run pn_new_scanner h = Ok (s0, outs0) /\
    pn_run s0 ops = Ok (s1, [None; None; None; Some m]).
Proof.
  intros Hh Hwf H14.
  rewrite (pn_encode_is_spec m LsbFirst Hwf). cbn [omap].
  pose proof (pnmsg_wf_bounds m Hwf) as (Hc & Hn & Hv). rewrite H14 in Hv. destruct Hv as [Hv Hdt].
  destruct m as [ch num v reg b14 dt]. cbn [pn_channel pn_number pn_value pn_is_14_bit
                                            pn_data_type pn_is_registered] in *. subst b14 dt.
  pose proof (div_mod_128 v Hv) as (Hhi & Hlo & Hsum).
  assert (Hops : Forall (fun o => pnop_valid o = true)
                   (select ch reg num ++ pairs_ops ch [(v mod 128, v / 128)])).
  { apply Forall_app. split; [apply ops_valid_select; assumption|].
    cbn [pairs_ops]. repeat constructor; apply cc_valid; try assumption; lia. }
  destruct (scan_after_history h _ Hh Hops) as (s0 & outs0 & s1 & Hr0 & Hr1).
  rewrite (spec_running_pairs (rev h) ch reg num _ Hc Hn) in Hr1.
  exists (select ch reg num ++ pairs_ops ch [(v mod 128, v / 128)]), s0, outs0, s1.
  split; [|split; [exact Hr0|]].
  - unfold pn_encode_spec, select, cc, msb_cn, lsb_cn.
    cbn [pn_channel pn_number pn_value pn_is_14_bit pn_data_type pn_is_registered pairs_ops].
    destruct reg; reflexivity.
  - rewrite Hr1. cbn [pairs_outs app]. rewrite Hsum. reflexivity.
Qed.

(** C10, running forms of any length after one selection, from any reachable state *)
Lemma scan_running_single h ch reg num n vs :
  Forall (fun o => pnop_valid o = true) h ->
  ch < 16 -> num < 16384 -> n = 6 \/ n = 96 \/ n = 97 -> Forall (fun v => v < 128) vs ->
  exists s0 outs0 s1,
    pn_run pn_new_scanner h = Ok (s0, outs0) /\
    pn_run s0 (select ch reg num ++ map (cc ch n) vs)
    = Ok (s1, [None; None] ++
              map (fun v => Some (mkPN ch num v reg false
                                    (if N.eqb n 96 then DataIncrement
                                     else if N.eqb n 97 then DataDecrement else DataEntry))) vs).
Proof.
  intros Hh Hc Hn Hn3 Hvs.
  assert (Hops : Forall (fun o => pnop_valid o = true) (select ch reg num ++ map (cc ch n) vs)).
  { apply Forall_app. split; [apply ops_valid_select; assumption|].
    apply Forall_map. eapply Forall_impl; [|exact Hvs]. intros v Hv. apply cc_valid; try assumption.
    destruct Hn3 as [Hn3|[Hn3|Hn3]]; subst n; lia. }
  destruct (scan_after_history h _ Hh Hops) as (s0 & outs0 & s1 & Hr0 & Hr1).
  rewrite (spec_running_single (rev h) ch reg num n vs Hc Hn Hn3) in Hr1.
  exists s0, outs0, s1. split; assumption.
Qed.

Lemma scan_running_pairs h ch reg num ps :
  Forall (fun o => pnop_valid o = true) h ->
  ch < 16 -> num < 16384 -> Forall (fun p => fst p < 128 /\ snd p < 128) ps ->
  exists s0 outs0 s1,
    pn_run pn_new_scanner h = Ok (s0, outs0) /\
    pn_run s0 (select ch reg num ++ pairs_ops ch ps)
    = Ok (s1, [None; None] ++ pairs_outs ch num reg ps).
Proof.
  intros Hh Hc Hn Hps.
  assert (Hops : Forall (fun o => pnop_valid o = true) (select ch reg num ++ pairs_ops ch ps)).
  { apply Forall_app. split; [apply ops_valid_select; assumption|].
    induction Hps as [|[l m] ps [Hl Hm] Hps IH]; [constructor|].
    cbn [pairs_ops fst snd] in *. repeat constructor; try apply cc_valid; try assumption; try lia. }
  destruct (scan_after_history h _ Hh Hops) as (s0 & outs0 & s1 & Hr0 & Hr1).
  rewrite (spec_running_pairs (rev h) ch reg num ps Hc Hn) in Hr1.
  exists s0, outs0, s1. split; assumption.
Qed.
