(** C09 / C10 / C11: the (N)RPN encoder and scanner. *)
From Verif Require Import Base.Prelude Base.Sweep Model.ShortMsg Model.PerChannel Model.CC14
  Model.Nrpn Spec.MidiTable Spec.NrpnSpec Proofs.BitFacts Proofs.ShortMsgFacts
  Proofs.PerChannelProofs.

Ltac kill_tests :=
  repeat match goal with
    | |- context [N.eqb ?x ?y] => destruct (N.eqb_spec x y); try lia
    | |- context [N.leb ?x ?y] => destruct (N.leb_spec x y); try lia
    | |- context [N.ltb ?x ?y] => destruct (N.ltb_spec x y); try lia
    end.

(** * the controller-number dispatch of the one-channel scanner, as an if-chain *)
Definition pn_dispatch (st : pnst) (channel cn v : N) : pnst * option pnmsg :=
  if N.eqb cn 98 then (mkPNSt (s_number_msb st) (Some v) false None, None)
  else if N.eqb cn 99 then (mkPNSt (Some v) (s_number_lsb st) false None, None)
  else if N.eqb cn 100 then (mkPNSt (s_number_msb st) (Some v) true None, None)
  else if N.eqb cn 101 then (mkPNSt (Some v) (s_number_lsb st) true None, None)
  else if N.eqb cn 38 then
    (mkPNSt (s_number_msb st) (s_number_lsb st) (s_is_registered st) (Some v), None)
  else if N.eqb cn 6 then
    match pn_build_number st with
    | None => (st, None)
    | Some number =>
        (st, Some (match s_value_lsb st with
                   | Some l => pn_fourteen_bit channel number (build_14 v l) (s_is_registered st)
                   | None => pn_seven_bit channel number v (s_is_registered st) DataEntry
                   end))
    end
  else if N.eqb cn 96 then
    match pn_build_number st with
    | None => (st, None)
    | Some number => (st, Some (pn_seven_bit channel number v (s_is_registered st) DataIncrement))
    end
  else if N.eqb cn 97 then
    match pn_build_number st with
    | None => (st, None)
    | Some number => (st, Some (pn_seven_bit channel number v (s_is_registered st) DataDecrement))
    end
  else (st, None).

Lemma pn_core_dispatch st ch cn v :
  pn_feed1_core st (SControlChange ch cn v) = pn_dispatch st ch cn v.
Proof.
  unfold pn_feed1_core, pn_dispatch.
  destruct cn as [|p]; [reflexivity|].
  do 7 (destruct p as [p|p|]; try reflexivity).
Qed.

Definition pn_f1v (now : N) (st : pnst) (o : option (N * N * N)) : pnst * option pnmsg :=
  match o with
  | Some (ch, cn, v) => pn_dispatch st ch cn v
  | None => (st, None)
  end.

Lemma pn_feed1_view now st m :
  True -> (fun _ : N => pn_feed1) now st m = Ok (pn_f1v now st (scc_view m)).
Proof.
  intros _. unfold pn_feed1. f_equal. destruct m; try reflexivity.
  cbn [scc_view pn_f1v]. apply pn_core_dispatch.
Qed.

Definition pn_gstep := gstep pnst (option pnmsg) pn_f1v (fun _ st _ => (st, None)) pn_reset1 None.

Lemma pn_feed_bridge s b :
  length s = 16%nat -> valid3 b = true ->
  pn_feed s b = Ok (snd (fst (pn_gstep 0 s (OFeed b))), snd (pn_gstep 0 s (OFeed b))).
Proof.
  intros Hlen Hv. unfold pn_feed, pn_gstep.
  apply (feed_multi_bridge pnst (option pnmsg) pn_f1v (fun _ st _ => (st, None)) pn_reset1 None
           (fun _ => pn_feed1) (fun _ => True) pn_feed1_view 0 s b Hlen); [|exact Hv].
  apply Forall_forall. auto.
Qed.

(** * the state is a function of the history *)
Definition obs_state (c : N) (hr : list pnop) : pnst :=
  mkPNSt (latest_number_msb c hr) (latest_number_lsb c hr) (latest_registered c hr)
         (v38_after_number c hr).

Definition PInv (s : pn_scanner) (hr : list pnop) : Prop :=
  length s = 16%nat /\ forall c, c < 16 -> nth_error s (N.to_nat c) = Some (obs_state c hr).

Definition phist_valid (hr : list pnop) : Prop := Forall (fun o => pnop_valid o = true) hr.

Lemma PInv_init : PInv pn_new_scanner [].
Proof.
  split; [reflexivity|]. intros c Hc.
  assert (S : forallN 16 (fun c => match nth_error pn_new_scanner (N.to_nat c) with
                                   | Some (mkPNSt None None false None) => true | _ => false end) = true)
    by (vm_compute; reflexivity).
  pose proof (forallN_spec _ _ S c Hc) as H. cbv beta in H.
  destruct (nth_error pn_new_scanner (N.to_nat c)) as [[[?|] [?|] [|] [?|]]|]; try discriminate.
  reflexivity.
Qed.

Lemma obs_state_skip c b hr : as_cc b = None -> obs_state c (NFeed b :: hr) = obs_state c hr.
Proof.
  intros H. unfold obs_state, latest_number_msb, latest_number_lsb.
  cbn [latest_cc latest_registered v38_after_number]. rewrite H. reflexivity.
Qed.

Lemma obs_state_other c b hr ch n v :
  as_cc b = Some (ch, n, v) -> ch <> c -> obs_state c (NFeed b :: hr) = obs_state c hr.
Proof.
  intros H Hne. unfold obs_state, latest_number_msb, latest_number_lsb.
  cbn [latest_cc latest_registered v38_after_number]. rewrite H.
  destruct (N.eqb_spec ch c); [contradiction|]. reflexivity.
Qed.

Lemma latest_cc_lt128 p c hr v :
  phist_valid hr -> latest_cc p c hr = Some v -> v < 128.
Proof.
  intros Hv. induction Hv as [|o hr Ho Hv IH]; cbn [latest_cc]; [discriminate|].
  destruct o as [b|]; [|discriminate].
  destruct b as [[s a] x]. cbn [pnop_valid] in Ho.
  apply valid3_bounds in Ho as (H1 & H2 & Ha & Hx).
  destruct (as_cc (s, a, x)) as [[[c' n'] v']|] eqn:E; [|exact IH].
  apply as_cc_channel in E as (_ & _ & -> & ->); [|assumption].
  destruct (N.eqb c' c && p a); [|exact IH].
  intros H; inversion H; subst. assumption.
Qed.

Lemma v38_lt128 c hr v : phist_valid hr -> v38_after_number c hr = Some v -> v < 128.
Proof.
  intros Hv. induction Hv as [|o hr Ho Hv IH]; cbn [v38_after_number]; [discriminate|].
  destruct o as [b|]; [|discriminate].
  destruct b as [[s a] x]. cbn [pnop_valid] in Ho.
  apply valid3_bounds in Ho as (H1 & H2 & Ha & Hx).
  destruct (as_cc (s, a, x)) as [[[c' n'] v']|] eqn:E; [|exact IH].
  apply as_cc_channel in E as (_ & _ & -> & ->); [|assumption].
  destruct (N.eqb c' c); [|exact IH].
  destruct (N.eqb a 38); [intros H; inversion H; subst; assumption|].
  destruct (is_number_cn a); [discriminate|exact IH].
Qed.

Lemma pn_step_correct s hr o :
  PInv s hr -> phist_valid hr -> pnop_valid o = true ->
  exists s', pn_step s o = Ok (s', pn_spec_out hr o) /\ PInv s' (o :: hr).
Proof.
  intros [Hlen Hst] Hhv Hov. destruct o as [b|].
  2:{ eexists; split; [reflexivity|]. split.
      - unfold pn_reset, reset_multi. rewrite map_length. exact Hlen.
      - intros c Hc. unfold pn_reset, reset_multi. rewrite nth_error_map, (Hst c Hc). reflexivity. }
  cbn [pnop_valid] in Hov. cbn [pn_step]. rewrite pn_feed_bridge by assumption.
  destruct b as [[s0 a] x].
  apply valid3_bounds in Hov as (H1 & H2 & Ha & Hx).
  unfold pn_gstep. cbn [gstep fst snd].
  destruct (channel_table s0) as [ch|] eqn:Ech.
  2:{ pose proof (as_cc_none_or_system s0 a x Ech H2) as Hn. cbn [fst snd].
      eexists; split.
      - cbn [pn_spec_out]. rewrite Hn. reflexivity.
      - split; [exact Hlen|]. intros c Hc. rewrite obs_state_skip by exact Hn. apply Hst, Hc. }
  pose proof (channel_table_lt _ _ Ech) as Hch.
  rewrite (Hst ch Hch).
  destruct (as_cc (s0, a, x)) as [[[ch' n] v]|] eqn:Ecc.
  2:{ cbn [pn_f1v fst snd]. eexists; split.
      - cbn [pn_spec_out]. rewrite Ecc. rewrite upd_same_id by (apply Hst, Hch). reflexivity.
      - split; [exact Hlen|]. intros c Hc. rewrite obs_state_skip by exact Ecc. apply Hst, Hc. }
  pose proof (as_cc_channel _ _ _ _ _ _ Ecc H2) as (_ & Ech' & -> & ->).
  rewrite Ech in Ech'. inversion Ech'; subst ch'. clear Ech'.
  cbn [pn_f1v pn_spec_out]. rewrite Ecc.
  (* it suffices to show: output = spec, and the new channel state is the observed one *)
  assert (Hsuff : forall st' out,
             pn_dispatch (obs_state ch hr) ch a x = (st', out) ->
             st' = obs_state ch (NFeed (s0, a, x) :: hr) ->
             PInv (upd s (N.to_nat ch) st') (NFeed (s0, a, x) :: hr)).
  { intros st' out _ ->. split; [rewrite upd_length; exact Hlen|].
    intros c Hc. destruct (N.eq_dec ch c) as [->|Hne].
    - apply nth_error_upd_same. rewrite Hlen. lia.
    - rewrite nth_error_upd_other by lia.
      rewrite (obs_state_other c _ hr ch a x Ecc Hne). apply Hst, Hc. }
  destruct (pn_dispatch (obs_state ch hr) ch a x) as [st' out] eqn:Ed.
  cbn [fst snd]. eexists; split; [|apply (Hsuff st' out eq_refl)].
  - (* the reported message is the specified one *)
    f_equal. f_equal. revert Ed. unfold pn_dispatch, obs_state, pn_build_number.
    cbn [s_number_msb s_number_lsb s_is_registered s_value_lsb].
    destruct (latest_number_msb ch hr) as [m|] eqn:Em;
      destruct (latest_number_lsb ch hr) as [l|] eqn:El;
      destruct (v38_after_number ch hr) as [l38|] eqn:E38;
      try (pose proof (latest_cc_lt128 _ _ _ _ Hhv Em));
      try (pose proof (latest_cc_lt128 _ _ _ _ Hhv El));
      try (pose proof (v38_lt128 _ _ _ Hhv E38));
      unfold pn_fourteen_bit, pn_seven_bit;
      rewrite ?build_14_arith by assumption;
      kill_tests; cbn [orb]; intros Ed; inversion Ed; subst; reflexivity.
  - (* the new channel state is the observed one *)
    revert Ed. unfold pn_dispatch, obs_state, pn_build_number, latest_number_msb, latest_number_lsb.
    cbn [latest_cc latest_registered v38_after_number s_number_msb s_number_lsb s_is_registered
         s_value_lsb]. rewrite Ecc. rewrite N.eqb_refl. unfold is_number_cn. cbn [andb].
    kill_tests; cbn [orb andb]; intros Ed;
      repeat match goal with
        | H : context [match ?o with Some _ => _ | None => _ end] |- _ => destruct o
        end; inversion Ed; subst; reflexivity.
Qed.

Lemma pn_run_correct_from s hr h :
  PInv s hr -> phist_valid hr -> Forall (fun o => pnop_valid o = true) h ->
  exists s', pn_run s h = Ok (s', pn_spec_outs_from hr h) /\ PInv s' (rev h ++ hr)
             /\ phist_valid (rev h ++ hr).
Proof.
  revert s hr. induction h as [|o h IH]; intros s hr Hinv Hhv Hh.
  - eexists; split; [reflexivity|split; [exact Hinv|exact Hhv]].
  - inversion Hh as [|? ? Ho Hh']; subst.
    destruct (pn_step_correct s hr o Hinv Hhv Ho) as (s1 & Hstep & Hinv1).
    destruct (IH s1 (o :: hr) Hinv1 (Forall_cons _ Ho Hhv) Hh') as (s2 & Hrun & Hinv2 & Hv2).
    exists s2. split; [|split].
    + cbn [pn_run pn_spec_outs_from]. rewrite Hstep. cbn [obind fst snd]. rewrite Hrun. reflexivity.
    + cbn [rev]. rewrite <- app_assoc. exact Hinv2.
    + cbn [rev]. rewrite <- app_assoc. exact Hv2.
Qed.

(** C11: for every finite history of valid feeds and resets the scanner's outputs are exactly
    the specified ones *)
Lemma pn_exact h :
  Forall (fun o => pnop_valid o = true) h ->
  exists s', pn_run pn_new_scanner h = Ok (s', pn_spec_outs h).
Proof.
  intros Hh. destruct (pn_run_correct_from _ [] h PInv_init (Forall_nil _) Hh) as (s' & H & _).
  eauto.
Qed.
