(** C15 / C16 / C17 for the three scanners, as instances of the generic per-channel theory. *)
From Verif Require Import Base.Prelude Base.Sweep Model.ShortMsg Model.PerChannel Model.CC14
  Model.Nrpn Model.Polling Spec.MidiTable Spec.ScannerSpec Spec.NrpnSpec Spec.CC14Spec
  Proofs.BitFacts Proofs.ShortMsgFacts Proofs.PerChannelProofs Proofs.NrpnProofs
  Proofs.PollingProofs.

(** * the 14-bit CC scanner as an arithmetic machine *)
Definition cc14_good (st : cc14st) : Prop :=
  match st_msb_cn st with Some n => n < 32 | None => True end.

Definition cc14_f1v (now : N) (st : cc14st) (o : option (N * N * N)) : cc14st * option cc14msg :=
  match o with
  | Some (ch, cn, v) =>
      if N.leb cn 31 then (mkCC14St (Some cn) (Some v), None)
      else if N.leb cn 63 then
        match st_msb_cn st, st_value_msb st with
        | Some m, Some vm =>
            if N.eqb cn (m + 32) then (st, Some (mkCC14 ch m (build_14 vm v))) else (st, None)
        | _, _ => (st, None)
        end
      else (st, None)
  | None => (st, None)
  end.

Lemma cc14_feed1_view now st m :
  cc14_good st -> (fun _ : N => cc14_feed1) now st m = Ok (cc14_f1v now st (scc_view m)).
Proof.
  intros Hg. destruct m; try reflexivity. cbn [scc_view cc14_feed1 cc14_f1v].
  destruct (N.leb controller_number 31); [reflexivity|].
  destruct (N.leb controller_number 63); [|reflexivity].
  unfold cc14_process_value_lsb, cc14_good in *.
  destruct (st_msb_cn st) as [m|]; [|reflexivity].
  destruct (st_value_msb st) as [vm|]; [|reflexivity].
  unfold corresponding_lsb. destruct (N.leb_spec 32 m); [lia|].
  destruct (N.eqb controller_number (m + 32)); cbn [negb]; [|reflexivity].
  unfold cc14_new, corresponding_lsb. destruct (N.leb_spec 32 m); [lia|]. reflexivity.
Qed.

Lemma cc14_f1v_good now st o : cc14_good st -> cc14_good (fst (cc14_f1v now st o)).
Proof.
  intros Hg. destruct o as [[[ch cn] v]|]; cbn [cc14_f1v fst]; [|exact Hg].
  destruct (N.leb_spec cn 31); [cbn; lia|].
  destruct (N.leb cn 63); [|exact Hg].
  destruct (st_msb_cn st) eqn:E1; [|exact Hg]. destruct (st_value_msb st); [|exact Hg].
  destruct (N.eqb cn (n + 32)); exact Hg.
Qed.

Definition cc14_p1 (now : N) (st : cc14st) (c : N) : cc14st * option cc14msg := (st, None).
Definition cc14_gstep := gstep cc14st (option cc14msg) cc14_f1v cc14_p1 cc14_reset1 None.
Definition cc14_grun := grun cc14st (option cc14msg) cc14_f1v cc14_p1 cc14_reset1 None.

Definition cc14_sop (o : cc14op) : sop := match o with CFeed b => OFeed b | CReset => OReset end.

Lemma Forall_upd {A} (P : A -> Prop) l i x : Forall P l -> P x -> Forall P (upd l i x).
Proof.
  revert i. induction l as [|h t IH]; intros [|i] Hl Hx; cbn [upd]; auto;
    inversion Hl; subst; constructor; auto.
Qed.

Lemma cc14_gstep_good now s o :
  Forall cc14_good s -> Forall cc14_good (snd (fst (cc14_gstep now s (cc14_sop o)))).
Proof.
  intros Hg. destruct o as [b|]; cbn [cc14_sop]; unfold cc14_gstep; cbn [gstep].
  - destruct (channel_table (fst (fst b))); [|exact Hg].
    destruct (nth_error s (N.to_nat n)) as [st|] eqn:E; [|exact Hg]. cbn [fst snd].
    apply Forall_upd; [exact Hg|]. apply cc14_f1v_good.
    rewrite Forall_forall in Hg. apply Hg. eapply nth_error_In; exact E.
  - cbn [fst snd]. apply Forall_forall. intros x Hx. apply in_map_iff in Hx as (y & <- & _).
    cbn. exact I.
Qed.

Lemma cc14_gstep_length now s o : length (snd (fst (cc14_gstep now s o))) = length s.
Proof. apply gstep_length. Qed.

Lemma pn_gstep_length now s o : length (snd (fst (pn_gstep now s o))) = length s.
Proof. apply gstep_length. Qed.

Lemma cc14_step_bridge s o :
  length s = 16%nat -> Forall cc14_good s -> cc14op_valid o = true ->
  cc14_step s o = Ok (snd (fst (cc14_gstep 0 s (cc14_sop o))), snd (cc14_gstep 0 s (cc14_sop o))).
Proof.
  intros Hlen Hg Ho. destruct o as [b|]; cbn [cc14_step cc14_sop cc14op_valid] in *; [|reflexivity].
  unfold cc14_feed.
  exact (feed_multi_bridge cc14st (option cc14msg) cc14_f1v cc14_p1 cc14_reset1 None
           (fun _ => cc14_feed1) cc14_good cc14_feed1_view 0 s b Hlen Hg Ho).
Qed.

Lemma cc14_run_bridge h : forall s,
  length s = 16%nat -> Forall cc14_good s -> Forall (fun o => cc14op_valid o = true) h ->
  cc14_run s h = Ok (snd (fst (cc14_grun 0 s (map cc14_sop h))), snd (cc14_grun 0 s (map cc14_sop h))).
Proof.
  induction h as [|o h IH]; intros s Hlen Hg Hh; [reflexivity|].
  inversion Hh as [|? ? Ho Hh']; subst.
  cbn [cc14_run map]. rewrite (cc14_step_bridge s o Hlen Hg Ho). cbn [obind fst snd].
  unfold cc14_grun. cbn [grun]. fold cc14_gstep.
  pose proof (cc14_gstep_length 0 s (cc14_sop o)) as Hl.
  pose proof (cc14_gstep_good 0 s o Hg) as Hg'.
  assert (Hnow : fst (fst (cc14_gstep 0 s (cc14_sop o))) = 0) by (destruct o as [b|]; cbn;
    [destruct (channel_table _); [destruct (nth_error s _)|]|]; reflexivity).
  destruct (cc14_gstep 0 s (cc14_sop o)) as [[now1 s1] out]. cbn [fst snd] in *. subst now1.
  rewrite (IH s1) by (try assumption; congruence).
  unfold cc14_grun.
  destruct (grun cc14st (option cc14msg) cc14_f1v cc14_p1 cc14_reset1 None 0 s1 (map cc14_sop h)) as [[now2 s2] outs].
  reflexivity.
Qed.

Lemma cc14_new_good : Forall cc14_good cc14_new_scanner.
Proof. unfold cc14_new_scanner, replicate. apply Forall_forall. intros x Hx.
       apply repeat_spec in Hx. subst. cbn. exact I. Qed.

(** * the (N)RPN scanner as an arithmetic machine *)
Notation pn_p1 := (fun (_ : N) (st : pnst) (_ : N) => (st, @None pnmsg)).
Definition pn_grun := grun pnst (option pnmsg) pn_f1v pn_p1 pn_reset1 None.
Definition pn_sop (o : pnop) : sop := match o with NFeed b => OFeed b | NReset => OReset end.

Lemma pn_step_bridge s o :
  length s = 16%nat -> pnop_valid o = true ->
  pn_step s o = Ok (snd (fst (pn_gstep 0 s (pn_sop o))), snd (pn_gstep 0 s (pn_sop o))).
Proof.
  intros Hlen Ho. destruct o as [b|]; cbn [pn_step pn_sop pnop_valid] in *; [|reflexivity].
  apply pn_feed_bridge; assumption.
Qed.

Lemma pn_run_bridge h : forall s,
  length s = 16%nat -> Forall (fun o => pnop_valid o = true) h ->
  pn_run s h = Ok (snd (fst (pn_grun 0 s (map pn_sop h))), snd (pn_grun 0 s (map pn_sop h))).
Proof.
  induction h as [|o h IH]; intros s Hlen Hh; [reflexivity|].
  inversion Hh as [|? ? Ho Hh']; subst.
  cbn [pn_run map]. rewrite (pn_step_bridge s o Hlen Ho). cbn [obind fst snd].
  unfold pn_grun. cbn [grun]. fold pn_gstep.
  pose proof (pn_gstep_length 0 s (pn_sop o)) as Hl.
  assert (Hnow : fst (fst (pn_gstep 0 s (pn_sop o))) = 0) by (destruct o as [b|]; cbn;
    [destruct (channel_table _); [destruct (nth_error s _)|]|]; reflexivity).
  destruct (pn_gstep 0 s (pn_sop o)) as [[now1 s1] out]. cbn [fst snd] in *. subst now1.
  rewrite (IH s1) by (try assumption; congruence).
  unfold pn_grun.
  destruct (grun pnst (option pnmsg) pn_f1v pn_p1 pn_reset1 None 0 s1 (map pn_sop h)) as [[now2 s2] outs].
  reflexivity.
Qed.

(** * C15: channel isolation, for each scanner *)
Lemma nth_error_replicate {A} (x : A) n i : (i < n)%nat -> nth_error (replicate n x) i = Some x.
Proof.
  intros H. unfold replicate. rewrite (nth_error_nth' _ x) by (rewrite repeat_length; exact H).
  rewrite nth_repeat. reflexivity.
Qed.

Theorem cc14_isolation h c :
  Forall (fun o => cc14op_valid o = true) h -> c < 16 ->
  exists s' outs,
    cc14_run cc14_new_scanner h = Ok (s', outs) /\
    outs_on _ c (map cc14_sop h) outs
    = snd (run1 cc14st (option cc14msg) cc14_f1v cc14_p1 cc14_reset1 None c 0 cc14st_init
             (filter (relevant c) (map cc14_sop h))).
Proof.
  intros Hh Hc. assert (Hn16 : (N.to_nat c < 16)%nat) by lia. rewrite (cc14_run_bridge h cc14_new_scanner eq_refl cc14_new_good Hh).
  eexists; eexists; split; [reflexivity|].
  pose proof (isolation cc14st (option cc14msg) cc14_f1v cc14_p1 cc14_reset1 None c Hc
                (map cc14_sop h) 0 cc14_new_scanner cc14st_init
                (nth_error_replicate _ 16 (N.to_nat c) Hn16)) as H.
  unfold cc14_grun.
  destruct (grun cc14st (option cc14msg) cc14_f1v cc14_p1 cc14_reset1 None 0 cc14_new_scanner (map cc14_sop h)) as [[n2 s2] outs].
  destruct (run1 _ _ _ _ _ _ c 0 cc14st_init _) as [[n2' st2] outs'].
  destruct H as (_ & _ & H). exact H.
Qed.

Theorem pn_isolation h c :
  Forall (fun o => pnop_valid o = true) h -> c < 16 ->
  exists s' outs,
    pn_run pn_new_scanner h = Ok (s', outs) /\
    outs_on _ c (map pn_sop h) outs
    = snd (run1 pnst (option pnmsg) pn_f1v pn_p1 pn_reset1 None c 0 pnst_init
             (filter (relevant c) (map pn_sop h))).
Proof.
  intros Hh Hc. assert (Hn16 : (N.to_nat c < 16)%nat) by lia. rewrite (pn_run_bridge h pn_new_scanner eq_refl Hh).
  eexists; eexists; split; [reflexivity|].
  pose proof (isolation pnst (option pnmsg) pn_f1v pn_p1 pn_reset1 None c Hc
                (map pn_sop h) 0 pn_new_scanner pnst_init
                (nth_error_replicate _ 16 (N.to_nat c) Hn16)) as H.
  unfold pn_grun.
  destruct (grun pnst (option pnmsg) pn_f1v pn_p1 pn_reset1 None 0 pn_new_scanner (map pn_sop h)) as [[n2 s2] outs].
  destruct (run1 _ _ _ _ _ _ c 0 pnst_init _) as [[n2' st2] outs'].
  destruct H as (_ & _ & H). exact H.
Qed.

Theorem poll_isolation timeout h c :
  Forall (fun o => sop_ok o = true) h -> c < 16 ->
  exists now' s' outs,
    poll_run 0 (poll_new_scanner timeout) h = Ok (now', s', outs) /\
    outs_on _ c h outs
    = snd (run1 pollst out2 poll_f1v poll_p1 poll_reset1 (None, None) c 0 (pollst_new timeout)
             (filter (relevant c) h)).
Proof.
  intros Hh Hc. assert (Hn16 : (N.to_nat c < 16)%nat) by lia. rewrite (poll_run_bridge h 0 (poll_new_scanner timeout) eq_refl Hh).
  pose proof (isolation pollst out2 poll_f1v poll_p1 poll_reset1 (None, None) c Hc
                h 0 (poll_new_scanner timeout) (pollst_new timeout)
                (nth_error_replicate _ 16 (N.to_nat c) Hn16)) as H.
  unfold poll_grun.
  destruct (grun pollst out2 poll_f1v poll_p1 poll_reset1 (None, None) 0 (poll_new_scanner timeout) h) as [[n2 s2] outs].
  destruct (run1 _ _ _ _ _ _ c 0 (pollst_new timeout) _) as [[n2' st2] outs'].
  destruct H as (_ & _ & H). exists n2, s2, outs. split; [reflexivity|exact H].
Qed.

(** every reported message carries the channel of the input or poll that triggered it *)
Lemma cc14_out_channel now st c n v st' m :
  cc14_f1v now st (Some (c, n, v)) = (st', Some m) -> cc_channel m = c.
Proof.
  cbn [cc14_f1v]. destruct (N.leb n 31); [discriminate|]. destruct (N.leb n 63); [|discriminate].
  destruct (st_msb_cn st); [|discriminate]. destruct (st_value_msb st); [|discriminate].
  destruct (N.eqb n (n0 + 32)); [|discriminate]. intros H; inversion H; reflexivity.
Qed.

Lemma pn_out_channel now st c n v st' m :
  pn_f1v now st (Some (c, n, v)) = (st', Some m) -> pn_channel m = c.
Proof.
  cbn [pn_f1v]. unfold pn_dispatch.
  repeat match goal with |- context [N.eqb n ?k] => destruct (N.eqb n k) end;
    try discriminate;
    destruct (pn_build_number st); try discriminate;
    try destruct (s_value_lsb st); intros H; inversion H; reflexivity.
Qed.

Definition out2_channels_ok (c : N) (o : out2) : Prop :=
  (forall m, fst o = Some m -> pn_channel m = c) /\ (forall m, snd o = Some m -> pn_channel m = c).

Lemma poll_out_channel now st c n v :
  out2_channels_ok c (snd (poll_f1v now st (Some (c, n, v)))).
Proof.
  cbn [poll_f1v]. unfold poll_dispatch, one, poll_number_byte, poll_value_lsb, poll_value_msb,
    poll_value_inc_dec, expected_value_byte, resolve, out2_channels_ok.
  repeat match goal with |- context [N.eqb n ?k] => destruct (N.eqb n k) end;
    destruct (p_state st) as [[x|] r b|ns|ns arr v0 [|]|ns vm vl]; cbn;
    repeat match goal with |- context [if ?b then _ else _] => destruct b end; cbn;
    split; intros m H; inversion H; reflexivity.
Qed.

Lemma poll_poll_channel now st c m st' :
  poll_poll1 now st c = (st', Some m) -> pn_channel m = c.
Proof.
  intros H. apply poll_some_inv in H as (ns & arr & v & _ & _ & -> & _). reflexivity.
Qed.

(** * C16: non-contributing messages are transparent (the scanner state is equal, not just equivalent) *)
Theorem cc14_transparent s b :
  length s = 16%nat -> Forall cc14_good s -> valid3 b = true -> noncontrib_cc14 b = true ->
  cc14_feed s b = Ok (s, None).
Proof.
  intros Hlen Hg Hv Hn. unfold cc14_feed.
  rewrite (feed_multi_bridge cc14st (option cc14msg) cc14_f1v cc14_p1 cc14_reset1 None
             (fun _ => cc14_feed1) cc14_good cc14_feed1_view 0 s b Hlen Hg Hv).
  rewrite gstep_stutter; [reflexivity|]. intros c st _ _.
  unfold noncontrib_cc14 in Hn. destruct (as_cc b) as [[[ch n] v]|]; [|reflexivity].
  cbn [cc14_f1v]. apply N.leb_le in Hn.
  destruct (N.leb_spec n 31); [lia|]. destruct (N.leb_spec n 63); [lia|]. reflexivity.
Qed.

Lemma noncontrib_pn_neq n :
  negb (N.eqb n 6 || N.eqb n 38 || N.eqb n 96 || N.eqb n 97 || N.eqb n 98 || N.eqb n 99
        || N.eqb n 100 || N.eqb n 101) = true ->
  n <> 98 /\ n <> 99 /\ n <> 100 /\ n <> 101 /\ n <> 38 /\ n <> 6 /\ n <> 96 /\ n <> 97.
Proof.
  intros H. apply negb_true_iff in H.
  repeat (apply orb_false_iff in H as [H ?]).
  repeat match goal with X : N.eqb _ _ = false |- _ => apply N.eqb_neq in X end.
  repeat split; assumption.
Qed.

Theorem pn_transparent s b :
  length s = 16%nat -> valid3 b = true -> noncontrib_pn b = true ->
  pn_feed s b = Ok (s, None).
Proof.
  intros Hlen Hv Hn. rewrite (pn_feed_bridge s b Hlen Hv). unfold pn_gstep.
  rewrite gstep_stutter; [reflexivity|]. intros c st _ _.
  unfold noncontrib_pn in Hn. destruct (as_cc b) as [[[ch n] v]|]; [|reflexivity].
  apply noncontrib_pn_neq in Hn as (N1 & N2 & N3 & N4 & N5 & N6 & N7 & N8).
  cbn [pn_f1v]. unfold pn_dispatch. kill_tests. reflexivity.
Qed.

Theorem poll_transparent now s b :
  length s = 16%nat -> valid3 b = true -> noncontrib_pn b = true ->
  poll_feed now s b = Ok (s, (None, None)).
Proof.
  intros Hlen Hv Hn.
  pose proof (poll_step_bridge now s (OFeed b) Hlen Hv) as H. cbn [poll_step] in H.
  destruct (poll_feed now s b) as [[s' o]|]; [|discriminate]. cbn [obind fst snd] in H.
  unfold poll_gstep in H. rewrite gstep_stutter in H; [inversion H; reflexivity|]. intros c st _ _.
  unfold noncontrib_pn in Hn. destruct (as_cc b) as [[[ch n] v]|]; [|reflexivity].
  apply noncontrib_pn_neq in Hn as (N1 & N2 & N3 & N4 & N5 & N6 & N7 & N8).
  cbn [poll_f1v]. unfold poll_dispatch. kill_tests. reflexivity.
Qed.

(** the predicates name exactly the contributors *)
Theorem predicates_exact n :
  n < 128 ->
  (can_be_part_of_14_bit n = true <-> n < 64) /\
  (corresponding_lsb n = (if N.ltb n 32 then Some (n + 32) else None)) /\
  (is_parameter_number_cn n = true <-> In n [6; 38; 96; 97; 98; 99; 100; 101]).
Proof.
  intros Hn. split; [|split].
  - unfold can_be_part_of_14_bit. split; intros H; [apply N.ltb_lt|apply N.ltb_lt]; exact H.
  - unfold corresponding_lsb. destruct (N.leb_spec 32 n), (N.ltb_spec n 32); try lia; reflexivity.
  - assert (S : forallN 128 (fun n => Bool.eqb (is_parameter_number_cn n)
                                (existsb (N.eqb n) [6; 38; 96; 97; 98; 99; 100; 101])) = true)
      by (vm_compute; reflexivity).
    pose proof (forallN_spec _ _ S n Hn) as H. cbv beta in H. apply eqb_prop in H. rewrite H.
    rewrite existsb_exists. split.
    + intros (x & Hx & E). apply N.eqb_eq in E. subst. exact Hx.
    + intros Hx. exists n. split; [exact Hx|apply N.eqb_refl].
Qed.

(** the predicates agree with the scanners: a controller the predicate excludes is transparent
    (above), and one it includes makes the scanner react in some reachable state *)
Theorem cc14_contributors_react n v :
  n < 64 -> exists st, cc14_good st /\ cc14_f1v 0 st (Some (0, n, v)) <> (st, None).
Proof.
  intros Hn. destruct (N.leb_spec n 31) as [H31|H31].
  - exists cc14st_init. split; [exact I|]. cbn [cc14_f1v].
    destruct (N.leb_spec n 31); [|lia]. unfold cc14st_init. intros Hx; inversion Hx.
  - exists (mkCC14St (Some (n - 32)) (Some 0)). split; [cbn; lia|]. cbn [cc14_f1v st_msb_cn st_value_msb].
    destruct (N.leb_spec n 31); [lia|]. destruct (N.leb_spec n 63); [|lia].
    replace (n - 32 + 32) with n by lia. rewrite N.eqb_refl. intros Hx; inversion Hx.
Qed.

Theorem pn_contributors_react n v :
  In n [6; 38; 96; 97; 98; 99; 100; 101] ->
  exists st, pn_f1v 0 st (Some (0, n, v)) <> (st, None).
Proof.
  intros Hn. cbn [In] in Hn.
  destruct Hn as [<-|[<-|[<-|[<-|[<-|[<-|[<-|[<-|[]]]]]]]]];
    exists (mkPNSt (Some 1) (Some 2) (negb (N.leb 100 100 && false)) (Some (v + 1)));
    cbn; intros H; inversion H; lia.
Qed.

(** * C17: reset is equivalent to starting over *)
Lemma map_const_replicate {A B} (l : list A) (x : B) :
  map (fun _ => x) l = replicate (length l) x.
Proof. induction l; cbn; [reflexivity|]. unfold replicate in *. cbn. f_equal. assumption. Qed.

Theorem cc14_reset_is_new s : length s = 16%nat -> cc14_reset s = cc14_new_scanner.
Proof.
  intros H. unfold cc14_reset, reset_multi, cc14_reset1, cc14_new_scanner.
  rewrite map_const_replicate, H. reflexivity.
Qed.

Theorem pn_reset_is_new s : length s = 16%nat -> pn_reset s = pn_new_scanner.
Proof.
  intros H. unfold pn_reset, reset_multi, pn_reset1, pn_new_scanner.
  rewrite map_const_replicate, H. reflexivity.
Qed.

Theorem poll_reset_is_new s timeout :
  length s = 16%nat -> Forall (fun st => p_timeout st = timeout) s ->
  poll_reset s = poll_new_scanner timeout.
Proof.
  intros H Ht. unfold poll_reset, reset_multi, poll_new_scanner.
  rewrite <- H. clear H. induction Ht as [|st s E Hs IH]; [reflexivity|].
  cbn [map length replicate repeat]. unfold replicate in IH. rewrite IH.
  unfold poll_reset1, with_state, pollst_new. rewrite E. reflexivity.
Qed.

(** timeouts (and lengths) are invariants of every operation, so every reachable polling scanner
    satisfies the premises of [poll_reset_is_new] *)
Lemma poll_gstep_timeouts timeout now s o :
  Forall (fun st => p_timeout st = timeout) s ->
  Forall (fun st => p_timeout st = timeout) (snd (fst (poll_gstep now s o))).
Proof.
  intros Ht. destruct o as [b|c| |dt]; unfold poll_gstep; cbn [gstep].
  - destruct (channel_table (fst (fst b))) as [c|]; [|exact Ht].
    destruct (nth_error s (N.to_nat c)) as [st|] eqn:E; [|exact Ht]. cbn [fst snd].
    apply Forall_upd; [exact Ht|].
    assert (Hst : p_timeout st = timeout).
    { rewrite Forall_forall in Ht. apply Ht. eapply nth_error_In; exact E. }
    destruct (as_cc b) as [[[ch n] v]|]; cbn [poll_f1v fst]; [|exact Hst].
    unfold poll_dispatch, one, poll_number_byte, poll_value_lsb, poll_value_msb, poll_value_inc_dec,
      expected_value_byte, with_state.
    repeat match goal with |- context [N.eqb n ?k] => destruct (N.eqb n k) end;
      destruct (p_state st) as [[x|] r b0|ns|ns arr v0 [|]|ns vm vl]; cbn;
      repeat match goal with |- context [if ?b then _ else _] => destruct b end; exact Hst.
  - destruct (nth_error s (N.to_nat c)) as [st|] eqn:E; [|exact Ht]. cbn [fst snd].
    apply Forall_upd; [exact Ht|].
    assert (Hst : p_timeout st = timeout).
    { rewrite Forall_forall in Ht. apply Ht. eapply nth_error_In; exact E. }
    unfold poll_p1, poll_poll1. cbn [fst].
    destruct (p_state st); try exact Hst. destruct (N.ltb _ _); exact Hst.
  - cbn [fst snd]. apply Forall_forall. intros x Hx. apply in_map_iff in Hx as (y & <- & Hy).
    rewrite Forall_forall in Ht. cbn. apply Ht. exact Hy.
  - exact Ht.
Qed.

Theorem poll_reset_after_any_history timeout h :
  Forall (fun o => sop_ok o = true) h ->
  exists now' s' outs,
    poll_run 0 (poll_new_scanner timeout) h = Ok (now', s', outs) /\
    poll_reset s' = poll_new_scanner timeout.
Proof.
  intros Hh. rewrite (poll_run_bridge h 0 (poll_new_scanner timeout) eq_refl Hh).
  assert (G : forall h now s, length s = 16%nat -> Forall (fun st => p_timeout st = timeout) s ->
              let r := poll_grun now s h in
              length (snd (fst r)) = 16%nat /\ Forall (fun st => p_timeout st = timeout) (snd (fst r))).
  { clear. induction h as [|o h IH]; intros now s Hl Ht; [cbn; auto|].
    unfold poll_grun. cbn [grun]. fold poll_gstep.
    pose proof (poll_gstep_length now s o) as Hl'. pose proof (poll_gstep_timeouts timeout now s o Ht) as Ht'.
    destruct (poll_gstep now s o) as [[now1 s1] out]. cbn [fst snd] in *.
    specialize (IH now1 s1 ltac:(congruence) Ht'). unfold poll_grun in IH.
    destruct (grun pollst out2 poll_f1v poll_p1 poll_reset1 (None, None) now1 s1 h) as [[now2 s2] outs].
    exact IH. }
  specialize (G h 0 (poll_new_scanner timeout) eq_refl).
  assert (Ht0 : Forall (fun st => p_timeout st = timeout) (poll_new_scanner timeout)).
  { unfold poll_new_scanner, replicate. apply Forall_forall. intros x Hx.
    apply repeat_spec in Hx. subst. reflexivity. }
  specialize (G Ht0). cbv zeta in G.
  destruct (poll_grun 0 (poll_new_scanner timeout) h) as [[now' s'] outs]. cbn [fst snd] in G.
  exists now', s', outs. split; [reflexivity|]. apply poll_reset_is_new; tauto.
Qed.
