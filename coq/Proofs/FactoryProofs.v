(** C06: factory constructors build exactly the message they describe. *)
From Verif Require Import Base.Prelude Base.Sweep Base.Enc Model.ShortMsg Model.Factory
  Spec.MidiTable Spec.Canon Spec.ShortMsgObs Proofs.BitFacts Proofs.ShortMsgFacts
  Proofs.ShortMsgProofs.
Open Scope N_scope.

(** argument ranges of the named constructors (channel <= 15, 7-bit <= 127, 14-bit <= 16383) *)
Definition ctor_args_ok (idx x y z : N) : bool :=
  let '(mx, my, mz) := ctor_arg_max idx in
  let n := ctor_arity idx in
  (if Nat.leb 1 n then N.leb x mx else true) &&
  (if Nat.leb 2 n then N.leb y my else true) &&
  (if Nat.leb 3 n then N.leb z mz else true).

Lemma split14 v : v < 16384 ->
  (N.land v 127) mod 256 = v mod 128 /\ (N.shiftr v 7) mod 256 = v / 128.
Proof.
  intros Hv.
  assert (S : forallN 16384 (fun v => N.eqb ((N.land v 127) mod 256) (v mod 128) &&
                                      N.eqb ((N.shiftr v 7) mod 256) (v / 128)) = true)
    by (vm_compute; reflexivity).
  pose proof (forallN_spec _ _ S v Hv) as H. cbv beta in H.
  apply andb_true_iff in H as [H1 H2]. apply N.eqb_eq in H1, H2. auto.
Qed.

(** the named constructors (other than the quarter-frame one, which takes a frame) assemble
    exactly the documented layout: type and channel in the status byte, 14-bit arguments split
    into low 7 bits (data byte 1) and high 7 bits (data byte 2), unused data bytes zero *)
Lemma ctor_bytes_layout idx x y z :
  idx <= 18 -> idx <> 8 -> ctor_args_ok idx x y z = true ->
  ctor_bytes idx x y z = ctor_layout idx x y z.
Proof.
  intros Hi H8 Hok.
  assert (Hcases : In idx [0;1;2;3;4;5;6;7;9;10;11;12;13;14;15;16;17;18]).
  { assert (S : forallN 19 (fun i => N.eqb i 8 || existsb (N.eqb i)
                                       [0;1;2;3;4;5;6;7;9;10;11;12;13;14;15;16;17;18]) = true)
      by (vm_compute; reflexivity).
    pose proof (forallN_spec _ _ S idx ltac:(lia)) as H. cbv beta in H.
    destruct (N.eqb_spec idx 8); [contradiction|]. cbn [orb] in H.
    apply existsb_exists in H as (j & Hj & E). apply N.eqb_eq in E. subst. exact Hj. }
  cbn [In] in Hcases.
  repeat (destruct Hcases as [<-|Hcases]); try contradiction;
    unfold ctor_args_ok in Hok; cbn in Hok;
    repeat match goal with
      | H : _ && _ = true |- _ => apply andb_true_iff in H as [? ?]
      | H : N.leb _ _ = true |- _ => apply N.leb_le in H
      end;
    cbn [ctor_bytes ctor_layout]; unfold chan_bytes, sys_bytes; cbn [smt_code];
    try (rewrite build_status_byte_arith by (cbn; tauto || lia));
    try (destruct (split14 y ltac:(lia)) as [-> ->]);
    try (destruct (split14 x ltac:(lia)) as [-> ->]);
    try reflexivity; f_equal; f_equal; lia.
Qed.

Lemma ctor_tcqf_layout M (fbu : bytes -> outcome M) a :
  a < 128 -> ctor_tcqf fbu a = fbu (ctor_layout 8 a 0 0).
Proof.
  intros Ha. unfold ctor_tcqf. destruct (tcqf_facts a Ha) as (f & Hf & _ & Hu & _).
  rewrite Hf. cbn [obind]. rewrite Hu. reflexivity.
Qed.

(** generic constructors: panic exactly when the type is not of the category *)
Lemma channel_message_spec M (fbu : bytes -> outcome M) t ch a c :
  channel_message fbu t ch a c =
  if N.ltb (smt_code t) 240 then fbu (build_status_byte (smt_code t) ch, a, c) else Panic.
Proof. destruct t; reflexivity. Qed.

Lemma system_common_message_spec M (fbu : bytes -> outcome M) t a c :
  system_common_message fbu t a c =
  if N.leb 241 (smt_code t) && N.leb (smt_code t) 247 then fbu (smt_code t, a, c) else Panic.
Proof. destruct t; reflexivity. Qed.

Lemma system_real_time_message_spec M (fbu : bytes -> outcome M) t :
  system_real_time_message fbu t =
  if N.leb 248 (smt_code t) then fbu (smt_code t, 0, 0) else Panic.
Proof. destruct t; reflexivity. Qed.

(** test_util shorthands: panic exactly for out-of-range arguments, else the factory result *)
Lemma tu_ctor_spec idx x y z :
  idx <= 18 -> idx <> 8 ->
  tu_ctor idx x y z =
  if ctor_args_ok idx x y z
  then Ok (ctor_layout idx (if Nat.leb 1 (ctor_arity idx) then x else 0)
                           (if Nat.leb 2 (ctor_arity idx) then y else 0)
                           (if Nat.leb 3 (ctor_arity idx) then z else 0))
  else Panic.
Proof.
  intros Hi H8.
  destruct (ctor_args_ok idx x y z) eqn:Hok.
  - unfold tu_ctor. pose proof Hok as Hok'. unfold ctor_args_ok in Hok'.
    destruct (ctor_arg_max idx) as [[mx my] mz] eqn:Em.
    apply andb_true_iff in Hok' as [Hxy Hz]. apply andb_true_iff in Hxy as [Hx Hy].
    unfold checked.
    destruct (Nat.leb 1 (ctor_arity idx)) eqn:A1; [rewrite Hx|]; cbn [obind];
      (destruct (Nat.leb 2 (ctor_arity idx)) eqn:A2; [rewrite Hy|]); cbn [obind];
      (destruct (Nat.leb 3 (ctor_arity idx)) eqn:A3; [rewrite Hz|]); cbn [obind];
      f_equal; apply ctor_bytes_layout; try assumption;
      unfold ctor_args_ok; rewrite Em, A1, A2, A3; cbn [andb];
      rewrite ?Hx, ?Hy, ?Hz; try reflexivity;
      repeat match goal with |- context [N.leb 0 ?m] => destruct (N.leb_spec 0 m); [|lia] end;
      reflexivity.
  - unfold tu_ctor, ctor_args_ok in *.
    destruct (ctor_arg_max idx) as [[mx my] mz]. unfold checked.
    destruct (Nat.leb 1 (ctor_arity idx)); [destruct (N.leb x mx); [|reflexivity]|]; cbn [obind andb] in *;
      (destruct (Nat.leb 2 (ctor_arity idx)); [destruct (N.leb y my); [|reflexivity]|]); cbn [obind andb] in *;
      (destruct (Nat.leb 3 (ctor_arity idx)); [destruct (N.leb z mz); [|reflexivity]|]); cbn [obind andb] in *;
      discriminate.
Qed.

Lemma tu_short_spec s a c :
  s < 256 ->
  tu_short s a c = if N.leb 128 s && N.leb a 127 && N.leb c 127 then Ok (s, a, c) else Panic.
Proof.
  intros Hs. unfold tu_short, checked. rewrite extract_type_table by assumption.
  destruct (N.leb a 127); cbn [obind andb]; [|rewrite andb_false_r; reflexivity].
  destruct (N.leb c 127); cbn [obind andb]; [|rewrite andb_false_r; reflexivity].
  rewrite !andb_true_r.
  destruct (N.leb_spec 128 s).
  - destruct (type_table_some s H Hs) as [t ->]. reflexivity.
  - rewrite type_table_none by assumption. reflexivity.
Qed.
