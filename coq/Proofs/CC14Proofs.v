(** C07 / C08: the 14-bit Control Change encoder and scanner. *)
From Verif Require Import Base.Prelude Base.Sweep Model.ShortMsg Model.PerChannel Model.CC14
  Spec.MidiTable Spec.CC14Spec Proofs.BitFacts Proofs.ShortMsgFacts.

(** * message: constructor, getters, encoding *)
Lemma cc14_new_panic_iff ch cn v : cc14_new ch cn v = Panic <-> 32 <= cn.
Proof.
  unfold cc14_new, corresponding_lsb. destruct (N.leb_spec 32 cn); split; intros; try lia;
    try reflexivity; discriminate.
Qed.

Lemma cc14_new_ok ch cn v : cn < 32 -> cc14_new ch cn v = Ok (mkCC14 ch cn v).
Proof.
  intros H. unfold cc14_new, corresponding_lsb. destruct (N.leb_spec 32 cn); [lia|reflexivity].
Qed.

Lemma cc14_lsb_is_msb_plus_32 ch cn v :
  cn < 32 -> cc14_lsb_cn (mkCC14 ch cn v) = Ok (cn + 32).
Proof.
  intros H. unfold cc14_lsb_cn, corresponding_lsb. cbn [cc_msb_cn].
  destruct (N.leb_spec 32 cn); [lia|reflexivity].
Qed.

Lemma control_change_bytes_arith ch cn v :
  ch < 16 -> control_change_bytes ch cn v = (176 + ch, cn, v).
Proof.
  intros H. unfold control_change_bytes. cbn [smt_code].
  rewrite build_status_byte_arith; [reflexivity| |assumption]. simpl; tauto.
Qed.

(** the encoding into RawShortMessage is exactly: controller n with the high 7 bits, then
    controller n+32 with the low 7 bits, both on the message's channel *)
Lemma cc14_encode_raw ch cn v :
  ch < 16 -> cn < 32 -> v < 16384 ->
  cc14_to_short_messages raw_fbu (mkCC14 ch cn v)
  = Ok ((176 + ch, cn, v / 128), (176 + ch, cn + 32, v mod 128)).
Proof.
  intros Hc Hn Hv. unfold cc14_to_short_messages, raw_fbu. cbn [obind cc_channel cc_msb_cn cc_value].
  rewrite cc14_lsb_is_msb_plus_32 by assumption. cbn [obind].
  rewrite !control_change_bytes_arith by assumption.
  rewrite extract_high_7_arith, extract_low_7_arith by assumption. reflexivity.
Qed.

(** * scanner *)
Definition st_of (o : option (N * N)) : cc14st :=
  match o with
  | None => cc14st_init
  | Some (n, v) => mkCC14St (Some n) (Some v)
  end.

(** the scanner state is a function of the history: per channel, the most recent MSB *)
Definition Inv (s : cc14_scanner) (hr : list cc14op) : Prop :=
  length s = 16%nat /\
  forall c, c < 16 -> nth_error s (N.to_nat c) = Some (st_of (last_msb_rev c hr)).

Definition hist_valid (hr : list cc14op) : Prop := Forall (fun o => cc14op_valid o = true) hr.

Lemma last_msb_rev_bounds c hr n v :
  hist_valid hr -> last_msb_rev c hr = Some (n, v) -> n < 32 /\ v < 128.
Proof.
  intros Hv. induction Hv as [|o hr Ho Hv IH]; cbn [last_msb_rev]; [discriminate|].
  destruct o as [b|]; [|discriminate].
  destruct b as [[s a] x]. cbn [cc14op_valid] in Ho.
  apply valid3_bounds in Ho as (H1 & H2 & Ha & Hx).
  destruct (as_cc (s, a, x)) as [[[c' n'] v']|] eqn:E; [|exact IH].
  apply as_cc_channel in E as (_ & _ & -> & ->); [|assumption].
  destruct (N.eqb c' c && N.ltb a 32) eqn:E2; [|exact IH].
  intros H; inversion H; subst. apply andb_true_iff in E2 as [_ E2]. apply N.ltb_lt in E2. lia.
Qed.

Lemma Inv_init : Inv cc14_new_scanner [].
Proof.
  split; [reflexivity|]. intros c Hc. cbn [last_msb_rev st_of].
  assert (S : forallN 16 (fun c => match nth_error cc14_new_scanner (N.to_nat c) with
                                   | Some (mkCC14St None None) => true | _ => false end) = true)
    by (vm_compute; reflexivity).
  pose proof (forallN_spec _ _ S c Hc) as H. cbv beta in H.
  destruct (nth_error cc14_new_scanner (N.to_nat c)) as [[[?|] [?|]]|]; try discriminate.
  reflexivity.
Qed.

Definition cc14_feed1_view (st : cc14st) (o : option (N * N * N))
  : outcome (cc14st * option cc14msg) :=
  match o with
  | Some (channel, cn, v) =>
      if N.leb cn 31 then Ok (mkCC14St (Some cn) (Some v), None)
      else if N.leb cn 63 then cc14_process_value_lsb st channel cn v
      else Ok (st, None)
  | None => Ok (st, None)
  end.

Lemma cc14_feed1_via_view st m : cc14_feed1 st m = cc14_feed1_view st (scc_view m).
Proof. destruct m; reflexivity. Qed.

Lemma to_nat_lt16 c : c < 16 -> (N.to_nat c < 16)%nat.
Proof. lia. Qed.

Lemma step_correct s hr o :
  Inv s hr -> hist_valid hr -> cc14op_valid o = true ->
  exists s', cc14_step s o = Ok (s', cc14_spec_out hr o) /\ Inv s' (o :: hr).
Proof.
  intros [Hlen Hst] Hhv Hov. destruct o as [b|].
  2:{ (* reset *)
    eexists; split; [reflexivity|]. split.
    - unfold cc14_reset, reset_multi. rewrite map_length. exact Hlen.
    - intros c Hc. unfold cc14_reset, reset_multi. rewrite nth_error_map, (Hst c Hc).
      reflexivity. }
  destruct b as [[s0 a] x]. cbn [cc14op_valid] in Hov.
  pose proof (raw_ts_view _ Hov) as (m & Hts & Hview).
  apply valid3_bounds in Hov as (H1 & H2 & Ha & Hx).
  cbn [cc14_step]. unfold cc14_feed, feed_multi.
  rewrite raw_channel_spec by assumption. cbn [obind].
  destruct (channel_table s0) as [ch|] eqn:Ech.
  2:{ (* system message: nothing reported, nothing changes *)
    pose proof (as_cc_none_or_system s0 a x Ech H2) as Hn.
    eexists; split.
    - cbn [cc14_spec_out]. rewrite Hn. reflexivity.
    - split; [exact Hlen|]. intros c Hc. cbn [last_msb_rev]. rewrite Hn. apply Hst, Hc. }
  pose proof (channel_table_lt _ _ Ech) as Hch.
  rewrite (Hst ch Hch). rewrite Hts. cbn [obind].
  rewrite cc14_feed1_via_view, Hview.
  destruct (as_cc (s0, a, x)) as [[[ch' n] v]|] eqn:Ecc.
  2:{ (* channel message that is not a Control Change *)
    cbn [cc14_feed1_view obind fst snd]. eexists; split.
    - cbn [cc14_spec_out]. rewrite Ecc. rewrite upd_same_id by (apply Hst, Hch). reflexivity.
    - split; [exact Hlen|]. intros c Hc. cbn [last_msb_rev]. rewrite Ecc. apply Hst, Hc. }
  pose proof (as_cc_channel _ _ _ _ _ _ Ecc H2) as (_ & Ech' & -> & ->).
  rewrite Ech in Ech'. inversion Ech'; subst ch'. clear Ech'.
  cbn [cc14_feed1_view cc14_spec_out]. rewrite Ecc.
  destruct (N.leb_spec a 31) as [Hn31|Hn31].
  - (* MSB: stored, nothing reported *)
    cbn [obind fst snd]. destruct (N.leb_spec 32 a); [lia|]. cbn [andb].
    eexists; split; [reflexivity|]. split.
    + rewrite upd_length. exact Hlen.
    + intros c Hc. cbn [last_msb_rev]. rewrite Ecc.
      destruct (N.eqb_spec ch c) as [->|Hne].
      * destruct (N.ltb_spec a 32); [|lia]. cbn [andb st_of].
        apply nth_error_upd_same. rewrite Hlen. apply to_nat_lt16, Hc.
      * cbn [andb]. rewrite nth_error_upd_other by lia. apply Hst, Hc.
  - destruct (N.leb_spec 32 a); [|lia]. cbn [andb].
    assert (Hinv' : forall s', s' = upd s (N.to_nat ch) (st_of (last_msb_rev ch hr)) ->
                               Inv s' (CFeed (s0, a, x) :: hr)).
    { intros s' ->. rewrite upd_same_id by (apply Hst, Hch). split; [exact Hlen|].
      intros c Hc. cbn [last_msb_rev]. rewrite Ecc.
      destruct (N.ltb_spec a 32); [lia|]. rewrite andb_false_r. apply Hst, Hc. }
    destruct (N.leb_spec a 63) as [Hn63|Hn63].
    + (* LSB *)
      destruct (N.ltb_spec a 64); [|lia].
      unfold cc14_process_value_lsb.
      destruct (last_msb_rev ch hr) as [[n0 v0]|] eqn:Elast; cbn [st_of st_msb_cn st_value_msb cc14st_init].
      * pose proof (last_msb_rev_bounds _ _ _ _ Hhv Elast) as [Hn0 Hv0].
        unfold corresponding_lsb. destruct (N.leb_spec 32 n0); [lia|].
        rewrite (N.eqb_sym (n0 + 32) a).
        destruct (N.eqb_spec a (n0 + 32)) as [->|Hne]; cbn [negb].
        -- rewrite cc14_new_ok by assumption. cbn [obind fst snd].
           rewrite build_14_arith by assumption.
           eexists; split; [reflexivity|]. apply Hinv'. reflexivity.
        -- cbn [obind fst snd]. eexists; split; [reflexivity|]. apply Hinv'. reflexivity.
      * cbn [obind fst snd]. eexists; split; [reflexivity|]. apply Hinv'. reflexivity.
    + (* controller number >= 64 *)
      destruct (N.ltb_spec a 64); [lia|]. cbn [obind fst snd].
      eexists; split; [reflexivity|]. apply Hinv'. reflexivity.
Qed.

Lemma run_correct_from s hr h :
  Inv s hr -> hist_valid hr -> Forall (fun o => cc14op_valid o = true) h ->
  exists s', cc14_run s h = Ok (s', cc14_spec_outs_from hr h) /\ Inv s' (rev h ++ hr).
Proof.
  revert s hr. induction h as [|o h IH]; intros s hr Hinv Hhv Hh.
  - eexists; split; [reflexivity|exact Hinv].
  - inversion Hh as [|? ? Ho Hh']; subst.
    destruct (step_correct s hr o Hinv Hhv Ho) as (s1 & Hstep & Hinv1).
    destruct (IH s1 (o :: hr) Hinv1 (Forall_cons _ Ho Hhv) Hh') as (s2 & Hrun & Hinv2).
    exists s2. split.
    + cbn [cc14_run cc14_spec_outs_from]. rewrite Hstep. cbn [obind fst snd]. rewrite Hrun. reflexivity.
    + cbn [rev]. rewrite <- app_assoc. exact Hinv2.
Qed.

(** C08: for every finite history of valid feeds and resets, the scanner's outputs are exactly
    the specified ones, operation by operation *)
Lemma cc14_exact h :
  Forall (fun o => cc14op_valid o = true) h ->
  exists s', cc14_run cc14_new_scanner h = Ok (s', cc14_spec_outs h).
Proof.
  intros Hh. destruct (run_correct_from _ [] h Inv_init (Forall_nil _) Hh) as (s' & H & _).
  eauto.
Qed.

(** every state reachable by a valid history satisfies the invariant for that history *)
Lemma reachable_inv h :
  Forall (fun o => cc14op_valid o = true) h ->
  exists s', cc14_run cc14_new_scanner h = Ok (s', cc14_spec_outs h) /\ Inv s' (rev h) /\ hist_valid (rev h).
Proof.
  intros Hh. destruct (run_correct_from _ [] h Inv_init (Forall_nil _) Hh) as (s' & H & Hi).
  rewrite app_nil_r in Hi. exists s'. split; [exact H|]. split; [exact Hi|].
  unfold hist_valid. apply Forall_rev. exact Hh.
Qed.

(** C07: whatever the scanner was fed before (any valid history), feeding the encoding of a
    message yields nothing for the first and exactly the message for the second short message *)
Lemma scan_encode_after_history h ch cn v :
  Forall (fun o => cc14op_valid o = true) h ->
  ch < 16 -> cn < 32 -> v < 16384 ->
  exists s0 outs0 s1,
    cc14_run cc14_new_scanner h = Ok (s0, outs0) /\
    cc14_run s0 [CFeed (176 + ch, cn, v / 128); CFeed (176 + ch, cn + 32, v mod 128)]
    = Ok (s1, [None; Some (mkCC14 ch cn v)]).
Proof.
  intros Hh Hc Hn Hv.
  destruct (reachable_inv h Hh) as (s0 & Hrun & Hinv & Hhv).
  exists s0, (cc14_spec_outs h).
  pose proof (div_mod_128 v Hv) as (Hhi & Hlo & Hsum).
  assert (Hops : Forall (fun o => cc14op_valid o = true)
                   [CFeed (176 + ch, cn, v / 128); CFeed (176 + ch, cn + 32, v mod 128)]).
  { repeat constructor; cbn [cc14op_valid valid3].
    - repeat (apply andb_true_iff; split); try apply N.leb_le; try apply N.ltb_lt; lia.
    - repeat (apply andb_true_iff; split); try apply N.leb_le; try apply N.ltb_lt; lia. }
  destruct (run_correct_from s0 (rev h) _ Hinv Hhv Hops) as (s1 & Hrun1 & _).
  exists s1. split; [exact Hrun|]. rewrite Hrun1. f_equal. f_equal.
  cbn [cc14_spec_outs_from cc14_spec_out last_msb_rev].
  assert (Ediv : (176 + ch) / 16 = 11).
  { symmetry. apply (N.div_unique (176 + ch) 16 11 ch); lia. }
  assert (Emod : (176 + ch) mod 16 = ch).
  { symmetry. apply (N.mod_unique (176 + ch) 16 11 ch); lia. }
  unfold as_cc. rewrite Ediv, Emod. cbn [N.eqb]. rewrite N.eqb_refl.
  destruct (N.leb_spec 32 cn); [lia|]. cbn [andb].
  destruct (N.leb_spec 32 (cn + 32)); [|lia]. destruct (N.ltb_spec (cn + 32) 64); [|lia].
  destruct (N.ltb_spec cn 32); [|lia].
  cbv beta iota delta [andb]. rewrite !N.eqb_refl, Hsum. reflexivity.
Qed.

(** non-vacuity: a non-initial reachable state *)
Example reachable_nontrivial :
  exists s, cc14_run cc14_new_scanner [CFeed (177, 2, 8)] = Ok (s, [None])
            /\ nth_error s 1 = Some (mkCC14St (Some 2) (Some 8)).
Proof. eexists; split; vm_compute; reflexivity. Qed.

(** encoding into StructuredShortMessage yields the same bytes *)
Lemma struct_cc_roundtrip ch n v :
  ch < 16 ->
  omap struct_tb (struct_fbu (176 + ch, n, v)) = Ok (176 + ch, n, v).
Proof.
  intros Hc. unfold struct_fbu, struct_of_bytes.
  rewrite extract_type_table by lia.
  assert (S : forallN 16 (fun c => optT_eqb (type_table (176 + c)) (Some TControlChange)
                                   && N.eqb (extract_channel (176 + c)) c
                                   && N.eqb (build_status_byte 176 c) (176 + c)) = true)
    by (vm_compute; reflexivity).
  pose proof (forallN_spec _ _ S ch Hc) as H. cbv beta in H.
  apply andb_true_iff in H as [H H3]. apply andb_true_iff in H as [H1 H2].
  apply optT_eqb_eq in H1. apply N.eqb_eq in H2, H3. rewrite H1. cbn [omap].
  unfold struct_tb, g_to_bytes_default. cbn [struct_sb struct_d1 struct_d2 smt_code].
  rewrite H2, H3. reflexivity.
Qed.

Lemma cc14_encode_struct ch cn v :
  ch < 16 -> cn < 32 -> v < 16384 ->
  omap (fun p => (struct_tb (fst p), struct_tb (snd p)))
       (cc14_to_short_messages struct_fbu (mkCC14 ch cn v))
  = Ok ((176 + ch, cn, v / 128), (176 + ch, cn + 32, v mod 128)).
Proof.
  intros Hc Hn Hv. unfold cc14_to_short_messages. cbn [cc_channel cc_msb_cn cc_value].
  rewrite cc14_lsb_is_msb_plus_32 by assumption.
  rewrite control_change_bytes_arith by assumption.
  rewrite extract_high_7_arith, extract_low_7_arith by assumption.
  pose proof (struct_cc_roundtrip ch cn (v / 128) Hc) as H1.
  pose proof (struct_cc_roundtrip ch (cn + 32) (v mod 128) Hc) as H2.
  destruct (struct_fbu (176 + ch, cn, v / 128)) as [m1|]; [|discriminate].
  cbn [obind]. rewrite control_change_bytes_arith by assumption.
  destruct (struct_fbu (176 + ch, cn + 32, v mod 128)) as [m2|]; [|discriminate].
  cbn [omap obind fst snd] in *.
  assert (E1 : struct_tb m1 = (176 + ch, cn, v / 128)) by congruence.
  assert (E2 : struct_tb m2 = (176 + ch, cn + 32, v mod 128)) by congruence.
  rewrite E1, E2. reflexivity.
Qed.
