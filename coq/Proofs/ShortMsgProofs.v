(** C01 / C02 / C03: short messages -- bytes, canonical form, accessors, implementations. *)
From Verif Require Import Base.Prelude Base.Sweep Base.Enc Model.ShortMsg Model.Factory
  Spec.MidiTable Spec.Canon Spec.ShortMsgObs Proofs.BitFacts Proofs.ShortMsgFacts.
Open Scope N_scope.

(** * sweep lemmas over the status byte (256 values) and 7-bit data (128 / 128x128 values) *)
Definition rebuild (t : smtype) (s : N) : N :=
  if is_channel_type t then build_status_byte (smt_code t) (extract_channel s) else smt_code t.

Lemma status_rebuild s t : s < 256 -> type_table s = Some t -> rebuild t s = s.
Proof.
  intros Hs Ht.
  assert (S : forallN 256 (fun s => match type_table s with
                                    | Some t => N.eqb (rebuild t s) s | None => true end) = true)
    by (vm_compute; reflexivity).
  pose proof (forallN_spec _ _ S s Hs) as H. cbv beta in H. rewrite Ht in H.
  apply N.eqb_eq. exact H.
Qed.

Lemma uses_by_type s t : s < 256 -> type_table s = Some t ->
  uses_d1 s = (match t with
               | TNoteOff | TNoteOn | TPolyphonicKeyPressure | TControlChange | TProgramChange
               | TChannelPressure | TPitchBendChange | TTimeCodeQuarterFrame
               | TSongPositionPointer | TSongSelect => true | _ => false end) /\
  uses_d2 s = (match t with
               | TNoteOff | TNoteOn | TPolyphonicKeyPressure | TControlChange | TPitchBendChange
               | TSongPositionPointer => true | _ => false end) /\
  N.eqb s 241 = (match t with TTimeCodeQuarterFrame => true | _ => false end).
Proof.
  intros Hs Ht.
  assert (S : forallN 256 (fun s => match type_table s with
      | Some t =>
          Bool.eqb (uses_d1 s) (match t with
               | TNoteOff | TNoteOn | TPolyphonicKeyPressure | TControlChange | TProgramChange
               | TChannelPressure | TPitchBendChange | TTimeCodeQuarterFrame
               | TSongPositionPointer | TSongSelect => true | _ => false end) &&
          Bool.eqb (uses_d2 s) (match t with
               | TNoteOff | TNoteOn | TPolyphonicKeyPressure | TControlChange | TPitchBendChange
               | TSongPositionPointer => true | _ => false end) &&
          Bool.eqb (N.eqb s 241) (match t with TTimeCodeQuarterFrame => true | _ => false end)
      | None => true end) = true) by (vm_compute; reflexivity).
  pose proof (forallN_spec _ _ S s Hs) as H. cbv beta in H. rewrite Ht in H.
  apply andb_true_iff in H as [H H3]. apply andb_true_iff in H as [H1 H2].
  apply eqb_prop in H1, H2, H3. auto.
Qed.

Lemma split_build a c : a < 128 -> c < 128 ->
  extract_low_7 (build_14 c a) = a /\ extract_high_7 (build_14 c a) = c.
Proof.
  intros Ha Hc.
  assert (S : forallN2 128 128 (fun a c => N.eqb (extract_low_7 (build_14 c a)) a &&
                                           N.eqb (extract_high_7 (build_14 c a)) c) = true)
    by (vm_compute; reflexivity).
  pose proof (forallN2_spec _ _ _ S a c Ha Hc) as H. cbv beta in H.
  apply andb_true_iff in H as [H1 H2]. apply N.eqb_eq in H1, H2. auto.
Qed.

Lemma build_split v : v < 16384 -> build_14 (extract_high_7 v) (extract_low_7 v) = v.
Proof.
  intros Hv.
  assert (S : forallN 16384 (fun v => N.eqb (build_14 (extract_high_7 v) (extract_low_7 v)) v) = true)
    by (vm_compute; reflexivity).
  apply N.eqb_eq. exact (forallN_spec _ _ S v Hv).
Qed.

(** quarter frames: decode, fields, and re-encode *)
Lemma tcqf_facts a : a < 128 ->
  exists f, tcqf_of_u7 a = Ok f /\ enc_tcqf f = qf_fields a /\ u7_of_tcqf f = canon_qf a /\
            tcqf_wf f = true.
Proof.
  intros Ha.
  assert (S : forallN 128 (fun a => match tcqf_of_u7 a with
      | Ok f => listZ_eqb (enc_tcqf f) (qf_fields a) && N.eqb (u7_of_tcqf f) (canon_qf a) && tcqf_wf f
      | Panic => false end) = true) by (vm_compute; reflexivity).
  pose proof (forallN_spec _ _ S a Ha) as H. cbv beta in H.
  destruct (tcqf_of_u7 a) as [f|]; [|discriminate]. exists f.
  apply andb_true_iff in H as [H H3]. apply andb_true_iff in H as [H1 H2].
  apply listZ_eqb_eq in H1. apply N.eqb_eq in H2. auto.
Qed.

Lemma tcqf_roundtrip f : tcqf_wf f = true -> tcqf_of_u7 (u7_of_tcqf f) = Ok f /\ u7_of_tcqf f < 128.
Proof.
  assert (S : forallN 16 (fun v =>
     forallb (fun mk : N -> tcqf =>
                match tcqf_of_u7 (u7_of_tcqf (mk v)) with
                | Ok g => listZ_eqb (enc_tcqf g) (enc_tcqf (mk v)) && N.ltb (u7_of_tcqf (mk v)) 128
                | Panic => false end)
       [FrameCountLsNibble; FrameCountMsNibble; SecondsCountLsNibble; SecondsCountMsNibble;
        MinutesCountLsNibble; MinutesCountMsNibble; HoursCountLsNibble]) = true)
    by (vm_compute; reflexivity).
  assert (Henc : forall g h, enc_tcqf g = enc_tcqf h -> g = h).
  { intros g h. destruct g, h; cbn; intros E; inversion E as [E'];
      try (apply N2Z.inj in E'; subst; reflexivity).
    destruct hours_count_ms_bit, hours_count_ms_bit0; try discriminate;
      destruct time_code_type, time_code_type0; try discriminate; reflexivity. }
  intros Hwf.
  destruct f as [v|v|v|v|v|v|v|b t]; cbn [tcqf_wf] in Hwf;
    try (apply N.ltb_lt in Hwf; pose proof (forallN_spec _ _ S v Hwf) as H; cbv beta in H;
         rewrite forallb_forall in H).
  1: specialize (H FrameCountLsNibble ltac:(cbn; tauto)).
  2: specialize (H FrameCountMsNibble ltac:(cbn; tauto)).
  3: specialize (H SecondsCountLsNibble ltac:(cbn; tauto)).
  4: specialize (H SecondsCountMsNibble ltac:(cbn; tauto)).
  5: specialize (H MinutesCountLsNibble ltac:(cbn; tauto)).
  6: specialize (H MinutesCountMsNibble ltac:(cbn; tauto)).
  7: specialize (H HoursCountLsNibble ltac:(cbn; tauto)).
  1-7: match type of H with context [tcqf_of_u7 ?x] => destruct (tcqf_of_u7 x) as [g|]; [|discriminate] end;
       apply andb_true_iff in H as [H1 H2]; apply listZ_eqb_eq in H1; apply N.ltb_lt in H2;
       split; [f_equal; apply Henc; exact H1|exact H2].
  destruct b, t; split; vm_compute; reflexivity.
Qed.

(** * C02: every accessor follows the MIDI table, for RawShortMessage ... *)
Lemma channel_mode_cn_spec a : a < 128 -> is_channel_mode_cn a = (N.leb 120 a && N.leb a 127).
Proof.
  intros Ha. unfold is_channel_mode_cn, channel_mode_threshold.
  destruct (N.leb_spec a 127); [|lia]. rewrite andb_true_r. reflexivity.
Qed.

Lemma acc_raw_spec s a c :
  valid3 (s, a, c) = true ->
  acc_obs bytes raw_sb raw_d1 raw_d2 raw_ts (s, a, c) = acc_spec (s, a, c).
Proof.
  intros Hv. apply valid3_bounds in Hv as (H1 & H2 & Ha & Hc).
  destruct (type_table_some s H1 H2) as [t Ht].
  destruct (tcqf_facts a Ha) as (f & Hf & Hfe & _ & _).
  unfold acc_obs, acc_spec, g_channel, g_main_category, g_super_type, g_key_number, g_velocity,
    g_controller_number, g_control_value, g_program_number, g_pressure_amount, g_pitch_bend_value,
    g_is_note, g_is_note_on, g_is_note_off, g_type, raw_ts, g_to_structured_default, raw_tb,
    g_to_bytes_default, struct_of_bytes.
  cbn [raw_sb raw_d1 raw_d2 fst snd].
  rewrite extract_type_table by assumption. rewrite Ht.
  rewrite extract_channel_arith by assumption.
  rewrite channel_mode_cn_spec by assumption.
  destruct t; cbn [obind omap zo zol enc_struct acc_by_type struct_by_type is_channel_type
                   super_of_type fuzzy_of_type smt_super fuzzy_main super_main app];
    rewrite ?build_14_arith by assumption; try reflexivity.
  - (* ControlChange *) destruct (N.leb 120 a && N.leb a 127); reflexivity.
  - (* TimeCodeQuarterFrame *)
    rewrite Hf. cbn [omap obind zo zol enc_struct]. rewrite Hfe. reflexivity.
Qed.

(** ... for StructuredShortMessage ... *)
Lemma acc_struct_spec s a c :
  valid3 (s, a, c) = true -> acc_obs_kind 1 (s, a, c) = acc_spec (s, a, c).
Proof.
  intros Hv. apply valid3_bounds in Hv as (H1 & H2 & Ha & Hc).
  destruct (type_table_some s H1 H2) as [t Ht].
  destruct (tcqf_facts a Ha) as (f & Hf & Hfe & _ & _).
  pose proof (status_rebuild s t H2 Ht) as Hr.
  destruct (split_build a c Ha Hc) as [Hlo Hhi].
  unfold acc_obs_kind. change (Z.eqb 1 1) with true. cbv iota. unfold struct_of_bytes.
  rewrite extract_type_table by assumption. rewrite Ht.
  unfold acc_spec. rewrite Ht. unfold rebuild in Hr.
  destruct t; cbn [is_channel_type omap] in *; try rewrite Hf; cbn [omap];
    unfold acc_obs, g_channel, g_main_category, g_super_type, g_key_number, g_velocity,
      g_controller_number, g_control_value, g_program_number, g_pressure_amount, g_pitch_bend_value,
      g_is_note, g_is_note_on, g_is_note_off, g_type, struct_ts;
    cbn [struct_sb struct_d1 struct_d2]; rewrite ?Hr;
    rewrite extract_type_table by assumption; rewrite Ht;
    try rewrite extract_channel_arith by assumption;
    try rewrite channel_mode_cn_spec by assumption;
    cbn [obind omap zo zol enc_struct acc_by_type struct_by_type is_channel_type
         super_of_type fuzzy_of_type smt_super fuzzy_main super_main app];
    rewrite ?Hlo, ?Hhi; try rewrite build_14_arith by assumption; rewrite ?Hfe; try reflexivity.
  destruct (N.leb 120 a && N.leb a 127); reflexivity.
Qed.

(** ... and for every third-party implementor of the three byte getters (parametric) *)
Lemma acc_generic_spec (M : Type) (sb d1 d2 : M -> N) (tb : M -> bytes)
      (ts : M -> outcome structured) (m : M) :
  tb m = (sb m, d1 m, d2 m) ->                       (* the contract of to_bytes *)
  ts m = g_to_structured_default tb m ->             (* to_structured not overridden *)
  valid3 (sb m, d1 m, d2 m) = true ->
  acc_obs M sb d1 d2 ts m = acc_spec (sb m, d1 m, d2 m).
Proof.
  intros Htb Hts Hv. rewrite <- (acc_raw_spec _ _ _ Hv).
  unfold acc_obs, g_is_note_on, g_is_note_off. rewrite Hts.
  unfold g_to_structured_default, raw_ts, raw_tb, g_to_bytes_default. rewrite Htb. reflexivity.
Qed.

(** * C01 *)
(** from_bytes succeeds exactly for status bytes >= 0x80, for every factory whose unchecked
    constructor does not panic on valid bytes *)
Lemma from_bytes_ok_iff M (fbu : bytes -> outcome M) s a c :
  s < 256 -> (forall b, 128 <= fst (fst b) -> exists m, fbu b = Ok m) ->
  (exists m, from_bytes fbu (s, a, c) = Ok (Some m)) <-> 128 <= s.
Proof.
  intros Hs Hf. unfold from_bytes. cbn [fst snd]. rewrite extract_type_table by assumption.
  split.
  - intros [m H]. destruct (N.lt_ge_cases s 128) as [Hlt|Hge]; [|exact Hge].
    rewrite (type_table_none s Hlt) in H. discriminate.
  - intros Hge. destruct (type_table_some s Hge Hs) as [t Ht]. rewrite Ht.
    destruct (Hf (s, a, c) Hge) as [m Hm]. rewrite Hm. cbn [omap]. eauto.
Qed.

Lemma from_bytes_rejects M (fbu : bytes -> outcome M) s a c :
  s < 128 -> from_bytes fbu (s, a, c) = Ok None.
Proof.
  intros Hs. unfold from_bytes. cbn [fst snd]. rewrite extract_type_table by lia.
  rewrite (type_table_none s Hs). reflexivity.
Qed.

(** RawShortMessage returns exactly the bytes it was made from *)
Lemma raw_bytes_id b : omap raw_tb (raw_fbu b) = Ok b.
Proof. destruct b as [[s a] c]. reflexivity. Qed.

(** StructuredShortMessage returns them with only the information-free parts zeroed *)
Lemma struct_bytes_canon s a c :
  valid3 (s, a, c) = true -> omap struct_tb (struct_fbu (s, a, c)) = Ok (canon (s, a, c)).
Proof.
  intros Hv. apply valid3_bounds in Hv as (H1 & H2 & Ha & Hc).
  destruct (type_table_some s H1 H2) as [t Ht].
  destruct (tcqf_facts a Ha) as (f & Hf & _ & Hfu & _).
  pose proof (status_rebuild s t H2 Ht) as Hr.
  destruct (uses_by_type s t H2 Ht) as (U1 & U2 & U3).
  destruct (split_build a c Ha Hc) as [Hlo Hhi].
  unfold struct_fbu, struct_of_bytes, canon. rewrite extract_type_table by assumption.
  rewrite Ht, U1, U2, U3. unfold rebuild in Hr.
  destruct t; cbn [is_channel_type omap] in *; try rewrite Hf; cbn [omap];
    unfold struct_tb, g_to_bytes_default; cbn [struct_sb struct_d1 struct_d2];
    rewrite ?Hr, ?Hlo, ?Hhi, ?Hfu; try reflexivity; subst s; reflexivity.
Qed.

Lemma struct_fbu_ok s a c : valid3 (s, a, c) = true -> exists m, struct_fbu (s, a, c) = Ok m.
Proof.
  intros Hv. pose proof (struct_bytes_canon s a c Hv) as H.
  destruct (struct_fbu (s, a, c)) as [m|]; [eauto|discriminate].
Qed.

(** the structured value well-formedness and the full round trip: converting any
    StructuredShortMessage value to bytes and back never changes it *)
Lemma chan_status_facts t ch : is_channel_type t = true -> ch < 16 ->
  extract_type (build_status_byte (smt_code t) ch) = Some t /\
  extract_channel (build_status_byte (smt_code t) ch) = ch.
Proof.
  intros Ht Hc.
  assert (S : forallN 16 (fun ch => forallb (fun t =>
       optT_eqb (extract_type (build_status_byte (smt_code t) ch)) (Some t) &&
       N.eqb (extract_channel (build_status_byte (smt_code t) ch)) ch)
     [TNoteOff; TNoteOn; TPolyphonicKeyPressure; TControlChange; TProgramChange; TChannelPressure;
      TPitchBendChange]) = true) by (vm_compute; reflexivity).
  pose proof (forallN_spec _ _ S ch Hc) as H. cbv beta in H. rewrite forallb_forall in H.
  assert (Hin : In t [TNoteOff; TNoteOn; TPolyphonicKeyPressure; TControlChange; TProgramChange;
                      TChannelPressure; TPitchBendChange])
    by (destruct t; try discriminate; cbn; tauto).
  specialize (H t Hin). apply andb_true_iff in H as [H1 H2].
  apply optT_eqb_eq in H1. apply N.eqb_eq in H2. auto.
Qed.

Lemma struct_roundtrip m : struct_wf m = true -> struct_of_bytes (struct_tb m) = Ok m.
Proof.
  intros Hwf. unfold struct_tb, g_to_bytes_default, struct_of_bytes.
  destruct m; cbn [struct_sb struct_d1 struct_d2 struct_wf] in *;
    repeat match goal with
      | H : _ && _ = true |- _ => apply andb_true_iff in H as [? ?]
      | H : N.ltb _ _ = true |- _ => apply N.ltb_lt in H
      end;
    try (match goal with
         | |- context [build_status_byte (smt_code ?t) ?ch] =>
             destruct (chan_status_facts t ch eq_refl ltac:(assumption)) as [E1 E2];
             rewrite E1, ?E2
         end);
    rewrite ?build_split by assumption; try reflexivity.
  (* TimeCodeQuarterFrame *)
  destruct (tcqf_roundtrip frame Hwf) as [E _]. cbn. rewrite E. reflexivity.
Qed.

Lemma struct_via_raw_roundtrip m : struct_wf m = true -> raw_ts (raw_tb (struct_tb m)) = Ok m.
Proof.
  intros Hwf. unfold raw_ts, raw_tb, g_to_structured_default, g_to_bytes_default.
  destruct (struct_tb m) as [[s a] c] eqn:E. cbn [raw_sb raw_d1 raw_d2 fst snd].
  rewrite <- E. apply struct_roundtrip. exact Hwf.
Qed.

(** raw -> structured -> raw is idempotent: canonicalising twice changes nothing more *)
Lemma canon_idempotent b : canon (canon b) = canon b.
Proof.
  destruct b as [[s a] c]. unfold canon.
  destruct (uses_d1 s) eqn:U1, (uses_d2 s) eqn:U2; rewrite ?U1, ?U2; try reflexivity;
    destruct (N.eqb s 241) eqn:E; try reflexivity;
    f_equal; f_equal; unfold canon_qf;
    destruct (N.eqb (a / 16) 7 && N.eqb ((a / 8) mod 2) 1) eqn:Eq; rewrite ?Eq; try reflexivity.
  - apply andb_true_iff in Eq as [Q1 Q2]. apply N.eqb_eq in Q1, Q2.
    assert (112 <= a < 128).
    { split; [pose proof (N.mul_div_le a 16); lia|pose proof (N.mul_succ_div_gt a 16); lia]. }
    assert (S : forallN 128 (fun a => if N.eqb (a / 16) 7 && N.eqb ((a / 8) mod 2) 1 then
                                        negb (N.eqb ((a - 8) / 16) 7 && N.eqb (((a - 8) / 8) mod 2) 1)
                                      else true) = true) by (vm_compute; reflexivity).
    pose proof (forallN_spec _ _ S a ltac:(lia)) as H0. cbv beta in H0.
    rewrite Q1, Q2 in H0. cbn [N.eqb andb] in H0. rewrite !N.eqb_refl in H0. cbn [andb] in H0.
    apply negb_true_iff in H0. rewrite H0. reflexivity.
  - apply andb_true_iff in Eq as [Q1 Q2]. apply N.eqb_eq in Q1, Q2.
    assert (S : forallN 128 (fun a => if N.eqb (a / 16) 7 && N.eqb ((a / 8) mod 2) 1 then
                                        negb (N.eqb ((a - 8) / 16) 7 && N.eqb (((a - 8) / 8) mod 2) 1)
                                      else true) = true) by (vm_compute; reflexivity).
    assert (112 <= a < 128).
    { split; [pose proof (N.mul_div_le a 16); lia|pose proof (N.mul_succ_div_gt a 16); lia]. }
    pose proof (forallN_spec _ _ S a ltac:(lia)) as H0. cbv beta in H0.
    rewrite Q1, Q2 in H0. rewrite !N.eqb_refl in H0. cbn [andb] in H0.
    apply negb_true_iff in H0. rewrite H0. reflexivity.
Qed.

(** message-type byte conversions *)
Lemma smt_roundtrip t : smt_of_code (smt_code t) = Some t.
Proof. destruct t; vm_compute; reflexivity. Qed.

Lemma smt_of_code_spec b : b < 256 ->
  smt_of_code b =
  (if (N.leb 240 b) || (N.leb 128 b && N.eqb (b mod 16) 0) then type_table b else None).
Proof.
  intros Hb.
  assert (S : forallN 256 (fun b => optT_eqb (smt_of_code b)
     (if (N.leb 240 b) || (N.leb 128 b && N.eqb (b mod 16) 0) then type_table b else None)) = true)
    by (vm_compute; reflexivity).
  apply optT_eqb_eq. exact (forallN_spec _ _ S b Hb).
Qed.

(** * C03: conversions between implementations commute with every accessor *)
Lemma acc_spec_canon s a c :
  valid3 (s, a, c) = true -> acc_spec (canon (s, a, c)) = acc_spec (s, a, c).
Proof.
  intros Hv. pose proof (acc_struct_spec s a c Hv) as H1.
  pose proof (struct_bytes_canon s a c Hv) as H2.
  destruct (struct_fbu_ok s a c Hv) as [m Hm]. unfold struct_fbu in *.
  rewrite Hm in H2. cbn [omap] in H2.
  assert (H2' : struct_tb m = canon (s, a, c)) by congruence.
  clear H2. rename H2' into H2.
  (* accessors of the structured value = accessors read from its own bytes *)
  assert (Hv' : valid3 (canon (s, a, c)) = true).
  { apply valid3_bounds in Hv as (V1 & V2 & Va & Vc). unfold canon, canon_qf.
    repeat (apply andb_true_iff; split); try apply N.leb_le; try apply N.ltb_lt; try assumption;
      repeat match goal with |- context [if ?b then _ else _] => destruct b end; lia. }
  destruct (canon (s, a, c)) as [[s' a'] c'] eqn:Ec.
  pose proof (acc_struct_spec s' a' c' Hv') as H3.
  unfold acc_obs_kind in H1, H3. cbn [Z.eqb] in H1, H3. rewrite Hm in H1.
  (* struct_of_bytes of the canonical bytes is the same structured value *)
  assert (Hsame : struct_of_bytes (s', a', c') = Ok m).
  { rewrite <- H2. apply struct_roundtrip.
    (* m is well-formed because it comes from valid bytes *)
    clear H1 H3 H2 Ec Hv'. apply valid3_bounds in Hv as (V1 & V2 & Va & Vc).
    unfold struct_of_bytes in Hm. rewrite extract_type_table in Hm by assumption.
    destruct (type_table_some s V1 V2) as [t Ht]. rewrite Ht in Hm.
    assert (Hch : extract_channel s < 16) by (rewrite extract_channel_arith by assumption; apply N.mod_lt; lia).
    destruct (tcqf_facts a Va) as (f & Hf & _ & _ & Hfw).
    destruct t; cbn [omap] in Hm; try rewrite Hf in Hm; cbn [omap] in Hm; inversion Hm; subst m;
      cbn [struct_wf];
      repeat (apply andb_true_iff; split); try apply N.ltb_lt; try assumption;
      try (apply build_14_lt; assumption); try reflexivity. }
  rewrite Hsame in H3. rewrite <- H3, <- H1. reflexivity.
Qed.
