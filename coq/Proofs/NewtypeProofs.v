(** C04 / C05: generic facts about the conversion macros, the checked constructor, FromStr and
    Display -- for any table of newtypes / conversions (the regenerated tables are plugged in by
    Properties/C04.v and C05.v). *)
From Coq Require Import String.
From Verif Require Import Base.Prelude Base.Sweep Base.Cfg Model.Newtypes.
Open Scope Z_scope.

Lemma wrap_id lo hi z : lo <= z <= hi -> wrap (lo, hi) z = z.
Proof.
  intros H. unfold wrap. rewrite Z.mod_small by lia. lia.
Qed.

Definition in_rng (r : option (Z * Z)) (z : Z) : bool :=
  match r with Some (lo, hi) => Z.leb lo z && Z.leb z hi | None => false end.

Definition is_try (k : conv_kind) : bool :=
  match k with CTry => true | CFrom => false end.

(** the side condition under which a macro invocation is sound: an infallible conversion needs the
    source range inside the target range (and inside the target's representation); a fallible one
    needs the target range inside its representation *)
Definition entry_ok (defs : newtypes) (e : conv_kind * string * string) : bool :=
  let '(k, src, dst) := e in
  match type_range defs src, type_range defs dst, repr_range defs dst with
  | Some (slo, shi), Some (dlo, dhi), Some (rlo, rhi) =>
      match k with
      | CTry => Z.eqb dlo 0 && Z.leb rlo 0 && Z.leb dhi rhi
      | CFrom => Z.leb dlo slo && Z.leb shi dhi && Z.leb rlo slo && Z.leb shi rhi
      end
  | _, _, _ => false
  end.

(** C04 + C05 for one table entry: for every source value, an infallible conversion yields the
    same mathematical value, inside the target range; a fallible one succeeds exactly when the
    value is within [0, max] and then preserves it *)
Lemma conv_sound defs k src dst x :
  entry_ok defs (k, src, dst) = true -> in_rng (type_range defs src) x = true ->
  exists dlo dhi, type_range defs dst = Some (dlo, dhi) /\
    conv_apply defs (k, src, dst) x =
      Some (if is_try k && negb (Z.leb 0 x && Z.leb x dhi) then None else Some x) /\
    (is_try k && negb (Z.leb 0 x && Z.leb x dhi) = false -> dlo <= x <= dhi).
Proof.
  unfold entry_ok, conv_apply, in_rng. intros Hok Hx.
  destruct (type_range defs src) as [[slo shi]|]; [|discriminate].
  destruct (type_range defs dst) as [[dlo dhi]|]; [|discriminate].
  destruct (repr_range defs dst) as [[rlo rhi]|]; [|discriminate].
  exists dlo, dhi. split; [reflexivity|].
  apply andb_true_iff in Hx as [Hx1 Hx2]. apply Z.leb_le in Hx1, Hx2.
  destruct k; cbn [is_try andb negb] in *.
  - (* From *)
    apply andb_true_iff in Hok as [Hok H4]. apply andb_true_iff in Hok as [Hok H3].
    apply andb_true_iff in Hok as [H1 H2]. apply Z.leb_le in H1, H2, H3, H4.
    split; [|intros _; lia]. rewrite wrap_id by lia. reflexivity.
  - (* TryFrom *)
    apply andb_true_iff in Hok as [Hok H3]. apply andb_true_iff in Hok as [H1 H2].
    apply Z.eqb_eq in H1. apply Z.leb_le in H2, H3. subst dlo.
    destruct (Z.leb 0 x && Z.leb x dhi) eqn:Er; cbn [andb negb].
    + apply andb_true_iff in Er as [R1 R2]. apply Z.leb_le in R1, R2.
      split; [|intros _; lia]. rewrite wrap_id by lia. reflexivity.
    + split; [reflexivity|discriminate].
Qed.

(** the checked constructor: when the assertion is compiled in, it panics exactly for
    out-of-range input *)
Lemma nt_new_spec guards enabled max v :
  new_checked guards enabled = true ->
  nt_new guards enabled max v = if N.leb v max then Ok v else Panic.
Proof. intros H. unfold nt_new. rewrite H. destruct (N.leb v max); reflexivity. Qed.

(** * FromStr accepts exactly the unsigned decimal numerals in range *)
Definition is_digit (c : N) : bool := N.leb 48 c && N.leb c 57.
Definition numeral_value (s : list N) : option Z :=
  let ds := match s with 43%N :: t => t | _ => s end in
  if Nat.ltb 0 (length ds) && forallb is_digit ds
  then Some (fold_left (fun acc c => 10 * acc + (Z.of_N c - 48)) ds 0)
  else None.

Lemma parse_digits_spec l : forall acc,
  parse_digits l acc =
  if forallb is_digit l then Some (fold_left (fun a c => 10 * a + (Z.of_N c - 48)) l acc) else None.
Proof.
  induction l as [|c t IH]; intros acc; cbn [parse_digits forallb fold_left]; [reflexivity|].
  unfold is_digit at 1. destruct (N.leb 48 c && N.leb c 57) eqn:E; cbn [andb]; [|reflexivity].
  rewrite IH. apply andb_true_iff in E as [E1 _]. apply N.leb_le in E1.
  replace (Z.of_N (c - 48)) with (Z.of_N c - 48) by lia. reflexivity.
Qed.

Lemma from_str_spec pmax max s :
  Z.of_N max <= pmax ->
  nt_from_str pmax max s =
  match numeral_value s with
  | Some v => if Z.leb v (Z.of_N max) then Some (Z.to_N v) else None
  | None => None
  end.
Proof.
  intros Hm. unfold nt_from_str, parse_prim, numeral_value.
  set (ds := match s with 43%N :: t => t | _ => s end).
  destruct ds as [|c t] eqn:E; [reflexivity|].
  rewrite parse_digits_spec. cbn [length Nat.ltb Nat.leb andb].
  destruct (forallb is_digit (c :: t)); [|reflexivity].
  set (v := fold_left _ (c :: t) 0).
  destruct (Z.leb_spec v pmax) as [H1|H1]; [reflexivity|].
  destruct (Z.leb_spec v (Z.of_N max)); [lia|reflexivity].
Qed.

(** Display then FromStr is the identity (all values up to 65535, i.e. every representable value
    of every restricted type) *)
Lemma show_parse v : (v < 65536)%N -> parse_prim 65535 (show v) = Some (Z.of_N v).
Proof.
  intros Hv.
  assert (S : forallN 65536 (fun v => match parse_prim 65535 (show v) with
                                      | Some z => Z.eqb z (Z.of_N v) | None => false end) = true)
    by (vm_compute; reflexivity).
  pose proof (forallN_spec _ _ S v Hv) as H. cbv beta in H.
  destruct (parse_prim 65535 (show v)); [|discriminate]. apply Z.eqb_eq in H. congruence.
Qed.

Lemma show_parse_u8 v : (v < 256)%N -> parse_prim 255 (show v) = Some (Z.of_N v).
Proof.
  intros Hv.
  assert (S : forallN 256 (fun v => match parse_prim 255 (show v) with
                                    | Some z => Z.eqb z (Z.of_N v) | None => false end) = true)
    by (vm_compute; reflexivity).
  pose proof (forallN_spec _ _ S v Hv) as H. cbv beta in H.
  destruct (parse_prim 255 (show v)); [|discriminate]. apply Z.eqb_eq in H. congruence.
Qed.

(** Display prints the decimal value: its digits denote [v], without superfluous leading zero *)
Lemma show_decimal v : (v < 65536)%N ->
  numeral_value (show v) = Some (Z.of_N v) /\
  (length (show v) = 1%nat \/ hd 0%N (show v) <> 48%N).
Proof.
  intros Hv.
  assert (S : forallN 65536 (fun v =>
              match numeral_value (show v) with
              | Some z => Z.eqb z (Z.of_N v) | None => false end &&
              (Nat.eqb (length (show v)) 1 || negb (N.eqb (hd 0%N (show v)) 48))) = true)
    by (vm_compute; reflexivity).
  pose proof (forallN_spec _ _ S v Hv) as H. cbv beta in H.
  apply andb_true_iff in H as [H1 H2]. split.
  - destruct (numeral_value (show v)); [|discriminate]. apply Z.eqb_eq in H1. congruence.
  - apply orb_true_iff in H2 as [H2|H2].
    + left. apply Nat.eqb_eq. exact H2.
    + right. apply negb_true_iff in H2. apply N.eqb_neq. exact H2.
Qed.
