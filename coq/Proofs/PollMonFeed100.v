(** C14 simulation, one contributing controller number per file (compiled in parallel). *)
From Verif Require Import Base.Prelude Base.Sweep Model.ShortMsg Model.PerChannel Model.CC14
  Model.Nrpn Model.Polling Spec.MidiTable Spec.PollMonitor Proofs.BitFacts Proofs.ShortMsgFacts
  Proofs.PerChannelProofs Proofs.PollingProofs Proofs.PollMonitorProofs.

Lemma sim_feed_100 : feed_sim 100.
Proof. unfold feed_sim. intros st m c v now. feed_case. Qed.
