(** C19, second half: the natural representation of every valid value deserializes to an equal
    value (shown for the restricted integers and the three composite message types). *)
From Coq Require Import String Ascii.
From Verif Require Import Base.Prelude Model.ShortMsg Model.CC14 Model.Nrpn Model.Serde
  Spec.MidiTable Spec.NrpnSpec Proofs.ShortMsgFacts Proofs.SerdeProofs.
Open Scope Z_scope.
Open Scope string_scope.

Section Roundtrip.
  Variables (de_u7 de_u14 de_channel de_cn : jval -> option N).
  Hypothesis u7_rt : forall n, (n < 128)%N -> de_u7 (jn n) = Some n.
  Hypothesis u14_rt : forall n, (n < 16384)%N -> de_u14 (jn n) = Some n.
  Hypothesis channel_rt : forall n, (n < 16)%N -> de_channel (jn n) = Some n.
  Hypothesis cn_rt : forall n, (n < 128)%N -> de_cn (jn n) = Some n.

  Lemma raw_roundtrip shape s a c :
    String.eqb shape "derive" = false ->
    valid3 (s, a, c) = true ->
    de_raw de_u7 shape (ser_raw (s, a, c)) = Some (s, a, c).
  Proof.
    intros Hd Hv. apply valid3_bounds in Hv as (H1 & H2 & Ha & Hc).
    unfold ser_raw, de_raw. rewrite (u7_rt a Ha), (u7_rt c Hc).
    unfold de_u8, de_int, jn.
    destruct (Z.leb_spec 0 (Z.of_N s)); [|lia]. destruct (Z.leb_spec (Z.of_N s) 255); [|lia].
    cbn [andb]. rewrite Hd, N2Z.id.
    rewrite extract_type_table by assumption.
    destruct (type_table_some s H1 H2) as [t ->]. reflexivity.
  Qed.

  Lemma cc14_roundtrip shape ch n v :
    String.eqb shape "derive" = false ->
    (ch < 16)%N -> (n < 32)%N -> (v < 16384)%N ->
    de_cc14 de_u14 de_channel de_cn shape (ser_cc14 (mkCC14 ch n v)) = Some (mkCC14 ch n v).
  Proof.
    intros Hd Hc Hn Hv. unfold de_cc14, ser_cc14. cbn [cc_channel cc_msb_cn cc_value].
    assert (E : struct_fields ["channel"; "msb_controller_number"; "value"]
                  (jobj [("channel", jn ch); ("msb_controller_number", jn n); ("value", jn v)])
                = Some [jn ch; jn n; jn v]) by reflexivity.
    rewrite E. rewrite (channel_rt ch Hc), (cn_rt n ltac:(lia)), (u14_rt v Hv), Hd.
    unfold cc14_new, corresponding_lsb. destruct (N.leb_spec 32 n); [lia|reflexivity].
  Qed.

  Lemma pn_roundtrip shape m :
    String.eqb shape "derive" = false ->
    pnmsg_wf m = true ->
    de_pn de_u14 de_channel shape (ser_pn m) = Some m.
  Proof.
    intros Hd Hwf. destruct m as [ch num v reg w dt].
    unfold pnmsg_wf in Hwf. cbn [pn_channel pn_number pn_value pn_is_14_bit pn_data_type] in Hwf.
    apply andb_true_iff in Hwf as [Hwf H3]. apply andb_true_iff in Hwf as [H1 H2].
    apply N.ltb_lt in H1, H2.
    unfold de_pn, ser_pn.
    cbn [pn_channel pn_number pn_value pn_is_registered pn_is_14_bit pn_data_type].
    assert (E : struct_fields ["channel"; "number"; "value"; "is_registered"; "is_14_bit"; "data_type"]
                  (jobj [("channel", jn ch); ("number", jn num); ("value", jn v);
                         ("is_registered", JBool reg); ("is_14_bit", JBool w);
                         ("data_type", ser_datatype dt)])
                = Some [jn ch; jn num; jn v; JBool reg; JBool w; ser_datatype dt]) by reflexivity.
    rewrite E. rewrite (channel_rt ch H1), (u14_rt num H2).
    assert (Hv : (v < 16384)%N).
    { destruct w; [apply andb_true_iff in H3 as [H3 _]|]; apply N.ltb_lt in H3; lia. }
    rewrite (u14_rt v Hv). cbn [de_bool].
    assert (Ed : de_datatype (ser_datatype dt) = Some dt) by (destruct dt; reflexivity).
    rewrite Ed, Hd. unfold pn_consistent. cbn [pn_is_14_bit pn_data_type pn_value].
    destruct w.
    - apply andb_true_iff in H3 as [_ H3]. rewrite H3. reflexivity.
    - rewrite H3. reflexivity.
  Qed.
End Roundtrip.
