(** Feeding the same message again: from its second application on, nothing changes any more.
    After one application of a message the state of the 14-bit CC scanner and of the (N)RPN
    scanner is a fixed point of that message, so every further application returns the same state
    and the same output.  This is what the record format's "the previous operation again n
    times" (operation kind 9 of the harness, where only the first and the last of the repeated
    applications are observed and the model applies the operation twice) relies on. *)
From Verif Require Import Base.Prelude Model.ShortMsg Model.PerChannel Model.CC14 Model.Nrpn
  Model.Polling.

(** * one channel *)
Lemma cc14_feed1_fixed st m st1 o1 st2 o2 :
  cc14_feed1 st m = Ok (st1, o1) -> cc14_feed1 st1 m = Ok (st2, o2) -> st2 = st1.
Proof.
  unfold cc14_feed1. destruct m; try (intros H1 H2; inversion H1; subst; inversion H2; reflexivity).
  destruct (N.leb controller_number 31).
  - intros H1 H2. inversion H1; subst. inversion H2. reflexivity.
  - destruct (N.leb controller_number 63).
    + unfold cc14_process_value_lsb. intros H1 H2.
      assert (E1 : st1 = st).
      { destruct (st_msb_cn st); [|inversion H1; reflexivity].
        destruct (st_value_msb st); [|inversion H1; reflexivity].
        destruct (corresponding_lsb n); [|discriminate].
        destruct (negb (N.eqb controller_number n1)); [inversion H1; reflexivity|].
        unfold obind in H1. destruct (cc14_new _ _ _); [|discriminate]. inversion H1; reflexivity. }
      subst st1.
      destruct (st_msb_cn st); [|inversion H2; reflexivity].
      destruct (st_value_msb st); [|inversion H2; reflexivity].
      destruct (corresponding_lsb n); [|discriminate].
      destruct (negb (N.eqb controller_number n1)); [inversion H2; reflexivity|].
      unfold obind in H2. destruct (cc14_new _ _ _); [|discriminate]. inversion H2; reflexivity.
    + intros H1 H2. inversion H1; subst. inversion H2. reflexivity.
Qed.

Lemma pn_feed1_core_fixed st m :
  fst (pn_feed1_core (fst (pn_feed1_core st m)) m) = fst (pn_feed1_core st m).
Proof.
  destruct m; try reflexivity.
  unfold pn_feed1_core.
  (* the eight contributing controller numbers, then everything else *)
  destruct (N.eq_dec controller_number 98) as [->|N98]; [reflexivity|].
  destruct (N.eq_dec controller_number 99) as [->|N99]; [reflexivity|].
  destruct (N.eq_dec controller_number 100) as [->|N100]; [reflexivity|].
  destruct (N.eq_dec controller_number 101) as [->|N101]; [reflexivity|].
  destruct (N.eq_dec controller_number 38) as [->|N38]; [reflexivity|].
  destruct (N.eq_dec controller_number 6) as [->|N6].
  { destruct (pn_build_number st) eqn:E; cbn [fst]; rewrite ?E; reflexivity. }
  destruct (N.eq_dec controller_number 96) as [->|N96].
  { destruct (pn_build_number st) eqn:E; cbn [fst]; rewrite ?E; reflexivity. }
  destruct (N.eq_dec controller_number 97) as [->|N97].
  { destruct (pn_build_number st) eqn:E; cbn [fst]; rewrite ?E; reflexivity. }
  (* not a contributing controller number: the state is returned unchanged both times *)
  assert (H : forall s : pnst,
             match controller_number with
             | 98%N => (mkPNSt (s_number_msb s) (Some control_value) false None, None)
             | 99%N => (mkPNSt (Some control_value) (s_number_lsb s) false None, None)
             | 100%N => (mkPNSt (s_number_msb s) (Some control_value) true None, None)
             | 101%N => (mkPNSt (Some control_value) (s_number_lsb s) true None, None)
             | 38%N => (mkPNSt (s_number_msb s) (s_number_lsb s) (s_is_registered s) (Some control_value), None)
             | 6%N =>
                 match pn_build_number s with
                 | None => (s, None)
                 | Some number =>
                     (s, Some (match s_value_lsb s with
                               | Some l => pn_fourteen_bit channel number (build_14 control_value l) (s_is_registered s)
                               | None => pn_seven_bit channel number control_value (s_is_registered s) DataEntry
                               end))
                 end
             | 96%N =>
                 match pn_build_number s with
                 | None => (s, None)
                 | Some number => (s, Some (pn_seven_bit channel number control_value (s_is_registered s) DataIncrement))
                 end
             | 97%N =>
                 match pn_build_number s with
                 | None => (s, None)
                 | Some number => (s, Some (pn_seven_bit channel number control_value (s_is_registered s) DataDecrement))
                 end
             | _ => (s, @None pnmsg)
             end = (s, None)).
  { intros s.
    repeat match goal with
           | |- context [match ?n with _ => _ end] =>
               is_var n; destruct n as [|n]; try reflexivity; try congruence
           | |- context [match ?p with xH => _ | xO _ => _ | xI _ => _ end] =>
               is_var p; destruct p; try reflexivity; try congruence
           end. }
  rewrite !H. reflexivity.
Qed.

Lemma pn_feed1_fixed st m st1 o1 st2 o2 :
  pn_feed1 st m = Ok (st1, o1) -> pn_feed1 st1 m = Ok (st2, o2) -> st2 = st1.
Proof.
  unfold pn_feed1. intros H1 H2. inversion H1 as [E1]. inversion H2 as [E2].
  pose proof (pn_feed1_core_fixed st m) as F. rewrite E1 in F. cbn [fst] in F.
  rewrite E2 in F. cbn [fst] in F. exact F.
Qed.

(** * the 16-channel scanners *)
Section Multi.
  Variables (St Out : Type) (feed1 : St -> structured -> outcome (St * Out)) (none : Out).
  Hypothesis fixed1 : forall st m st1 o1 st2 o2,
    feed1 st m = Ok (st1, o1) -> feed1 st1 m = Ok (st2, o2) -> st2 = st1.

  Lemma feed_multi_fixed s b s1 o1 s2 o2 :
    feed_multi St Out feed1 none s b = Ok (s1, o1) ->
    feed_multi St Out feed1 none s1 b = Ok (s2, o2) -> s2 = s1.
  Proof.
    unfold feed_multi, obind. destruct (g_channel bytes raw_sb raw_d1 b) as [[c|]|]; try discriminate.
    - destruct (nth_error s (N.to_nat c)) as [st|] eqn:En; [|discriminate].
      destruct (raw_ts b) as [m|]; [|discriminate].
      destruct (feed1 st m) as [[st1 oo1]|] eqn:F1; [|discriminate].
      cbn [fst snd]. intros H1. inversion H1; subst s1 o1. clear H1.
      assert (Hlt : (N.to_nat c < length s)%nat) by (apply nth_error_Some; congruence).
      rewrite (nth_error_upd_same s _ st1 Hlt).
      destruct (feed1 st1 m) as [[st2 oo2]|] eqn:F2; [|discriminate].
      cbn [fst snd]. intros H2. inversion H2; subst s2 o2. clear H2.
      rewrite (fixed1 _ _ _ _ _ _ F1 F2).
      apply upd_same_id. apply nth_error_upd_same. exact Hlt.
    - intros H1 H2. inversion H1; subst. inversion H2. reflexivity.
  Qed.

  (** hence every further application gives the same state and the same output *)
  Lemma feed_multi_repeats s b s1 o1 s2 o2 :
    feed_multi St Out feed1 none s b = Ok (s1, o1) ->
    feed_multi St Out feed1 none s1 b = Ok (s2, o2) ->
    feed_multi St Out feed1 none s2 b = Ok (s2, o2).
  Proof.
    intros H1 H2. pose proof (feed_multi_fixed _ _ _ _ _ _ H1 H2) as E. subst s2. exact H2.
  Qed.
End Multi.

Theorem cc14_feed_repeats s b s1 o1 s2 o2 :
  cc14_feed s b = Ok (s1, o1) -> cc14_feed s1 b = Ok (s2, o2) -> cc14_feed s2 b = Ok (s2, o2).
Proof. apply feed_multi_repeats. exact cc14_feed1_fixed. Qed.

Theorem pn_feed_repeats s b s1 o1 s2 o2 :
  pn_feed s b = Ok (s1, o1) -> pn_feed s1 b = Ok (s2, o2) -> pn_feed s2 b = Ok (s2, o2).
Proof. apply feed_multi_repeats. exact pn_feed1_fixed. Qed.

(** * resetting again changes nothing: any number of resets in a row is one reset
    (operation kind 2 of the harness carries a repeat count; the model resets once) *)
Lemma reset_multi_idempotent (St : Type) (reset1 : St -> St) :
  (forall st, reset1 (reset1 st) = reset1 st) ->
  forall s, reset_multi St reset1 (reset_multi St reset1 s) = reset_multi St reset1 s.
Proof.
  intros H s. unfold reset_multi. rewrite map_map. apply map_ext. exact H.
Qed.

Theorem cc14_reset_idempotent s : cc14_reset (cc14_reset s) = cc14_reset s.
Proof. apply reset_multi_idempotent. reflexivity. Qed.

Theorem pn_reset_idempotent s : pn_reset (pn_reset s) = pn_reset s.
Proof. apply reset_multi_idempotent. reflexivity. Qed.

Fixpoint iter_reset {A} (f : A -> A) (n : nat) (s : A) : A :=
  match n with O => s | S k => f (iter_reset f k s) end.

Lemma iter_idempotent {A} (f : A -> A) :
  (forall s, f (f s) = f s) -> forall n s, iter_reset f (S n) s = f s.
Proof.
  intros H n. induction n as [|k IH]; intros s; [reflexivity|].
  cbn [iter_reset] in *. rewrite IH. apply H.
Qed.

Theorem cc14_resets_are_one_reset n s : iter_reset cc14_reset (S n) s = cc14_reset s.
Proof. apply iter_idempotent. exact cc14_reset_idempotent. Qed.

Theorem pn_resets_are_one_reset n s : iter_reset pn_reset (S n) s = pn_reset s.
Proof. apply iter_idempotent. exact pn_reset_idempotent. Qed.

Theorem poll_reset_idempotent s : poll_reset (poll_reset s) = poll_reset s.
Proof. apply reset_multi_idempotent. intros st. reflexivity. Qed.

Theorem poll_resets_are_one_reset n s : iter_reset poll_reset (S n) s = poll_reset s.
Proof. apply iter_idempotent. exact poll_reset_idempotent. Qed.
