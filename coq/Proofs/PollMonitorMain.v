(** C14: the polling scanner's trace is accepted by the monitor, for every history. *)
From Verif Require Import Base.Prelude Base.Sweep Model.ShortMsg Model.PerChannel Model.CC14
  Model.Nrpn Model.Polling Spec.MidiTable Spec.PollMonitor Proofs.BitFacts Proofs.ShortMsgFacts
  Proofs.PerChannelProofs Proofs.PollingProofs Proofs.PollMonitorProofs
  Proofs.PollMonFeed98 Proofs.PollMonFeed99 Proofs.PollMonFeed100 Proofs.PollMonFeed101
  Proofs.PollMonFeed38 Proofs.PollMonFeed6 Proofs.PollMonFeed96 Proofs.PollMonFeed97.

Lemma not_pn_neq n :
  is_parameter_number_cn n = false ->
  n <> 98 /\ n <> 99 /\ n <> 100 /\ n <> 101 /\ n <> 38 /\ n <> 6 /\ n <> 96 /\ n <> 97.
Proof. intros H. repeat split; intros ->; discriminate H. Qed.

Lemma pn_in_list n :
  is_parameter_number_cn n = true -> In n [98; 99; 100; 101; 38; 6; 96; 97].
Proof.
  intros H. destruct n as [|p]; [discriminate|].
  repeat (destruct p as [p|p|]; try discriminate); cbn; tauto.
Qed.

Lemma sim_feed_other n : is_parameter_number_cn n = false -> feed_sim n.
Proof.
  intros Hn st m c v now Hs Hv.
  apply not_pn_neq in Hn as (N1 & N2 & N3 & N4 & N5 & N6 & N7 & N8).
  unfold poll_dispatch. kill. cbv zeta. cbn [fst snd].
  destruct m as [mh ml mr m6 m38]. unfold mon_feed, is_pn_cn.
  cbn [m_num_msb m_num_lsb m_reg m_last6 m_last38]. kill; cbn [negb andb orb];
    (eexists; split; [reflexivity|]; exact Hs).
Qed.

Lemma sim_feed_any n : feed_sim n.
Proof.
  destruct (is_parameter_number_cn n) eqn:E; [|apply sim_feed_other; exact E].
  apply pn_in_list in E. cbn [In] in E.
  destruct E as [<-|[<-|[<-|[<-|[<-|[<-|[<-|[<-|[]]]]]]]]].
  - exact sim_feed_98.
  - exact sim_feed_99.
  - exact sim_feed_100.
  - exact sim_feed_101.
  - exact sim_feed_38.
  - exact sim_feed_6.
  - exact sim_feed_96.
  - exact sim_feed_97.
Qed.

(** * the 16-channel product *)
Definition MInv (timeout : N) (s : poll_scanner) (ms : mons) : Prop :=
  length s = 16%nat /\ length ms = 16%nat /\
  forall c, c < 16 -> exists st m,
      nth_error s (N.to_nat c) = Some st /\ nth_error ms (N.to_nat c) = Some m /\
      sim st m /\ p_timeout st = timeout.

Lemma MInv_init timeout : MInv timeout (poll_new_scanner timeout) mons_init.
Proof.
  split; [reflexivity|]. split; [reflexivity|]. intros c Hc.
  exists (pollst_new timeout), mon_init.
  assert (Hn : (N.to_nat c < 16)%nat) by lia.
  unfold poll_new_scanner, mons_init, replicate.
  split; [|split; [|split; [apply sim_init|reflexivity]]].
  - rewrite (nth_error_nth' _ (pollst_new timeout)) by (rewrite repeat_length; exact Hn).
    rewrite nth_repeat. reflexivity.
  - rewrite (nth_error_nth' _ mon_init) by (rewrite repeat_length; exact Hn).
    rewrite nth_repeat. reflexivity.
Qed.

Lemma MInv_upd timeout s ms c st' m' :
  MInv timeout s ms -> c < 16 -> sim st' m' -> p_timeout st' = timeout ->
  MInv timeout (upd s (N.to_nat c) st') (upd ms (N.to_nat c) m').
Proof.
  intros (L1 & L2 & H) Hc Hs Ht. split; [rewrite upd_length; exact L1|].
  split; [rewrite upd_length; exact L2|]. intros c' Hc'.
  destruct (N.eq_dec c c') as [->|Hne].
  - exists st', m'. repeat split; try assumption; apply nth_error_upd_same; lia.
  - destruct (H c' Hc') as (st & m & E1 & E2 & E3 & E4). exists st, m.
    rewrite !nth_error_upd_other by lia. auto.
Qed.

Lemma timeout_dispatch now st c n v : p_timeout (fst (poll_dispatch now st c n v)) = p_timeout st.
Proof.
  unfold poll_dispatch, one, poll_number_byte, poll_value_lsb, poll_value_msb, poll_value_inc_dec,
    expected_value_byte, with_state.
  repeat match goal with |- context [N.eqb n ?k] => destruct (N.eqb n k) end;
    destruct (p_state st) as [[x|] r b|ns|ns arr v0 [|]|ns vm vl]; cbn;
    repeat match goal with |- context [if ?b then _ else _] => destruct b end; reflexivity.
Qed.

Lemma timeout_poll now st c : p_timeout (fst (poll_poll1 now st c)) = p_timeout st.
Proof.
  unfold poll_poll1. destruct (p_state st); try reflexivity.
  destruct (N.ltb _ _); reflexivity.
Qed.

Lemma mstep timeout now s ms o :
  MInv timeout s ms -> sop_ok o = true ->
  exists ms',
    mons_step timeout now ms o (snd (poll_gstep now s o))
    = Some (fst (fst (poll_gstep now s o)), ms') /\
    MInv timeout (snd (fst (poll_gstep now s o))) ms'.
Proof.
  intros Hinv Ho. pose proof Hinv as (L1 & L2 & H).
  destruct o as [b|c| |dt]; cbn [sop_ok] in Ho; unfold poll_gstep; cbn [gstep mons_step].
  - destruct b as [[s0 a] x]. apply valid3_bounds in Ho as (H1 & H2 & Ha & Hx). cbn [fst snd].
    destruct (channel_table s0) as [c|] eqn:Ec.
    2:{ cbn [fst snd none2]. eexists; split; [reflexivity|exact Hinv]. }
    pose proof (channel_table_lt _ _ Ec) as Hc.
    destruct (H c Hc) as (st & m & E1 & E2 & Hs & Ht). rewrite E1, E2.
    destruct (as_cc (s0, a, x)) as [[[c' n] v]|] eqn:Ecc.
    2:{ cbn [poll_f1v fst snd none2]. eexists; split; [reflexivity|].
        rewrite upd_same_id by exact E1. exact Hinv. }
    pose proof (as_cc_channel _ _ _ _ _ _ Ecc H2) as (_ & Ec' & -> & ->).
    rewrite Ec in Ec'. inversion Ec'; subst c'. clear Ec'.
    cbn [poll_f1v fst snd].
    destruct (sim_feed_any a st m c x now Hs Hx) as (m' & Hm & Hs').
    cbv zeta in Hm, Hs'. rewrite Hm. eexists; split; [reflexivity|].
    apply MInv_upd; try assumption. rewrite timeout_dispatch. exact Ht.
  - apply N.ltb_lt in Ho. destruct (H c Ho) as (st & m & E1 & E2 & Hs & Ht). rewrite E1, E2.
    unfold poll_p1. cbn [fst snd].
    destruct (sim_poll st m c now Hs) as (m' & Hm & Hs'). rewrite Ht in Hm. rewrite Hm.
    eexists; split; [reflexivity|]. apply MInv_upd; try assumption.
    rewrite timeout_poll. exact Ht.
  - cbn [fst snd none2]. eexists; split; [reflexivity|].
    split; [rewrite map_length; exact L1|]. split; [rewrite map_length; exact L2|].
    intros c Hc. destruct (H c Hc) as (st & m & E1 & E2 & Hs & Ht).
    exists (poll_reset1 st), mon_init. rewrite !nth_error_map, E1, E2. cbn [option_map].
    split; [reflexivity|]. split; [reflexivity|]. split; [apply sim_reset|exact Ht].
  - cbn [fst snd none2]. eexists; split; [reflexivity|exact Hinv].
Qed.

Lemma mrun timeout h : forall now s ms,
  MInv timeout s ms -> Forall (fun o => sop_ok o = true) h ->
  mons_run timeout now ms h (snd (poll_grun now s h)) = true.
Proof.
  induction h as [|o h IH]; intros now s ms Hinv Hh; [reflexivity|].
  inversion Hh as [|? ? Ho Hh']; subst.
  destruct (mstep timeout now s ms o Hinv Ho) as (ms' & Hstep & Hinv').
  unfold poll_grun in *. cbn [grun]. fold poll_gstep.
  destruct (poll_gstep now s o) as [[now1 s1] out] eqn:Eg. cbn [fst snd] in *.
  specialize (IH now1 s1 ms' Hinv' Hh').
  destruct (grun pollst out2 poll_f1v poll_p1 poll_reset1 (None, None) now1 s1 h) as [[now2 s2] outs].
  cbn [snd mons_run] in *. rewrite Hstep. exact IH.
Qed.

(** C14: for every finite history of valid feeds, polls, resets and clock ticks, the scanner does
    not panic and the trace (inputs with times, outputs) is accepted by the C14 monitor *)
Theorem poll_trace_ok timeout h :
  Forall (fun o => sop_ok o = true) h ->
  exists now' s' outs,
    poll_run 0 (poll_new_scanner timeout) h = Ok (now', s', outs) /\
    check_C14 timeout h outs = true.
Proof.
  intros Hh. rewrite (poll_run_bridge h 0 (poll_new_scanner timeout) eq_refl Hh).
  pose proof (mrun timeout h 0 _ _ (MInv_init timeout) Hh) as Hm.
  destruct (poll_grun 0 (poll_new_scanner timeout) h) as [[now' s'] outs].
  exists now', s', outs. split; [reflexivity|exact Hm].
Qed.
