(** The polling (N)RPN scanner: arithmetic machine, timeout laws (C13). *)
From Verif Require Import Base.Prelude Base.Sweep Model.ShortMsg Model.PerChannel Model.CC14
  Model.Nrpn Model.Polling Spec.MidiTable Proofs.BitFacts Proofs.ShortMsgFacts
  Proofs.PerChannelProofs.

(** * the controller-number dispatch as an if-chain *)
Definition poll_dispatch (now : N) (st : pollst) (channel cn v : N) : pollst * out2 :=
  if N.eqb cn 98 then one (poll_number_byte st v false false channel)
  else if N.eqb cn 99 then one (poll_number_byte st v false true channel)
  else if N.eqb cn 100 then one (poll_number_byte st v true false channel)
  else if N.eqb cn 101 then one (poll_number_byte st v true true channel)
  else if N.eqb cn 38 then one (poll_value_lsb now st channel v)
  else if N.eqb cn 6 then one (poll_value_msb now st channel v)
  else if N.eqb cn 96 then poll_value_inc_dec st channel DataIncrement v
  else if N.eqb cn 97 then poll_value_inc_dec st channel DataDecrement v
  else (st, (None, None)).

Lemma poll_core_dispatch now st ch cn v :
  poll_feed1_core now st (SControlChange ch cn v) = poll_dispatch now st ch cn v.
Proof.
  unfold poll_feed1_core, poll_dispatch.
  destruct cn as [|p]; [reflexivity|].
  do 7 (destruct p as [p|p|]; try reflexivity).
Qed.

Definition poll_f1v (now : N) (st : pollst) (o : option (N * N * N)) : pollst * out2 :=
  match o with
  | Some (ch, cn, v) => poll_dispatch now st ch cn v
  | None => (st, (None, None))
  end.

Definition poll_p1 (now : N) (st : pollst) (c : N) : pollst * out2 :=
  let r := poll_poll1 now st c in (fst r, (snd r, None)).

Lemma poll_feed1_view now st m :
  True -> poll_feed1 now st m = Ok (poll_f1v now st (scc_view m)).
Proof.
  intros _. unfold poll_feed1. f_equal. destruct m; try reflexivity.
  cbn [scc_view poll_f1v]. apply poll_core_dispatch.
Qed.

Definition poll_gstep := gstep pollst out2 poll_f1v poll_p1 poll_reset1 (None, None).
Definition poll_grun := grun pollst out2 poll_f1v poll_p1 poll_reset1 (None, None).

Definition sop_ok (o : sop) : bool :=
  match o with
  | OFeed b => valid3 b
  | OPoll c => N.ltb c 16
  | OReset | OTick _ => true
  end.

(** L1 bridge: one step of the model equals one step of the arithmetic machine *)
Lemma poll_step_bridge now s o :
  length s = 16%nat -> sop_ok o = true ->
  poll_step now s o = Ok (poll_gstep now s o).
Proof.
  intros Hlen Ho. destruct o as [b|c| |dt]; cbn [poll_step sop_ok] in *.
  - unfold poll_feed.
    rewrite (feed_multi_bridge pollst out2 poll_f1v poll_p1 poll_reset1 (None, None)
               poll_feed1 (fun _ => True) poll_feed1_view now s b Hlen); [|apply Forall_forall; auto|exact Ho].
    cbn [obind fst snd]. unfold poll_gstep. cbn [gstep].
    destruct (channel_table (fst (fst b))); [|reflexivity].
    destruct (nth_error s _); reflexivity.
  - apply N.ltb_lt in Ho. unfold poll_poll, poll_gstep. cbn [gstep].
    destruct (nth_error s (N.to_nat c)) as [st|] eqn:E.
    + cbn [obind fst snd]. unfold poll_p1. reflexivity.
    + exfalso. apply nth_error_None in E. lia.
  - reflexivity.
  - reflexivity.
Qed.

Lemma poll_gstep_length now s o : length (snd (fst (poll_gstep now s o))) = length s.
Proof. apply gstep_length. Qed.

Lemma poll_run_bridge h : forall now s,
  length s = 16%nat -> Forall (fun o => sop_ok o = true) h ->
  poll_run now s h = Ok (poll_grun now s h).
Proof.
  induction h as [|o h IH]; intros now s Hlen Hh; [reflexivity|].
  inversion Hh as [|? ? Ho Hh']; subst.
  cbn [poll_run]. rewrite (poll_step_bridge now s o Hlen Ho). cbn [obind].
  unfold poll_grun. cbn [grun]. fold poll_gstep.
  pose proof (poll_gstep_length now s o) as Hl.
  destruct (poll_gstep now s o) as [[now1 s1] out] eqn:Eg. cbn [fst snd] in Hl.
  rewrite (IH now1 s1) by (try assumption; congruence).
  unfold poll_grun. destruct (grun pollst out2 poll_f1v poll_p1 poll_reset1 (None, None) now1 s1 h) as [[now2 s2] outs].
  reflexivity.
Qed.

(** * C13: timeout laws of the one-channel machine *)

(** poll reports only a pending data entry MSB whose timeout has passed; it reports that 7-bit
    message and leaves the channel waiting for a value *)
Lemma poll_some_inv now st c st' m :
  poll_poll1 now st c = (st', Some m) ->
  exists ns arrival v,
    p_state st = PPending ns arrival v true /\
    p_timeout st <= now - arrival /\
    m = pn_seven_bit c (ns_number ns) v (ns_reg ns) DataEntry /\
    st' = with_state st (PWaitVal ns).
Proof.
  unfold poll_poll1. destruct (p_state st) as [f r b|ns|ns arr v b|ns m1 l1] eqn:E;
    try (intros H; inversion H; fail).
  destruct (N.ltb_spec (now - arr) (p_timeout st)) as [Hlt|Hge]; [intros H; inversion H|].
  unfold resolve. destruct b; intros H; inversion H; subst.
  exists ns, arr, v. repeat split. assumption.
Qed.

(** a poll before the timeout returns nothing and has no effect (state equal) *)
Lemma poll_early_noop now st c ns arrival v b :
  p_state st = PPending ns arrival v b -> now - arrival < p_timeout st ->
  poll_poll1 now st c = (st, None).
Proof.
  intros E H. unfold poll_poll1. rewrite E.
  destruct (N.ltb_spec (now - arrival) (p_timeout st)); [reflexivity|lia].
Qed.

(** a poll with nothing pending returns nothing and has no effect *)
Definition not_pending (st : pollst) : Prop :=
  match p_state st with PPending _ _ _ _ => False | _ => True end.

Lemma poll_idle_noop now st c : not_pending st -> poll_poll1 now st c = (st, None).
Proof. unfold not_pending, poll_poll1. destruct (p_state st); tauto || reflexivity. Qed.

(** after a report (or whenever nothing is pending), polls and the passage of time report nothing
    and change nothing, for any number of polls and ticks *)
Definition poll_or_tick (o : sop) : bool :=
  match o with OPoll _ | OTick _ => true | _ => false end.

Lemma polls_silent c st : not_pending st -> forall h now,
  forallb poll_or_tick h = true ->
  exists now', run1 pollst out2 poll_f1v poll_p1 poll_reset1 (None, None) c now st h
               = (now', st, map (fun _ => (None, None)) h).
Proof.
  intros Hnp. induction h as [|o h IH]; intros now Hh; [eexists; reflexivity|].
  cbn [forallb] in Hh. apply andb_true_iff in Hh as [Ho Hh].
  destruct o as [b|c'| |dt]; try discriminate; cbn [run1 step1 map].
  - assert (E : poll_p1 now st c = (st, (None, None)))
      by (unfold poll_p1; rewrite (poll_idle_noop now st c Hnp); reflexivity).
    rewrite E. cbn [fst snd].
    destruct (IH now Hh) as [now' ->]. eexists; reflexivity.
  - destruct (IH (now + dt) Hh) as [now' ->]. eexists; reflexivity.
Qed.

Lemma poll_reported_then_silent now st c st' m :
  poll_poll1 now st c = (st', Some m) -> not_pending st'.
Proof.
  intros H. apply poll_some_inv in H as (ns & arr & v & _ & _ & _ & ->).
  unfold not_pending. cbn. exact I.
Qed.

(** the unpaired data entry LSB: dropped by the first poll after the timeout, never reported *)
Lemma unpaired_lsb_dropped_by_late_poll now st c ns arrival l :
  p_state st = PPending ns arrival l false -> p_timeout st <= now - arrival ->
  poll_poll1 now st c = (with_state st (PWaitVal ns), None).
Proof.
  intros E H. unfold poll_poll1. rewrite E.
  destruct (N.ltb_spec (now - arrival) (p_timeout st)); [lia|reflexivity].
Qed.

Lemma unpaired_lsb_never_reported now st ch cn v ns arrival l :
  p_state st = PPending ns arrival l false -> cn <> 6 ->
  snd (poll_dispatch now st ch cn v) = (None, None) /\
  (is_parameter_number_cn cn = true ->
   exists ns', p_state (fst (poll_dispatch now st ch cn v)) = PWaitVal ns') /\
  (is_parameter_number_cn cn = false -> poll_dispatch now st ch cn v = (st, (None, None))).
Proof.
  intros E Hne. unfold poll_dispatch.
  destruct (N.eqb_spec cn 98) as [->|]; [unfold one, poll_number_byte; rewrite E; cbn; repeat split; eauto; discriminate|].
  destruct (N.eqb_spec cn 99) as [->|]; [unfold one, poll_number_byte; rewrite E; cbn; repeat split; eauto; discriminate|].
  destruct (N.eqb_spec cn 100) as [->|]; [unfold one, poll_number_byte; rewrite E; cbn; repeat split; eauto; discriminate|].
  destruct (N.eqb_spec cn 101) as [->|]; [unfold one, poll_number_byte; rewrite E; cbn; repeat split; eauto; discriminate|].
  destruct (N.eqb_spec cn 38) as [->|]; [unfold one, poll_value_lsb; rewrite E; cbn; repeat split; eauto; discriminate|].
  destruct (N.eqb_spec cn 6) as [->|]; [contradiction|].
  destruct (N.eqb_spec cn 96) as [->|]; [unfold poll_value_inc_dec; rewrite E; cbn; repeat split; eauto; discriminate|].
  destruct (N.eqb_spec cn 97) as [->|]; [unfold poll_value_inc_dec; rewrite E; cbn; repeat split; eauto; discriminate|].
  cbn [fst snd]. repeat split; auto.
  intros H. exfalso. revert H.
  destruct cn as [|p]; [discriminate|].
  repeat (destruct p as [p|p|]; try discriminate); congruence.
Qed.

(** * feed does not depend on the clock *)
Definition erase_state (s : pstate) : pstate :=
  match s with PPending ns _ v b => PPending ns 0 v b | x => x end.
Definition erase (st : pollst) : pollst := mkPoll (p_timeout st) (erase_state (p_state st)).

Lemma feed_time_independent now1 now2 st1 st2 o :
  erase st1 = erase st2 ->
  snd (poll_f1v now1 st1 o) = snd (poll_f1v now2 st2 o) /\
  erase (fst (poll_f1v now1 st1 o)) = erase (fst (poll_f1v now2 st2 o)).
Proof.
  intros He. destruct o as [[[ch cn] v]|]; cbn [poll_f1v fst snd]; [|auto].
  destruct st1 as [t1 s1], st2 as [t2 s2]. unfold erase in He. cbn [p_timeout p_state] in He.
  inversion He as [[Ht Hs]]. subst t2.
  unfold poll_dispatch, one, poll_number_byte, poll_value_lsb, poll_value_msb, poll_value_inc_dec,
    expected_value_byte, with_state, erase.
  cbn [p_state p_timeout].
  destruct s1 as [f1 r1 b1|ns1|ns1 a1 v1 b1|ns1 m1 l1];
    destruct s2 as [f2 r2 b2|ns2|ns2 a2 v2 b2|ns2 m2 l2];
    cbn [erase_state] in Hs; inversion Hs; subst;
    repeat match goal with
      | |- context [N.eqb cn ?k] => destruct (N.eqb cn k)
      end; cbn [fst snd p_state p_timeout erase_state];
    repeat match goal with
      | |- context [match ?x with Some _ => _ | None => _ end] => destruct x
      | |- context [if ?b then _ else _] => destruct b
      end; cbn [fst snd p_state p_timeout erase_state]; auto.
Qed.

(** hence: the outputs of any sequence of feeds are the same under any two clocks *)
Fixpoint feeds_run (st : pollst) (l : list (N * option (N * N * N))) : pollst * list out2 :=
  match l with
  | [] => (st, [])
  | (now, o) :: t =>
      let r := poll_f1v now st o in
      let r' := feeds_run (fst r) t in
      (fst r', snd r :: snd r')
  end.

Lemma feeds_time_independent l1 l2 : map snd l1 = map snd l2 -> forall st1 st2,
  erase st1 = erase st2 ->
  snd (feeds_run st1 l1) = snd (feeds_run st2 l2).
Proof.
  revert l2. induction l1 as [|[n1 o1] l1 IH]; intros [|[n2 o2] l2] Hm st1 st2 He;
    try discriminate; [reflexivity|].
  cbn [map snd] in Hm. inversion Hm as [[Ho Hm']]. subst o2.
  cbn [feeds_run fst snd].
  destruct (feed_time_independent n1 n2 st1 st2 o1 He) as [H1 H2].
  rewrite H1. f_equal. apply IH; assumption.
Qed.

(** non-vacuity: a pending MSB that a late poll reports *)
Example pending_msb_reported :
  exists st st', fst (feeds_run (pollst_new 5) [(0, Some (0, 99, 1)); (0, Some (0, 98, 2)); (3, Some (0, 6, 7))]) = st
             /\ poll_poll1 8 st 0 = (st', Some (pn_seven_bit 0 130 7 false DataEntry))
             /\ poll_poll1 7 st 0 = (st, None).
Proof. eexists; eexists; split; [reflexivity|]. split; vm_compute; reflexivity. Qed.
