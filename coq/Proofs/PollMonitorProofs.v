(** C14: every trace of the polling scanner model is accepted by the C14 monitor.
    Proof by a simulation relation between the scanner's phase and the monitor's observers. *)
From Verif Require Import Base.Prelude Base.Sweep Model.ShortMsg Model.PerChannel Model.CC14
  Model.Nrpn Model.Polling Spec.MidiTable Spec.PollMonitor Proofs.BitFacts Proofs.ShortMsgFacts
  Proofs.PerChannelProofs Proofs.PollingProofs.

Definition settled (m : mon) : Prop := is_fresh_counted (m_last6 m) = false.

Definition nm (ns : numst) (m : mon) : Prop :=
  m_num_msb m = Some (ns_msb ns) /\ m_num_lsb m = Some (ns_lsb ns) /\ m_reg m = ns_reg ns /\
  ns_msb ns < 128 /\ ns_lsb ns < 128.

(** the simulation relation: what the monitor's observers must look like in each phase *)
Definition sim (st : pollst) (m : mon) : Prop :=
  match p_state st with
  | PWaitNum None _ _ => m_num_msb m = None /\ m_num_lsb m = None /\ settled m
  | PWaitNum (Some x) r true =>
      m_num_msb m = Some x /\ m_num_lsb m = None /\ m_reg m = r /\ settled m /\ x < 128
  | PWaitNum (Some x) r false =>
      m_num_msb m = None /\ m_num_lsb m = Some x /\ m_reg m = r /\ settled m /\ x < 128
  | PWaitVal ns => nm ns m /\ settled m
  | PPending ns arr v true => nm ns m /\ m_last6 m = Some (mkC6 v arr Fresh true) /\ v < 128
  | PPending ns arr l false => nm ns m /\ m_last38 m = Some l /\ settled m /\ l < 128
  | PComplete ns vm vl =>
      nm ns m /\ m_last38 m = Some vl /\
      (exists t cnt, m_last6 m = Some (mkC6 vm t In14 cnt)) /\ vm < 128 /\ vl < 128
  end.

Lemma sim_init timeout : sim (pollst_new timeout) mon_init.
Proof. cbn. repeat split. Qed.

Lemma sim_reset st : sim (poll_reset1 st) mon_init.
Proof. cbn. repeat split. Qed.

Lemma ns_number_arith ns : ns_msb ns < 128 -> ns_lsb ns < 128 ->
  ns_number ns = 128 * ns_msb ns + ns_lsb ns.
Proof. intros. unfold ns_number. apply build_14_arith; assumption. Qed.

Ltac kill :=
  repeat match goal with
    | |- context [N.eqb ?x ?x] => rewrite (N.eqb_refl x)
    | |- context [Bool.eqb ?x ?x] => rewrite (Bool.eqb_reflx x)
    | H : is_fresh_counted ?x = false |- context [is_fresh_counted ?x] => rewrite H
    | |- context [N.eqb ?x ?y] => destruct (N.eqb_spec x y); try lia
    | |- context [N.leb ?x ?y] => destruct (N.leb_spec x y); try lia
    | |- context [N.ltb ?x ?y] => destruct (N.ltb_spec x y); try lia
    end.

Ltac decomp :=
  repeat match goal with
    | H : _ /\ _ |- _ => destruct H
    | H : exists _, _ |- _ => destruct H
    end; subst.

Ltac finish :=
  try (eexists; split; [reflexivity|]); cbn in *; repeat split; eauto; try lia;
  try (unfold mark; cbn; do 2 eexists; reflexivity).

(** * poll *)
Lemma sim_poll st m c now :
  sim st m ->
  exists m', mon_poll (p_timeout st) m c now (snd (poll_poll1 now st c)) = Some m' /\
             sim (fst (poll_poll1 now st c)) m'.
Proof.
  destruct st as [timeout ps]. destruct m as [mh ml mr m6 m38].
  unfold sim, settled, nm, poll_poll1, mon_poll, resolve, report_ok, header_ok, mon_number,
    ns_number.
  cbn [p_state p_timeout m_num_msb m_num_lsb m_reg m_last6 m_last38].
  destruct ps as [[x|] r [|]|ns|ns arr v [|]|ns vm vl]; intros H; decomp;
    cbn [fst snd]; rewrite ?build_14_arith by assumption; kill; cbn in *;
    rewrite ?build_14_arith by assumption; kill; cbn in *; kill;
    rewrite ?Bool.andb_false_r; finish.
Qed.

(** * feed *)
Ltac unfold_all :=
  unfold sim, settled, nm, one, poll_number_byte, poll_value_lsb, poll_value_msb,
    poll_value_inc_dec, expected_value_byte, resolve, with_state, mon_feed, report_ok, header_ok,
    mon_number, ns_number, pn_seven_bit, pn_fourteen_bit, is_pn_cn in *;
  cbn [p_state p_timeout m_num_msb m_num_lsb m_reg m_last6 m_last38 ns_msb ns_lsb ns_reg] in *.

Ltac crush :=
  decomp; cbn [fst snd] in *; rewrite ?build_14_arith by assumption; kill; cbn in *;
  rewrite ?build_14_arith by assumption; kill; cbn in *; kill;
  rewrite ?Bool.andb_false_r; cbn in *; kill; finish.


Ltac feed_case :=
  let Hs := fresh "Hs" in let Hv := fresh "Hv" in
  intros Hs Hv;
  match goal with st : pollst, m : mon |- _ =>
    destruct st as [timeout ps]; destruct m as [mh ml mr m6 m38] end;
  unfold poll_dispatch; kill; cbv zeta; unfold_all;
  match goal with ps : pstate |- _ =>
    destruct ps as [[x|] r [|]|ns|ns arr v0 [|]|ns vm vl] end; crush.

Definition feed_sim (n : N) : Prop := forall st m c v now,
  sim st m -> v < 128 ->
  let r := poll_dispatch now st c n v in
  exists m', mon_feed m c n v now (fst (snd r)) (snd (snd r)) = Some m' /\ sim (fst r) m'.
