(** The correspondence oracle accepts the model: for valid inputs the model's observation
    satisfies the property decider of its tag ("agree implies holds").  Shown for the
    history-shaped tags, where the decider is an independent specification. *)
From Verif Require Import Base.Prelude Base.Enc Model.ShortMsg Model.PerChannel Model.CC14 Model.Nrpn
  Model.Polling Spec.MidiTable Spec.CC14Spec Spec.NrpnSpec Spec.PollMonitor Spec.ShortMsgObs
  Proofs.ShortMsgProofs Proofs.CC14Proofs Proofs.NrpnProofs Proofs.PollingProofs
  Proofs.PollMonitorMain Checker.
Open Scope Z_scope.

(** tag 80: the 14-bit CC scanner history *)
Theorem oracle_80_accepts_model h :
  Forall (fun o => cc14op_valid o = true) h -> model_80 h = spec_80 h.
Proof.
  intros Hh. unfold model_80, spec_80, outs_or_panic.
  destruct (cc14_exact h Hh) as [s' ->]. reflexivity.
Qed.

(** tag 110: the (N)RPN scanner history *)
Theorem oracle_110_accepts_model h :
  Forall (fun o => pnop_valid o = true) h -> model_110 h = spec_110 h.
Proof.
  intros Hh. unfold model_110, spec_110, outs_or_panic.
  destruct (pn_exact h Hh) as [s' ->]. reflexivity.
Qed.

(** tag 20: accessors of RawShortMessage and StructuredShortMessage *)
Theorem oracle_20_accepts_model k s a c :
  valid3 (s, a, c) = true -> (k = 0 \/ k = 1) -> acc_obs_kind k (s, a, c) = acc_spec (s, a, c).
Proof.
  intros Hv [->| ->].
  - unfold acc_obs_kind. cbn [Z.eqb]. apply acc_raw_spec. exact Hv.
  - apply acc_struct_spec. exact Hv.
Qed.

(** tag 140: the C14 monitor accepts the encoded-and-decoded outputs of the model *)
Lemma dec_enc_pn o : match enc_pn o with
                     | [a; b; c; d; e; f] => dec_pn6 a b c d e f = o
                     | _ => False
                     end.
Proof.
  destruct o as [[ch n v r w dt]|]; cbn [enc_pn].
  - cbn [pn_channel pn_number pn_value pn_is_registered pn_is_14_bit pn_data_type].
    unfold dec_pn6, zN, zb, zdt, dec_dt, nz.
    destruct (Z.ltb_spec (Z.of_N ch) 0); [lia|].
    rewrite !N2Z.id. destruct r, w, dt; reflexivity.
  - reflexivity.
Qed.

Lemma dec_enc_out2s outs : dec_out2s (flat_map enc_out2 outs) = outs.
Proof.
  induction outs as [|[o1 o2] outs IH]; [reflexivity|].
  cbn [flat_map]. unfold enc_out2 at 1. cbn [fst snd].
  pose proof (dec_enc_pn o1) as H1. pose proof (dec_enc_pn o2) as H2.
  destruct (enc_pn o1) as [|a1 [|b1 [|c1 [|d1 [|e1 [|f1 [|? ?]]]]]]] eqn:E1; try contradiction.
  destruct (enc_pn o2) as [|a2 [|b2 [|c2 [|d2 [|e2 [|f2 [|? ?]]]]]]] eqn:E2; try contradiction.
  cbn [app dec_out2s]. rewrite H1, H2, IH. reflexivity.
Qed.

Theorem oracle_140_accepts_model timeout h :
  Forall (fun o => sop_ok o = true) h ->
  v_holds (check_140 timeout h (enc_outs (poll_outs timeout h))) = true.
Proof.
  intros Hh. destruct (poll_trace_ok timeout h Hh) as (now' & s' & outs & Hr & Hc).
  unfold check_140, poll_outs. rewrite Hr. cbn [enc_outs v_holds].
  rewrite dec_enc_out2s, Hc, andb_true_r.
  assert (Hl : length outs = length h).
  { clear Hc. revert Hr. generalize (poll_new_scanner timeout). generalize 0%N at 1.
    revert now' s' outs. induction h as [|o h IH]; intros now' s' outs now0 s0 Hr.
    - cbn in Hr. inversion Hr. reflexivity.
    - inversion Hh as [|? ? Ho Hh']; subst. cbn [poll_run] in Hr.
      destruct (poll_step now0 s0 o) as [[[n1 s1] o1]|]; [|discriminate]. cbn [obind] in Hr.
      destruct (poll_run n1 s1 h) as [[[n2 s2] outs2]|] eqn:E; [|discriminate].
      cbn [obind] in Hr. inversion Hr; subst. cbn [length]. f_equal.
      exact (IH Hh' _ _ _ _ _ E). }
  assert (Hlen : length (flat_map enc_out2 outs) = (12 * length outs)%nat).
  { clear. induction outs as [|[o1 o2] outs IH]; [reflexivity|].
    cbn [flat_map]. rewrite app_length, IH. unfold enc_out2. cbn [fst snd].
    rewrite app_length. destruct o1, o2; cbn [enc_pn length]; lia. }
  rewrite Hlen, Hl. apply Nat.eqb_refl.
Qed.
