(** Arithmetic readings of the shift/mask helpers, proved by complete sweeps of their (finite)
    domains. *)
From Verif Require Import Base.Prelude Base.Sweep Model.ShortMsg.

Lemma build_14_arith hi lo : hi < 128 -> lo < 128 -> build_14 hi lo = 128 * hi + lo.
Proof.
  intros H1 H2.
  assert (S : forallN2 128 128 (fun h l => N.eqb (build_14 h l) (128 * h + l)) = true)
    by (vm_compute; reflexivity).
  apply N.eqb_eq. exact (forallN2_spec _ _ _ S hi lo H1 H2).
Qed.

Lemma build_14_lt hi lo : hi < 128 -> lo < 128 -> build_14 hi lo < 16384.
Proof. intros H1 H2. rewrite build_14_arith by assumption. lia. Qed.

Lemma extract_high_7_arith v : v < 16384 -> extract_high_7 v = v / 128.
Proof.
  intros H.
  assert (S : forallN 16384 (fun v => N.eqb (extract_high_7 v) (v / 128)) = true)
    by (vm_compute; reflexivity).
  apply N.eqb_eq. exact (forallN_spec _ _ S v H).
Qed.

Lemma extract_low_7_arith v : v < 16384 -> extract_low_7 v = v mod 128.
Proof.
  intros H.
  assert (S : forallN 16384 (fun v => N.eqb (extract_low_7 v) (v mod 128)) = true)
    by (vm_compute; reflexivity).
  apply N.eqb_eq. exact (forallN_spec _ _ S v H).
Qed.

Lemma extract_channel_arith s : s < 256 -> extract_channel s = s mod 16.
Proof.
  intros H.
  assert (S : forallN 256 (fun s => N.eqb (extract_channel s) (s mod 16)) = true)
    by (vm_compute; reflexivity).
  apply N.eqb_eq. exact (forallN_spec _ _ S s H).
Qed.

Lemma build_status_byte_arith t ch :
  In t [128; 144; 160; 176; 192; 208; 224] -> ch < 16 -> build_status_byte t ch = t + ch.
Proof.
  intros Ht Hc.
  assert (S : forallN 16 (fun c =>
                forallb (fun t => N.eqb (build_status_byte t c) (t + c))
                  [128; 144; 160; 176; 192; 208; 224]) = true) by (vm_compute; reflexivity).
  pose proof (forallN_spec _ _ S ch Hc) as H. cbv beta in H.
  rewrite forallb_forall in H. apply N.eqb_eq. apply H. exact Ht.
Qed.

Lemma high_low_7_lt v : extract_high_7 v < 128 /\ extract_low_7 v < 128.
Proof.
  unfold extract_high_7, extract_low_7. split.
  - change 127 with (N.ones 7). rewrite N.land_ones. apply N.mod_lt. discriminate.
  - change 127 with (N.ones 7). rewrite N.land_ones. apply N.mod_lt. discriminate.
Qed.

Lemma div_mod_128 v : v < 16384 -> v / 128 < 128 /\ v mod 128 < 128 /\ 128 * (v / 128) + v mod 128 = v.
Proof.
  intros H. repeat split.
  - apply N.div_lt_upper_bound; lia.
  - apply N.mod_lt; lia.
  - symmetry. apply N.div_mod. lia.
Qed.
