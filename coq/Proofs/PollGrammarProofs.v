(** C12: on every stream of documented sequence forms (Spec/PollGrammar.v), from any prior state,
    the polling scanner reports exactly what the grammar transducer prescribes. *)
From Verif Require Import Base.Prelude Base.Sweep Model.ShortMsg Model.PerChannel Model.CC14
  Model.Nrpn Model.Polling Spec.MidiTable Spec.PollGrammar Proofs.BitFacts Proofs.ShortMsgFacts
  Proofs.PerChannelProofs Proofs.PollingProofs.

(** the simulation relation between the grammar state and the scanner's phase *)
Definition gsim (g : gstate) (ps : pstate) : Prop :=
  match g with
  | G0 => True
  | GSel1 k x r =>
      x < 128 /\
      (ps = PWaitNum (Some x) r k \/
       exists ns, ps = PWaitVal ns /\ ns_reg ns = r /\ (if k then ns_msb ns else ns_lsb ns) = x)
  | GFresh hi lo r | GIdle hi lo r => ps = PWaitVal (mkNum hi lo r) /\ hi < 128 /\ lo < 128
  | GLsb hi lo r l t0 => ps = PPending (mkNum hi lo r) t0 l false /\ hi < 128 /\ lo < 128 /\ l < 128
  | GMsb hi lo r m t0 => ps = PPending (mkNum hi lo r) t0 m true /\ hi < 128 /\ lo < 128 /\ m < 128
  | GC14 hi lo r m => exists l, ps = PComplete (mkNum hi lo r) m l /\ hi < 128 /\ lo < 128 /\ m < 128
  end.

(** what may be reported while the grammar is still before its first selection: nothing, or the
    flush of a 7-bit data entry pending from earlier traffic *)
Definition flush_shaped (o : out2) : Prop :=
  snd o = None /\
  match fst o with
  | None => True
  | Some r => pn_is_14_bit r = false /\ pn_data_type r = DataEntry
  end.

Definition is_g0 (g : gstate) : bool := match g with G0 => true | _ => false end.

Definition agrees (g : gstate) (actual expected : out2) : Prop :=
  if is_g0 g then flush_shaped actual else actual = expected.

Lemma num_build hi lo : hi < 128 -> lo < 128 -> build_14 hi lo = num hi lo.
Proof. intros. unfold num. apply build_14_arith; assumption. Qed.

Ltac gdecomp :=
  repeat match goal with
    | H : _ /\ _ |- _ => destruct H
    | H : exists _, _ |- _ => destruct H
    end.

(** ** parameter-number bytes *)
Lemma gsim_number g timeout ps c is_msb reg v g' out :
  gsim g ps -> v < 128 -> g_number g c is_msb reg v = Some (g', out) ->
  let r := poll_number_byte (mkPoll timeout ps) v reg is_msb c in
  p_timeout (fst r) = timeout /\ gsim g' (p_state (fst r)) /\ agrees g (snd r, None) out.
Proof.
  intros Hs Hv Hg. unfold poll_number_byte, with_state, agrees, flush_shaped. cbn [p_state p_timeout].
  destruct g as [|k x r|hi lo r|hi lo r|hi lo r l t0|hi lo r m t0|hi lo r m];
    cbn [g_number is_g0] in *.
  - (* first selection byte, from any prior state *)
    inversion Hg; subst. clear Hg.
    destruct ps as [[y|] r0 k0|ns|ns arr v0 b|ns vm vl]; cbn [fst snd p_state p_timeout gsim].
    + destruct (Bool.eqb k0 is_msb) eqn:E; cbn [fst snd p_state p_timeout].
      * split; [reflexivity|]. split; [split; [exact Hv|left; reflexivity]|]. cbn. auto.
      * split; [reflexivity|]. split; [|cbn; auto]. split; [exact Hv|]. right.
        eexists; split; [reflexivity|]. cbn [ns_reg ns_msb ns_lsb].
        destruct k0, is_msb; try discriminate; auto.
    + split; [reflexivity|]. split; [split; [exact Hv|left; reflexivity]|]. cbn. auto.
    + split; [reflexivity|]. split; [|cbn; auto]. split; [exact Hv|]. right.
      eexists; split; [reflexivity|]. cbn. destruct is_msb; auto.
    + split; [reflexivity|]. split.
      * split; [exact Hv|]. right. eexists; split; [reflexivity|]. cbn. destruct is_msb; auto.
      * unfold resolve. destruct b; cbn; auto.
    + split; [reflexivity|]. split; [|cbn; auto]. split; [exact Hv|]. right.
      eexists; split; [reflexivity|]. cbn. destruct is_msb; auto.
  - (* second selection byte *)
    destruct (negb (Bool.eqb k is_msb) && Bool.eqb r reg) eqn:Ek; [|discriminate].
    apply andb_true_iff in Ek as [Ek1 Ek2]. apply negb_true_iff in Ek1. apply eqb_prop in Ek2. subst reg.
    inversion Hg; subst. clear Hg. cbn [gsim] in Hs. destruct Hs as [Hx [Hs|(ns & Hs & Hr & Hk)]]; subst ps.
    + cbn [fst snd p_state p_timeout]. rewrite Ek1. cbn [fst snd p_state p_timeout].
      split; [reflexivity|]. split; [|reflexivity].
      destruct k; cbn [gsim]; auto.
    + cbn [fst snd p_state p_timeout]. split; [reflexivity|]. split; [|reflexivity].
      destruct k, is_msb; try discriminate; cbn [gsim]; subst; auto.
  - inversion Hg; subst. destruct Hs as (-> & H1 & H2). cbn [fst snd p_state p_timeout gsim].
    split; [reflexivity|]. split; [|reflexivity]. split; [exact Hv|]. right.
    eexists; split; [reflexivity|]. cbn. destruct is_msb; auto.
  - inversion Hg; subst. destruct Hs as (-> & H1 & H2). cbn [fst snd p_state p_timeout gsim].
    split; [reflexivity|]. split; [|reflexivity]. split; [exact Hv|]. right.
    eexists; split; [reflexivity|]. cbn. destruct is_msb; auto.
  - discriminate.
  - inversion Hg; subst. destruct Hs as (-> & H1 & H2 & H3). cbn [fst snd p_state p_timeout gsim].
    split; [reflexivity|]. split.
    + split; [exact Hv|]. right. eexists; split; [reflexivity|]. cbn. destruct is_msb; auto.
    + unfold resolve, pn_seven_bit, m7, ns_number. cbn [ns_msb ns_lsb ns_reg].
      rewrite num_build by assumption. reflexivity.
  - inversion Hg; subst. destruct Hs as (l & -> & H1 & H2 & H3). cbn [fst snd p_state p_timeout gsim].
    split; [reflexivity|]. split; [|reflexivity]. split; [exact Hv|]. right.
    eexists; split; [reflexivity|]. cbn. destruct is_msb; auto.
Qed.

(** ** data entry LSB *)
Lemma gsim_lsb g timeout ps c v t g' out :
  gsim g ps -> v < 128 -> g_lsb g c v t = Some (g', out) ->
  let r := poll_value_lsb t (mkPoll timeout ps) c v in
  p_timeout (fst r) = timeout /\ gsim g' (p_state (fst r)) /\ agrees g (snd r, None) out.
Proof.
  intros Hs Hv Hg. unfold poll_value_lsb, expected_value_byte, with_state, agrees.
  cbn [p_state p_timeout].
  destruct g as [|k x r|hi lo r|hi lo r|hi lo r l t0|hi lo r m t0|hi lo r m];
    cbn [g_lsb is_g0] in *; try discriminate; inversion Hg; subst; clear Hg.
  - destruct Hs as (-> & H1 & H2). cbn [fst snd p_state p_timeout gsim]. auto 10.
  - destruct Hs as (-> & H1 & H2 & H3). cbn [fst snd p_state p_timeout gsim].
    split; [reflexivity|]. split; [eauto 10|].
    unfold pn_fourteen_bit, m14, ns_number. cbn [ns_msb ns_lsb ns_reg].
    rewrite num_build by assumption. rewrite build_14_arith by assumption. reflexivity.
  - destruct Hs as (l & -> & H1 & H2 & H3). cbn [fst snd p_state p_timeout gsim].
    split; [reflexivity|]. split; [eauto 10|].
    unfold pn_fourteen_bit, m14, ns_number. cbn [ns_msb ns_lsb ns_reg].
    rewrite num_build by assumption. rewrite build_14_arith by assumption. reflexivity.
Qed.

(** ** data entry MSB *)
Lemma gsim_msb g timeout ps c v t g' out :
  gsim g ps -> v < 128 -> g_msb g c v t = Some (g', out) ->
  let r := poll_value_msb t (mkPoll timeout ps) c v in
  p_timeout (fst r) = timeout /\ gsim g' (p_state (fst r)) /\ agrees g (snd r, None) out.
Proof.
  intros Hs Hv Hg. unfold poll_value_msb, expected_value_byte, with_state, agrees.
  cbn [p_state p_timeout].
  destruct g as [|k x r|hi lo r|hi lo r|hi lo r l t0|hi lo r m t0|hi lo r m];
    cbn [g_msb is_g0] in *; try discriminate; inversion Hg; subst; clear Hg.
  - destruct Hs as (-> & H1 & H2). cbn [fst snd p_state p_timeout gsim]. auto 10.
  - destruct Hs as (-> & H1 & H2). cbn [fst snd p_state p_timeout gsim]. auto 10.
  - destruct Hs as (-> & H1 & H2 & H3). cbn [fst snd p_state p_timeout gsim].
    split; [reflexivity|]. split; [eauto 10|].
    unfold pn_fourteen_bit, m14, ns_number. cbn [ns_msb ns_lsb ns_reg].
    rewrite num_build by assumption. rewrite build_14_arith by assumption. reflexivity.
  - destruct Hs as (-> & H1 & H2 & H3). cbn [fst snd p_state p_timeout gsim].
    split; [reflexivity|]. split; [auto 10|].
    unfold pn_seven_bit, m7, ns_number. cbn [ns_msb ns_lsb ns_reg].
    rewrite num_build by assumption. reflexivity.
  - destruct Hs as (l & -> & H1 & H2 & H3). cbn [fst snd p_state p_timeout gsim]. auto 10.
Qed.

(** ** increment / decrement *)
Lemma gsim_incdec g timeout ps c dt v g' out :
  gsim g ps -> v < 128 -> g_incdec g c dt v = Some (g', out) ->
  let r := poll_value_inc_dec (mkPoll timeout ps) c dt v in
  p_timeout (fst r) = timeout /\ gsim g' (p_state (fst r)) /\ agrees g (snd r) out.
Proof.
  intros Hs Hv Hg. unfold poll_value_inc_dec, with_state, agrees. cbn [p_state p_timeout].
  destruct g as [|k x r|hi lo r|hi lo r|hi lo r l t0|hi lo r m t0|hi lo r m];
    cbn [g_incdec is_g0] in *; try discriminate; inversion Hg; subst; clear Hg.
  - destruct Hs as (-> & H1 & H2). cbn [fst snd p_state p_timeout gsim].
    split; [reflexivity|]. split; [auto|].
    unfold pn_seven_bit, m7, ns_number. cbn [ns_msb ns_lsb ns_reg]. rewrite num_build by assumption. reflexivity.
  - destruct Hs as (-> & H1 & H2). cbn [fst snd p_state p_timeout gsim].
    split; [reflexivity|]. split; [auto|].
    unfold pn_seven_bit, m7, ns_number. cbn [ns_msb ns_lsb ns_reg]. rewrite num_build by assumption. reflexivity.
  - destruct Hs as (-> & H1 & H2 & H3). cbn [fst snd p_state p_timeout gsim].
    split; [reflexivity|]. split; [auto|].
    unfold pn_seven_bit, m7, ns_number. cbn [ns_msb ns_lsb ns_reg]. rewrite num_build by assumption. reflexivity.
  - destruct Hs as (l & -> & H1 & H2 & H3). cbn [fst snd p_state p_timeout gsim].
    split; [reflexivity|]. split; [auto|].
    unfold pn_seven_bit, m7, ns_number. cbn [ns_msb ns_lsb ns_reg]. rewrite num_build by assumption. reflexivity.
Qed.

(** ** any Control Change on the channel *)
Lemma gsim_feed g timeout ps c n v t g' out :
  gsim g ps -> v < 128 -> g_feed g c n v t = Some (g', out) ->
  let r := poll_dispatch t (mkPoll timeout ps) c n v in
  p_timeout (fst r) = timeout /\ gsim g' (p_state (fst r)) /\ agrees g (snd r) out.
Proof.
  intros Hs Hv. unfold g_feed, poll_dispatch, one.
  destruct (N.eqb_spec n 99) as [->|N1].
  { intros Hg. replace (N.eqb 99 98) with false by reflexivity.
    exact (gsim_number g timeout ps c true false v g' out Hs Hv Hg). }
  destruct (N.eqb_spec n 98) as [->|N2].
  { intros Hg. exact (gsim_number g timeout ps c false false v g' out Hs Hv Hg). }
  destruct (N.eqb_spec n 101) as [->|N3].
  { intros Hg. replace (N.eqb 101 100) with false by reflexivity.
    exact (gsim_number g timeout ps c true true v g' out Hs Hv Hg). }
  destruct (N.eqb_spec n 100) as [->|N4].
  { intros Hg. exact (gsim_number g timeout ps c false true v g' out Hs Hv Hg). }
  destruct (N.eqb_spec n 38) as [->|N5].
  { intros Hg. exact (gsim_lsb g timeout ps c v t g' out Hs Hv Hg). }
  destruct (N.eqb_spec n 6) as [->|N6].
  { intros Hg. exact (gsim_msb g timeout ps c v t g' out Hs Hv Hg). }
  destruct (N.eqb_spec n 96) as [->|N7].
  { intros Hg. exact (gsim_incdec g timeout ps c DataIncrement v g' out Hs Hv Hg). }
  destruct (N.eqb_spec n 97) as [->|N8].
  { intros Hg. exact (gsim_incdec g timeout ps c DataDecrement v g' out Hs Hv Hg). }
  intros Hg. inversion Hg; subst. cbn [fst snd p_timeout p_state].
  split; [reflexivity|]. split; [exact Hs|].
  unfold agrees, flush_shaped. destruct (is_g0 g'); cbn; auto.
Qed.

(** ** poll *)
Lemma gsim_poll g timeout ps c t g' o :
  gsim g ps -> g_poll timeout g c t = Some (g', o) ->
  let r := poll_poll1 t (mkPoll timeout ps) c in
  p_timeout (fst r) = timeout /\ gsim g' (p_state (fst r)) /\ agrees g (snd r, None) (o, None).
Proof.
  intros Hs Hg. unfold poll_poll1, with_state, agrees, flush_shaped. cbn [p_state p_timeout].
  destruct g as [|k x r|hi lo r|hi lo r|hi lo r l t0|hi lo r m t0|hi lo r m];
    cbn [g_poll is_g0 gsim] in *.
  - inversion Hg; subst. destruct ps as [f r0 k0|ns|ns arr v0 b|ns vm vl]; cbn [fst snd p_state p_timeout gsim]; auto.
    destruct (N.ltb (t - arr) timeout); cbn [fst snd p_state p_timeout]; auto.
    unfold resolve. destruct b; cbn; auto.
  - inversion Hg; subst. destruct Hs as [Hx [->|(ns & -> & Hr & Hk)]]; cbn [fst snd p_state p_timeout gsim]; eauto 10.
  - inversion Hg; subst. destruct Hs as (-> & H1 & H2). cbn [fst snd p_state p_timeout gsim]. auto.
  - inversion Hg; subst. destruct Hs as (-> & H1 & H2). cbn [fst snd p_state p_timeout gsim]. auto.
  - destruct Hs as (-> & H1 & H2 & H3).
    destruct (N.leb_spec timeout (t - t0)); [discriminate|]. inversion Hg; subst.
    destruct (N.ltb_spec (t - t0) timeout); [|lia]. cbn [fst snd p_state p_timeout gsim]. auto 10.
  - destruct Hs as (-> & H1 & H2 & H3).
    destruct (N.leb_spec timeout (t - t0)); inversion Hg; subst.
    + destruct (N.ltb_spec (t - t0) timeout); [lia|]. cbn [fst snd p_state p_timeout gsim].
      split; [reflexivity|]. split; [auto|].
      unfold resolve, pn_seven_bit, m7, ns_number. cbn [ns_msb ns_lsb ns_reg].
      rewrite num_build by assumption. reflexivity.
    + destruct (N.ltb_spec (t - t0) timeout); [|lia]. cbn [fst snd p_state p_timeout gsim]. auto 10.
  - inversion Hg; subst. destruct Hs as (l & -> & H1 & H2 & H3). cbn [fst snd p_state p_timeout gsim]. eauto 10.
Qed.

(** * the 16-channel product and whole histories *)
Definition GInv (timeout : N) (gs : gstates) (s : poll_scanner) : Prop :=
  length gs = 16%nat /\ length s = 16%nat /\
  forall c, c < 16 -> exists g st,
      nth_error gs (N.to_nat c) = Some g /\ nth_error s (N.to_nat c) = Some st /\
      gsim g (p_state st) /\ p_timeout st = timeout.

Lemma GInv_upd timeout gs s c g' st' :
  GInv timeout gs s -> c < 16 -> gsim g' (p_state st') -> p_timeout st' = timeout ->
  GInv timeout (upd gs (N.to_nat c) g') (upd s (N.to_nat c) st').
Proof.
  intros (L1 & L2 & H) Hc Hs Ht. split; [rewrite upd_length; exact L1|].
  split; [rewrite upd_length; exact L2|]. intros c' Hc'.
  destruct (N.eq_dec c c') as [->|Hne].
  - exists g', st'. repeat split; try assumption; apply nth_error_upd_same; lia.
  - destruct (H c' Hc') as (g & st & E1 & E2 & E3 & E4). exists g, st.
    rewrite !nth_error_upd_other by lia. auto.
Qed.

(** every scanner whose channels share the timeout simulates the initial grammar state *)
Lemma GInv_start timeout s :
  length s = 16%nat -> Forall (fun st => p_timeout st = timeout) s -> GInv timeout gstates_init s.
Proof.
  intros Hl Ht. split; [reflexivity|]. split; [exact Hl|]. intros c Hc.
  destruct (nth_error s (N.to_nat c)) as [st|] eqn:E.
  - exists G0, st. split.
    + unfold gstates_init, replicate.
      rewrite (nth_error_nth' _ G0) by (rewrite repeat_length; lia). rewrite nth_repeat. reflexivity.
    + split; [reflexivity|]. split; [exact I|].
      rewrite Forall_forall in Ht. apply Ht. eapply nth_error_In; exact E.
  - exfalso. apply nth_error_None in E. lia.
Qed.

(** the agreement required at one call *)
Definition call_ok (expected : out2 * bool) (actual : out2) : Prop :=
  if snd expected then flush_shaped actual else actual = fst expected.

Lemma gstep_sim timeout now gs s o now' gs' out first :
  GInv timeout gs s -> sop_ok o = true ->
  g_step timeout now gs o = Some (now', gs', out, first) ->
  fst (fst (poll_gstep now s o)) = now' /\
  GInv timeout gs' (snd (fst (poll_gstep now s o))) /\
  call_ok (out, first) (snd (poll_gstep now s o)).
Proof.
  intros Hinv Ho Hg. pose proof Hinv as (L1 & L2 & H).
  destruct o as [b|c| |dt]; cbn [sop_ok] in Ho; unfold poll_gstep; cbn [gstep g_step] in *.
  - destruct b as [[s0 a] x]. apply valid3_bounds in Ho as (H1 & H2 & Ha & Hx). cbn [fst snd] in *.
    destruct (channel_table s0) as [c|] eqn:Ec.
    2:{ inversion Hg; subst. cbn [fst snd]. repeat split; try assumption; reflexivity. }
    pose proof (channel_table_lt _ _ Ec) as Hc.
    destruct (H c Hc) as (g & st & E1 & E2 & Hs & Ht). rewrite E2.
    destruct (as_cc (s0, a, x)) as [[[c' n] v]|] eqn:Ecc.
    2:{ inversion Hg; subst. cbn [poll_f1v fst snd]. rewrite upd_same_id by exact E2.
        repeat split; try assumption; reflexivity. }
    pose proof (as_cc_channel _ _ _ _ _ _ Ecc H2) as (_ & Ec' & -> & ->).
    rewrite Ec in Ec'. inversion Ec'; subst c'. clear Ec'.
    rewrite E1 in Hg.
    destruct (g_feed g c a x now) as [[g1 out1]|] eqn:Ef; [|discriminate].
    injection Hg as <- <- <- <-. cbn [poll_f1v fst snd].
    destruct st as [tmo ps]. cbn [p_timeout p_state] in *. subst tmo.
    destruct (gsim_feed g timeout ps c a x now g1 out1 Hs Hx Ef) as (T1 & T2 & T3).
    split; [reflexivity|]. split.
    + apply GInv_upd; assumption.
    + unfold call_ok, agrees in *. cbn [fst snd]. destruct g; cbn [is_g0] in *; exact T3.
  - apply N.ltb_lt in Ho. destruct (H c Ho) as (g & st & E1 & E2 & Hs & Ht). rewrite E1 in Hg. rewrite E2.
    destruct (g_poll timeout g c now) as [[g1 o1]|] eqn:Ep; [|discriminate].
    injection Hg as <- <- <- <-. unfold poll_p1. cbn [fst snd].
    destruct st as [tmo ps]. cbn [p_timeout p_state] in *. subst tmo.
    destruct (gsim_poll g timeout ps c now g1 o1 Hs Ep) as (T1 & T2 & T3).
    split; [reflexivity|]. split.
    + apply GInv_upd; assumption.
    + unfold call_ok, agrees in *. cbn [fst snd]. destruct g; cbn [is_g0] in *; exact T3.
  - discriminate.
  - inversion Hg; subst. cbn [fst snd]. repeat split; try assumption; reflexivity.
Qed.

Lemma grun_sim timeout h : forall now gs s exp,
  GInv timeout gs s -> Forall (fun o => sop_ok o = true) h ->
  g_run timeout now gs h = Some exp ->
  Forall2 call_ok exp (snd (poll_grun now s h)).
Proof.
  induction h as [|o h IH]; intros now gs s exp Hinv Hh Hg.
  - cbn in Hg. inversion Hg. constructor.
  - inversion Hh as [|? ? Ho Hh']; subst. cbn [g_run] in Hg.
    destruct (g_step timeout now gs o) as [[[[now' gs'] out] first]|] eqn:Es; [|discriminate].
    destruct (g_run timeout now' gs' h) as [r|] eqn:Er; [|discriminate].
    inversion Hg; subst. clear Hg.
    destruct (gstep_sim timeout now gs s o now' gs' out first Hinv Ho Es) as (T1 & T2 & T3).
    unfold poll_grun in *. cbn [grun]. fold poll_gstep.
    destruct (poll_gstep now s o) as [[now1 s1] out1] eqn:Eg. cbn [fst snd] in *. subst now1.
    specialize (IH now' gs' s1 r T2 Hh' Er).
    destruct (grun pollst out2 poll_f1v poll_p1 poll_reset1 (None, None) now' s1 h) as [[now2 s2] outs].
    cbn [snd] in *. constructor; assumption.
Qed.

(** timeouts and lengths are invariants of every operation (so every reachable scanner simulates
    the initial grammar state) *)
Lemma reachable_GInv timeout prior :
  Forall (fun o => sop_ok o = true) prior ->
  exists now s outs,
    poll_run 0 (poll_new_scanner timeout) prior = Ok (now, s, outs) /\
    GInv timeout gstates_init s.
Proof.
  intros Hp. rewrite (poll_run_bridge prior 0 (poll_new_scanner timeout) eq_refl Hp).
  assert (G : forall h now s, length s = 16%nat -> Forall (fun st => p_timeout st = timeout) s ->
              let r := poll_grun now s h in
              length (snd (fst r)) = 16%nat /\ Forall (fun st => p_timeout st = timeout) (snd (fst r))).
  { clear. induction h as [|o h IH]; intros now s Hl Ht; [cbn; auto|].
    unfold poll_grun. cbn [grun]. fold poll_gstep.
    pose proof (poll_gstep_length now s o) as Hl'.
    assert (Ht' : Forall (fun st => p_timeout st = timeout) (snd (fst (poll_gstep now s o)))).
    { destruct o as [b|c| |dt]; unfold poll_gstep; cbn [gstep].
      - destruct (channel_table (fst (fst b))) as [c|]; [|exact Ht].
        destruct (nth_error s (N.to_nat c)) as [st|] eqn:E; [|exact Ht]. cbn [fst snd].
        assert (Hst : p_timeout st = timeout)
          by (rewrite Forall_forall in Ht; apply Ht; eapply nth_error_In; exact E).
        assert (Hup : forall l i x, Forall (fun st0 : pollst => p_timeout st0 = timeout) l ->
                                    p_timeout x = timeout ->
                                    Forall (fun st0 : pollst => p_timeout st0 = timeout) (upd l i x)).
        { clear. induction l as [|h0 t0 IH0]; intros [|i] x Hl Hx; cbn [upd]; auto;
            inversion Hl; subst; constructor; auto. }
        apply Hup; [exact Ht|].
        destruct (as_cc b) as [[[ch n] v]|]; cbn [poll_f1v fst]; [|exact Hst].
        unfold poll_dispatch, one, poll_number_byte, poll_value_lsb, poll_value_msb, poll_value_inc_dec,
          expected_value_byte, with_state.
        repeat match goal with |- context [N.eqb n ?k] => destruct (N.eqb n k) end;
          destruct (p_state st) as [[x|] r b0|ns|ns arr v0 [|]|ns vm vl]; cbn;
          repeat match goal with |- context [if ?b then _ else _] => destruct b end; exact Hst.
      - destruct (nth_error s (N.to_nat c)) as [st|] eqn:E; [|exact Ht]. cbn [fst snd].
        assert (Hst : p_timeout st = timeout)
          by (rewrite Forall_forall in Ht; apply Ht; eapply nth_error_In; exact E).
        assert (Hup : forall l i x, Forall (fun st0 : pollst => p_timeout st0 = timeout) l ->
                                    p_timeout x = timeout ->
                                    Forall (fun st0 : pollst => p_timeout st0 = timeout) (upd l i x)).
        { clear. induction l as [|h0 t0 IH0]; intros [|i] x Hl Hx; cbn [upd]; auto;
            inversion Hl; subst; constructor; auto. }
        apply Hup; [exact Ht|]. unfold poll_p1, poll_poll1. cbn [fst].
        destruct (p_state st); try exact Hst. destruct (N.ltb _ _); exact Hst.
      - cbn [fst snd]. apply Forall_forall. intros x Hx. apply in_map_iff in Hx as (y & <- & Hy).
        rewrite Forall_forall in Ht. cbn. apply Ht. exact Hy.
      - exact Ht. }
    destruct (poll_gstep now s o) as [[now1 s1] out]. cbn [fst snd] in *.
    specialize (IH now1 s1 ltac:(congruence) Ht'). unfold poll_grun in IH.
    destruct (grun pollst out2 poll_f1v poll_p1 poll_reset1 (None, None) now1 s1 h) as [[now2 s2] outs].
    exact IH. }
  assert (Ht0 : Forall (fun st => p_timeout st = timeout) (poll_new_scanner timeout)).
  { unfold poll_new_scanner, replicate. apply Forall_forall. intros x Hx.
    apply repeat_spec in Hx. subst. reflexivity. }
  specialize (G prior 0 (poll_new_scanner timeout) eq_refl Ht0). cbv zeta in G.
  destruct (poll_grun 0 (poll_new_scanner timeout) prior) as [[now s] outs]. cbn [fst snd] in G.
  exists now, s, outs. split; [reflexivity|]. apply GInv_start; tauto.
Qed.

(** C12: whatever the scanner was fed before, on every stream of documented forms -- with polls,
    time steps and non-contributing messages anywhere, on any interleaving of the 16 channels --
    every call reports exactly what the grammar prescribes; only up to a channel's first number
    byte a value pending from the earlier traffic may additionally be flushed *)
Theorem documented_forms_decoded timeout prior sentence exp :
  Forall (fun o => sop_ok o = true) prior -> Forall (fun o => sop_ok o = true) sentence ->
  exists now s outs0,
    poll_run 0 (poll_new_scanner timeout) prior = Ok (now, s, outs0) /\
    (g_run timeout now gstates_init sentence = Some exp ->
     exists now' s' outs,
       poll_run now s sentence = Ok (now', s', outs) /\ Forall2 call_ok exp outs).
Proof.
  intros Hp Hs. destruct (reachable_GInv timeout prior Hp) as (now & s & outs0 & Hr & Hinv).
  exists now, s, outs0. split; [exact Hr|]. intros Hg.
  pose proof Hinv as (_ & Hl & _).
  rewrite (poll_run_bridge sentence now s Hl Hs).
  pose proof (grun_sim timeout sentence now gstates_init s exp Hinv Hs Hg) as H.
  destruct (poll_grun now s sentence) as [[now' s'] outs]. cbn [snd] in H.
  exists now', s', outs. split; [reflexivity|exact H].
Qed.

(** * the consequence named in the property: encode any message (either byte order), feed it,
    poll after the timeout -- at the grammar level, one channel *)
Fixpoint g_feeds (g : gstate) (c t : N) (l : list (N * N)) : option (gstate * list out2) :=
  match l with
  | [] => Some (g, [])
  | (n, v) :: l' =>
      match g_feed g c n v t with
      | Some (g', o) =>
          match g_feeds g' c t l' with
          | Some (g'', os) => Some (g'', o :: os)
          | None => None
          end
      | None => None
      end
  end.

Definition reports (os : list out2) : list pnmsg :=
  flat_map (fun o => (match fst o with Some m => [m] | None => [] end) ++
                     (match snd o with Some m => [m] | None => [] end)) os.

Definition sel_msb (reg : bool) : N := if reg then 101 else 99.
Definition sel_lsb (reg : bool) : N := if reg then 100 else 98.

(** 7-bit data entry: reported by the first poll after the timeout, exactly once *)
Lemma encode_feed_poll_7bit c hi lo reg v t timeout :
  exists g os g' o,
    g_feeds G0 c t [(sel_msb reg, hi); (sel_lsb reg, lo); (6, v)] = Some (g, os) /\
    g_poll timeout g c (t + timeout) = Some (g', o) /\
    reports os ++ (match o with Some m => [m] | None => [] end) = [m7 c hi lo reg v DataEntry] /\
    g_poll timeout g' c (t + timeout) = Some (g', None).
Proof.
  destruct reg; cbn [sel_msb sel_lsb];
    (eexists; eexists; eexists; eexists; split; [reflexivity|]);
    cbn [g_poll]; replace (t + timeout - t) with timeout by lia; rewrite N.leb_refl;
    (split; [reflexivity|split; reflexivity]).
Qed.

(** 14-bit data entry, MSB first and LSB first: reported at its second byte; nothing more at the poll *)
Lemma encode_feed_poll_14bit c hi lo reg vm vl t timeout (msb_first : bool) :
  exists g os,
    g_feeds G0 c t ([(sel_msb reg, hi); (sel_lsb reg, lo)] ++
                    (if msb_first then [(6, vm); (38, vl)] else [(38, vl); (6, vm)])) = Some (g, os) /\
    reports os = [m14 c hi lo reg vm vl] /\
    g_poll timeout g c (t + timeout) = Some (g, None).
Proof.
  destruct reg, msb_first; cbn [sel_msb sel_lsb app];
    (eexists; eexists; split; [reflexivity|split; reflexivity]).
Qed.

(** increment / decrement: reported immediately *)
Lemma encode_feed_poll_incdec c hi lo reg v t timeout (inc : bool) :
  exists g os,
    g_feeds G0 c t [(sel_msb reg, hi); (sel_lsb reg, lo); (if inc then 96 else 97, v)] = Some (g, os) /\
    reports os = [m7 c hi lo reg v (if inc then DataIncrement else DataDecrement)] /\
    g_poll timeout g c (t + timeout) = Some (g, None).
Proof.
  destruct reg, inc; cbn [sel_msb sel_lsb];
    (eexists; eexists; split; [reflexivity|split; reflexivity]).
Qed.
