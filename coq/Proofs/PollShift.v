(** The origin of the clock is irrelevant to the polling scanner: running any history of feeds,
    polls, resets and time steps from instant [now + d], in a state whose stored arrival time is
    moved by [d] as well, reports exactly what the run from [now] reports and ends in the moved
    state.  (The harness drives the scanner with a mock clock that starts at an arbitrary origin;
    `Instant` itself has no observable origin.  This is the model-side justification.) *)
From Verif Require Import Base.Prelude Model.ShortMsg Model.PerChannel Model.CC14 Model.Nrpn
  Model.Polling Proofs.PerChannelProofs Proofs.PollingProofs.

Definition shift_state (d : N) (s : pstate) : pstate :=
  match s with
  | PPending ns arrival first fmsb => PPending ns (arrival + d) first fmsb
  | _ => s
  end.
Definition shift (d : N) (st : pollst) : pollst := mkPoll (p_timeout st) (shift_state d (p_state st)).

Lemma shift_with_state d st s : shift d (with_state st s) = with_state (shift d st) (shift_state d s).
Proof. reflexivity. Qed.

Lemma shift_number_byte d st byte r m ch :
  poll_number_byte (shift d st) byte r m ch =
  (shift d (fst (poll_number_byte st byte r m ch)), snd (poll_number_byte st byte r m ch)).
Proof.
  unfold poll_number_byte. destruct st as [t s]. destruct s as [f sr sm|ns|ns a fv fm|ns vm vl];
    cbn [shift shift_state p_state p_timeout].
  - destruct f as [sb|]; [destruct (Bool.eqb sm m)|]; reflexivity.
  - reflexivity.
  - reflexivity.
  - reflexivity.
Qed.

Lemma shift_value_lsb d now st ch v :
  poll_value_lsb (now + d) (shift d st) ch v =
  (shift d (fst (poll_value_lsb now st ch v)), snd (poll_value_lsb now st ch v)).
Proof.
  unfold poll_value_lsb, expected_value_byte. destruct st as [t s].
  destruct s as [f sr sm|ns|ns a fv fm|ns vm vl]; cbn [shift shift_state p_state p_timeout];
    try reflexivity.
  destruct fm; reflexivity.
Qed.

Lemma shift_value_msb d now st ch v :
  poll_value_msb (now + d) (shift d st) ch v =
  (shift d (fst (poll_value_msb now st ch v)), snd (poll_value_msb now st ch v)).
Proof.
  unfold poll_value_msb, expected_value_byte. destruct st as [t s].
  destruct s as [f sr sm|ns|ns a fv fm|ns vm vl]; cbn [shift shift_state p_state p_timeout];
    try reflexivity.
  destruct fm; reflexivity.
Qed.

Lemma shift_inc_dec d st ch dt v :
  poll_value_inc_dec (shift d st) ch dt v =
  (shift d (fst (poll_value_inc_dec st ch dt v)), snd (poll_value_inc_dec st ch dt v)).
Proof.
  unfold poll_value_inc_dec. destruct st as [t s].
  destruct s as [f sr sm|ns|ns a fv fm|ns vm vl]; cbn [shift shift_state p_state p_timeout];
    try reflexivity.
  destruct fm; reflexivity.
Qed.

Lemma shift_dispatch d now st ch cn v :
  poll_dispatch (now + d) (shift d st) ch cn v =
  (shift d (fst (poll_dispatch now st ch cn v)), snd (poll_dispatch now st ch cn v)).
Proof.
  unfold poll_dispatch, one.
  repeat match goal with |- context [if ?b then _ else _] => destruct b end;
    rewrite ?shift_number_byte, ?shift_value_lsb, ?shift_value_msb, ?shift_inc_dec; reflexivity.
Qed.

Lemma shift_f1v d now st o :
  poll_f1v (now + d) (shift d st) o =
  (shift d (fst (poll_f1v now st o)), snd (poll_f1v now st o)).
Proof. destruct o as [[[ch cn] v]|]; [apply shift_dispatch|reflexivity]. Qed.

Lemma shift_poll1 d now st c :
  poll_poll1 (now + d) (shift d st) c =
  (shift d (fst (poll_poll1 now st c)), snd (poll_poll1 now st c)).
Proof.
  unfold poll_poll1. destruct st as [t s].
  destruct s as [f sr sm|ns|ns a fv fm|ns vm vl]; cbn [shift shift_state p_state p_timeout];
    try reflexivity.
  replace (now + d - (a + d)) with (now - a) by lia.
  destruct (N.ltb (now - a) t); reflexivity.
Qed.

Lemma shift_p1 d now st c :
  poll_p1 (now + d) (shift d st) c =
  (shift d (fst (poll_p1 now st c)), snd (poll_p1 now st c)).
Proof. unfold poll_p1. rewrite shift_poll1. reflexivity. Qed.

Notation prun1 := (run1 pollst out2 poll_f1v poll_p1 poll_reset1 (None, None)).

Theorem clock_origin_irrelevant d c h : forall now st,
  prun1 c (now + d) (shift d st) h =
  (let '(now', st', outs) := prun1 c now st h in (now' + d, shift d st', outs)).
Proof.
  induction h as [|o h IH]; intros now st; [reflexivity|].
  cbn [run1]. destruct o as [b|c'| |dt]; cbn [step1].
  - rewrite shift_f1v. cbn [fst snd]. rewrite IH.
    destruct (prun1 c now (fst (poll_f1v now st _)) h) as [[n2 s2] outs]. reflexivity.
  - rewrite shift_p1. cbn [fst snd]. rewrite IH.
    destruct (prun1 c now (fst (poll_p1 now st c)) h) as [[n2 s2] outs]. reflexivity.
  - change (poll_reset1 (shift d st)) with (shift d (poll_reset1 st)). rewrite IH.
    destruct (prun1 c now (poll_reset1 st) h) as [[n2 s2] outs]. reflexivity.
  - replace (now + d + dt) with (now + dt + d) by lia. rewrite IH.
    destruct (prun1 c (now + dt) st h) as [[n2 s2] outs]. reflexivity.
Qed.

(** a new scanner stores no instant: its reports do not depend on when it is started *)
Corollary new_scanner_any_start d c t h now :
  snd (prun1 c (now + d) (pollst_new t) h) = snd (prun1 c now (pollst_new t) h).
Proof.
  change (pollst_new t) with (shift d (pollst_new t)) at 1. rewrite clock_origin_irrelevant.
  destruct (prun1 c now (pollst_new t) h) as [[n2 s2] outs]. reflexivity.
Qed.

(** once due, always due: a value that a poll at [now] reports (or an unpaired LSB it drops) is
    reported (dropped) in exactly the same way by a poll at any later instant instead *)
Lemma poll_due_monotone now now' st c :
  now <= now' -> fst (poll_poll1 now st c) <> st \/ snd (poll_poll1 now st c) <> None ->
  poll_poll1 now' st c = poll_poll1 now st c.
Proof.
  intros Hle. unfold poll_poll1. destruct (p_state st) as [f sr sm|ns|ns a fv fm|ns vm vl];
    try (cbn [fst snd]; intros [H|H]; congruence).
  destruct (N.ltb_spec (now - a) (p_timeout st)) as [Hlt|Hge].
  - cbn [fst snd]. intros [H|H]; congruence.
  - intros _. destruct (N.ltb_spec (now' - a) (p_timeout st)) as [Hlt'|Hge']; [lia|reflexivity].
Qed.

(** and a poll that is too early at [now'] is too early at every earlier instant *)
Lemma poll_early_monotone now now' st c ns a fv fm :
  p_state st = PPending ns a fv fm -> now <= now' -> now' - a < p_timeout st ->
  poll_poll1 now st c = (st, None).
Proof.
  intros Hs Hle Hlt. unfold poll_poll1. rewrite Hs.
  destruct (N.ltb_spec (now - a) (p_timeout st)) as [H|H]; [reflexivity|lia].
Qed.
