(** The origin of the clock is irrelevant to the polling scanner: running any history of feeds,
    polls, resets and time steps from instant [now + d], in a state whose stored arrival time is
    moved by [d] as well, reports exactly what the run from [now] reports and ends in the moved
    state.  (The harness drives the scanner with a mock clock that starts at an arbitrary origin;
    `Instant` itself has no observable origin.  This is the model-side justification.) *)
From Verif Require Import Base.Prelude Model.ShortMsg Model.PerChannel Model.CC14 Model.Nrpn
  Model.Polling Proofs.PerChannelProofs Proofs.PollingProofs.

Definition shift_state (d : N) (s : pstate) : pstate :=
  match s with
  | PPending ns arrival first fmsb => PPending ns (arrival + d) first fmsb
  | _ => s
  end.
Definition shift (d : N) (st : pollst) : pollst := mkPoll (p_timeout st) (shift_state d (p_state st)).

Lemma shift_with_state d st s : shift d (with_state st s) = with_state (shift d st) (shift_state d s).
Proof. reflexivity. Qed.

Lemma shift_number_byte d st byte r m ch :
  poll_number_byte (shift d st) byte r m ch =
  (shift d (fst (poll_number_byte st byte r m ch)), snd (poll_number_byte st byte r m ch)).
Proof.
  unfold poll_number_byte. destruct st as [t s]. destruct s as [f sr sm|ns|ns a fv fm|ns vm vl];
    cbn [shift shift_state p_state p_timeout].
  - destruct f as [sb|]; [destruct (Bool.eqb sm m)|]; reflexivity.
  - reflexivity.
  - reflexivity.
  - reflexivity.
Qed.

Lemma shift_value_lsb d now st ch v :
  poll_value_lsb (now + d) (shift d st) ch v =
  (shift d (fst (poll_value_lsb now st ch v)), snd (poll_value_lsb now st ch v)).
Proof.
  unfold poll_value_lsb, expected_value_byte. destruct st as [t s].
  destruct s as [f sr sm|ns|ns a fv fm|ns vm vl]; cbn [shift shift_state p_state p_timeout];
    try reflexivity.
  destruct fm; reflexivity.
Qed.

Lemma shift_value_msb d now st ch v :
  poll_value_msb (now + d) (shift d st) ch v =
  (shift d (fst (poll_value_msb now st ch v)), snd (poll_value_msb now st ch v)).
Proof.
  unfold poll_value_msb, expected_value_byte. destruct st as [t s].
  destruct s as [f sr sm|ns|ns a fv fm|ns vm vl]; cbn [shift shift_state p_state p_timeout];
    try reflexivity.
  destruct fm; reflexivity.
Qed.

Lemma shift_inc_dec d st ch dt v :
  poll_value_inc_dec (shift d st) ch dt v =
  (shift d (fst (poll_value_inc_dec st ch dt v)), snd (poll_value_inc_dec st ch dt v)).
Proof.
  unfold poll_value_inc_dec. destruct st as [t s].
  destruct s as [f sr sm|ns|ns a fv fm|ns vm vl]; cbn [shift shift_state p_state p_timeout];
    try reflexivity.
  destruct fm; reflexivity.
Qed.

Lemma shift_dispatch d now st ch cn v :
  poll_dispatch (now + d) (shift d st) ch cn v =
  (shift d (fst (poll_dispatch now st ch cn v)), snd (poll_dispatch now st ch cn v)).
Proof.
  unfold poll_dispatch, one.
  repeat match goal with |- context [if ?b then _ else _] => destruct b end;
    rewrite ?shift_number_byte, ?shift_value_lsb, ?shift_value_msb, ?shift_inc_dec; reflexivity.
Qed.

Lemma shift_f1v d now st o :
  poll_f1v (now + d) (shift d st) o =
  (shift d (fst (poll_f1v now st o)), snd (poll_f1v now st o)).
Proof. destruct o as [[[ch cn] v]|]; [apply shift_dispatch|reflexivity]. Qed.

Lemma shift_poll1 d now st c :
  poll_poll1 (now + d) (shift d st) c =
  (shift d (fst (poll_poll1 now st c)), snd (poll_poll1 now st c)).
Proof.
  unfold poll_poll1. destruct st as [t s].
  destruct s as [f sr sm|ns|ns a fv fm|ns vm vl]; cbn [shift shift_state p_state p_timeout];
    try reflexivity.
  replace (now + d - (a + d)) with (now - a) by lia.
  destruct (N.ltb (now - a) t); reflexivity.
Qed.

Lemma shift_p1 d now st c :
  poll_p1 (now + d) (shift d st) c =
  (shift d (fst (poll_p1 now st c)), snd (poll_p1 now st c)).
Proof. unfold poll_p1. rewrite shift_poll1. reflexivity. Qed.

Notation prun1 := (run1 pollst out2 poll_f1v poll_p1 poll_reset1 (None, None)).

Theorem clock_origin_irrelevant d c h : forall now st,
  prun1 c (now + d) (shift d st) h =
  (let '(now', st', outs) := prun1 c now st h in (now' + d, shift d st', outs)).
Proof.
  induction h as [|o h IH]; intros now st; [reflexivity|].
  cbn [run1]. destruct o as [b|c'| |dt]; cbn [step1].
  - rewrite shift_f1v. cbn [fst snd]. rewrite IH.
    destruct (prun1 c now (fst (poll_f1v now st _)) h) as [[n2 s2] outs]. reflexivity.
  - rewrite shift_p1. cbn [fst snd]. rewrite IH.
    destruct (prun1 c now (fst (poll_p1 now st c)) h) as [[n2 s2] outs]. reflexivity.
  - change (poll_reset1 (shift d st)) with (shift d (poll_reset1 st)). rewrite IH.
    destruct (prun1 c now (poll_reset1 st) h) as [[n2 s2] outs]. reflexivity.
  - replace (now + d + dt) with (now + dt + d) by lia. rewrite IH.
    destruct (prun1 c (now + dt) st h) as [[n2 s2] outs]. reflexivity.
Qed.

(** a new scanner stores no instant: its reports do not depend on when it is started *)
Corollary new_scanner_any_start d c t h now :
  snd (prun1 c (now + d) (pollst_new t) h) = snd (prun1 c now (pollst_new t) h).
Proof.
  change (pollst_new t) with (shift d (pollst_new t)) at 1. rewrite clock_origin_irrelevant.
  destruct (prun1 c now (pollst_new t) h) as [[n2 s2] outs]. reflexivity.
Qed.

(** once due, always due: a value that a poll at [now] reports (or an unpaired LSB it drops) is
    reported (dropped) in exactly the same way by a poll at any later instant instead *)
Lemma poll_due_monotone now now' st c :
  now <= now' -> fst (poll_poll1 now st c) <> st \/ snd (poll_poll1 now st c) <> None ->
  poll_poll1 now' st c = poll_poll1 now st c.
Proof.
  intros Hle. unfold poll_poll1. destruct (p_state st) as [f sr sm|ns|ns a fv fm|ns vm vl];
    try (cbn [fst snd]; intros [H|H]; congruence).
  destruct (N.ltb_spec (now - a) (p_timeout st)) as [Hlt|Hge].
  - cbn [fst snd]. intros [H|H]; congruence.
  - intros _. destruct (N.ltb_spec (now' - a) (p_timeout st)) as [Hlt'|Hge']; [lia|reflexivity].
Qed.

(** and a poll that is too early at [now'] is too early at every earlier instant *)
Lemma poll_early_monotone now now' st c ns a fv fm :
  p_state st = PPending ns a fv fm -> now <= now' -> now' - a < p_timeout st ->
  poll_poll1 now st c = (st, None).
Proof.
  intros Hs Hle Hlt. unfold poll_poll1. rewrite Hs.
  destruct (N.ltb_spec (now - a) (p_timeout st)) as [H|H]; [reflexivity|lia].
Qed.

(** * the 16-channel scanner of the model ([poll_run]: what the correspondence check runs) *)
Lemma map_upd {A B} (f : A -> B) l i x : map f (upd l i x) = upd (map f l) i (f x).
Proof.
  revert i; induction l as [|h t IH]; intros [|i]; cbn [upd map]; try reflexivity.
  rewrite IH. reflexivity.
Qed.

Lemma shift_feed1_core d now st m :
  poll_feed1_core (now + d) (shift d st) m =
  (shift d (fst (poll_feed1_core now st m)), snd (poll_feed1_core now st m)).
Proof. destruct m; try reflexivity. rewrite !poll_core_dispatch. apply shift_dispatch. Qed.

Definition shift_all (d : N) (s : poll_scanner) : poll_scanner := map (shift d) s.

Lemma nth_error_shift_all d s i :
  nth_error (shift_all d s) i = option_map (shift d) (nth_error s i).
Proof.
  unfold shift_all. revert i; induction s as [|h t IH]; intros [|i]; cbn [map nth_error option_map];
    try reflexivity. apply IH.
Qed.

Lemma shift_feed d now s b :
  poll_feed (now + d) (shift_all d s) b =
  omap (fun r => (shift_all d (fst r), snd r)) (poll_feed now s b).
Proof.
  unfold poll_feed, feed_multi, obind, omap.
  destruct (g_channel bytes raw_sb raw_d1 b) as [[c|]|]; try reflexivity.
  rewrite nth_error_shift_all.
  destruct (nth_error s (N.to_nat c)) as [st|]; cbn [option_map]; [|reflexivity].
  destruct (raw_ts b) as [m|]; [|reflexivity].
  unfold poll_feed1. rewrite shift_feed1_core. cbn [fst snd]. unfold shift_all. rewrite map_upd.
  reflexivity.
Qed.

Lemma shift_poll d now s c :
  poll_poll (now + d) (shift_all d s) c =
  omap (fun r => (shift_all d (fst r), snd r)) (poll_poll now s c).
Proof.
  unfold poll_poll, omap. rewrite nth_error_shift_all.
  destruct (nth_error s (N.to_nat c)) as [st|]; cbn [option_map]; [|reflexivity].
  rewrite shift_poll1. cbn [fst snd]. unfold shift_all. rewrite map_upd. reflexivity.
Qed.

Lemma shift_reset d s : poll_reset (shift_all d s) = shift_all d (poll_reset s).
Proof.
  unfold poll_reset, reset_multi, shift_all. rewrite !map_map. apply map_ext. intros st. reflexivity.
Qed.

Theorem clock_origin_irrelevant_16 d h : forall now s,
  poll_run (now + d) (shift_all d s) h =
  omap (fun r => let '(now', s', outs) := r in (now' + d, shift_all d s', outs)) (poll_run now s h).
Proof.
  induction h as [|o h IH]; intros now s; [reflexivity|].
  cbn [poll_run]. destruct o as [b|c| |dt]; cbn [poll_step].
  - rewrite shift_feed. destruct (poll_feed now s b) as [[s1 o1]|]; cbn [omap obind fst snd]; [|reflexivity].
    rewrite IH. destruct (poll_run now s1 h) as [[[n2 s2] outs]|]; reflexivity.
  - rewrite shift_poll. destruct (poll_poll now s c) as [[s1 o1]|]; cbn [omap obind fst snd]; [|reflexivity].
    rewrite IH. destruct (poll_run now s1 h) as [[[n2 s2] outs]|]; reflexivity.
  - cbn [obind]. rewrite shift_reset, IH.
    destruct (poll_run now (poll_reset s) h) as [[[n2 s2] outs]|]; reflexivity.
  - cbn [obind]. replace (now + d + dt) with (now + dt + d) by lia. rewrite IH.
    destruct (poll_run (now + dt) s h) as [[[n2 s2] outs]|]; reflexivity.
Qed.

(** a new 16-channel scanner stores no instant: what it reports does not depend on its start *)
Corollary new_scanner_any_start_16 d t h now :
  omap snd (poll_run (now + d) (poll_new_scanner t) h) = omap snd (poll_run now (poll_new_scanner t) h).
Proof.
  change (poll_new_scanner t) with (shift_all d (poll_new_scanner t)) at 1.
  rewrite clock_origin_irrelevant_16.
  destruct (poll_run now (poll_new_scanner t) h) as [[[n2 s2] outs]|]; reflexivity.
Qed.

(** reset leaves no stored instant behind: after a reset -- at whatever instant it happens -- the
    reports of any continuation do not depend on the clock's reading, only on the time steps *)
Lemma shift_reset_fixed d s : shift_all d (poll_reset s) = poll_reset s.
Proof.
  unfold poll_reset, reset_multi, shift_all. rewrite map_map. apply map_ext. intros st. reflexivity.
Qed.

Corollary reset_scanner_any_start d s h now :
  omap snd (poll_run (now + d) (poll_reset s) h) = omap snd (poll_run now (poll_reset s) h).
Proof.
  rewrite <- (shift_reset_fixed d s) at 1. rewrite clock_origin_irrelevant_16.
  destruct (poll_run now (poll_reset s) h) as [[[n2 s2] outs]|]; reflexivity.
Qed.
