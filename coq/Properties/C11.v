(** C11 — the (N)RPN scanner reports exactly the justified messages.
    Only the property theorems; each closed by [exact <lemma>]. *)
From Verif Require Import Base.Prelude Model.ShortMsg Model.CC14 Model.Nrpn Spec.MidiTable
  Spec.NrpnSpec Proofs.NrpnProofs Proofs.RepeatStable.

(** for every finite history of valid feeds and resets (any length), the scanner never panics and
    its outputs are, operation by operation, those of the history-level specification *)
Theorem C11_scanner_exact : forall h,
  Forall (fun o => pnop_valid o = true) h ->
  exists s', pn_run pn_new_scanner h = Ok (s', pn_spec_outs h).
Proof. exact pn_exact. Qed.

(** the specification of one step, spelled out *)
Theorem C11_spec_reads : forall hr b,
  pn_spec_out hr (NFeed b) =
  match as_cc b with
  | Some (c, n, v) =>
      if N.eqb n 6 || N.eqb n 96 || N.eqb n 97 then
        match latest_number_msb c hr, latest_number_lsb c hr with
        | Some m, Some l =>
            let number := 128 * m + l in
            let reg := latest_registered c hr in
            if N.eqb n 96 then Some (mkPN c number v reg false DataIncrement)
            else if N.eqb n 97 then Some (mkPN c number v reg false DataDecrement)
            else
              match v38_after_number c hr with
              | Some l38 => Some (mkPN c number (128 * v + l38) reg true DataEntry)
              | None => Some (mkPN c number v reg false DataEntry)
              end
        | _, _ => None
        end
      else None
  | None => None
  end.
Proof. reflexivity. Qed.

(** non-vacuity / reading aid: a mixed history *)
Theorem C11_example :
  pn_spec_outs [NFeed (177, 99, 3); NFeed (177, 6, 9); NFeed (177, 98, 37); NFeed (177, 38, 5);
                NFeed (177, 6, 9); NFeed (177, 96, 1); NFeed (177, 101, 0); NFeed (177, 6, 7);
                NReset; NFeed (177, 6, 7)]
  = [None; None; None; None; Some (mkPN 1 421 1157 false true DataEntry);
     Some (mkPN 1 421 1 false false DataIncrement); None;
     Some (mkPN 1 37 7 true false DataEntry); None; None].
Proof. vm_compute. reflexivity. Qed.

(** feeding one message again and again: after its first application the scanner is at a fixed
    point of that message -- every further application returns the same state and the same
    output, however often it is repeated (what "the previous operation again n times" of the
    correspondence records relies on) *)
Theorem C11_repeated_feed_is_stable : forall s b s1 o1 s2 o2,
  pn_feed s b = Ok (s1, o1) -> pn_feed s1 b = Ok (s2, o2) -> pn_feed s2 b = Ok (s2, o2).
Proof. exact pn_feed_repeats. Qed.

Print Assumptions C11_scanner_exact.
Print Assumptions C11_repeated_feed_is_stable.
Print Assumptions C11_spec_reads.
Print Assumptions C11_example.
