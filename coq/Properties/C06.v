(** C06 — factory constructors build exactly the message they describe.
    Only property theorems, each closed by [exact <lemma>].  Accessors returning the arguments
    follows from the byte layout and C02. *)
From Verif Require Import Base.Prelude Model.ShortMsg Model.Factory Spec.Canon
  Proofs.FactoryProofs.
Open Scope N_scope.

Theorem C06_named_constructors_layout : forall idx x y z,
  idx <= 18 -> idx <> 8 -> ctor_args_ok idx x y z = true ->
  ctor_bytes idx x y z = ctor_layout idx x y z.
Proof. exact ctor_bytes_layout. Qed.

Theorem C06_quarter_frame_constructor : forall M (fbu : bytes -> outcome M) a,
  a < 128 -> ctor_tcqf fbu a = fbu (ctor_layout 8 a 0 0).
Proof. exact ctor_tcqf_layout. Qed.

(** the generic constructors panic exactly when the type is not of the category, and otherwise
    place type, channel and data bytes unchanged *)
Theorem C06_channel_message : forall M (fbu : bytes -> outcome M) t ch a c,
  channel_message fbu t ch a c =
  if N.ltb (smt_code t) 240 then fbu (build_status_byte (smt_code t) ch, a, c) else Panic.
Proof. exact channel_message_spec. Qed.

Theorem C06_system_common_message : forall M (fbu : bytes -> outcome M) t a c,
  system_common_message fbu t a c =
  if N.leb 241 (smt_code t) && N.leb (smt_code t) 247 then fbu (smt_code t, a, c) else Panic.
Proof. exact system_common_message_spec. Qed.

Theorem C06_system_real_time_message : forall M (fbu : bytes -> outcome M) t,
  system_real_time_message fbu t =
  if N.leb 248 (smt_code t) then fbu (smt_code t, 0, 0) else Panic.
Proof. exact system_real_time_message_spec. Qed.

(** test_util shorthands: panic exactly for out-of-range arguments *)
Theorem C06_test_util_shorthands : forall idx x y z,
  idx <= 18 -> idx <> 8 ->
  tu_ctor idx x y z =
  if ctor_args_ok idx x y z
  then Ok (ctor_layout idx (if Nat.leb 1 (ctor_arity idx) then x else 0)
                           (if Nat.leb 2 (ctor_arity idx) then y else 0)
                           (if Nat.leb 3 (ctor_arity idx) then z else 0))
  else Panic.
Proof. exact tu_ctor_spec. Qed.

Theorem C06_test_util_short : forall s a c,
  s < 256 ->
  tu_short s a c = if N.leb 128 s && N.leb a 127 && N.leb c 127 then Ok (s, a, c) else Panic.
Proof. exact tu_short_spec. Qed.

Print Assumptions C06_named_constructors_layout.
Print Assumptions C06_quarter_frame_constructor.
Print Assumptions C06_channel_message.
Print Assumptions C06_system_common_message.
Print Assumptions C06_system_real_time_message.
Print Assumptions C06_test_util_shorthands.
Print Assumptions C06_test_util_short.
