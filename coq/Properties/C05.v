(** C05 — integer conversions, parsing, ordering and formatting are numerically faithful.
    Only property theorems; instances from the regenerated tables. *)
From Coq Require Import String.
From Verif Require Import Base.Prelude Base.Cfg Model.Newtypes Generated.NewtypeTables
  Proofs.NewtypeProofs.
Open Scope Z_scope.
Open Scope string_scope.

(** every conversion into a restricted type accepts exactly the in-range values and preserves the
    value; every conversion out of one yields the same mathematical value (the [as] cast never
    wraps) -- for every table entry and every source value *)
Theorem C05_conversions_value_faithful : forall k src dst x,
  In (k, src, dst) conv_table -> in_rng (type_range newtype_defs src) x = true ->
  exists dlo dhi, type_range newtype_defs dst = Some (dlo, dhi) /\
    conv_apply newtype_defs (k, src, dst) x =
      Some (if is_try k && negb (Z.leb 0 x && Z.leb x dhi) then None else Some x) /\
    (is_try k && negb (Z.leb 0 x && Z.leb x dhi) = false -> dlo <= x <= dhi).
Proof.
  intros k src dst x Hin Hx. apply conv_sound; [|exact Hx].
  assert (H : forallb (entry_ok newtype_defs) conv_table = true) by (vm_compute; reflexivity).
  rewrite forallb_forall in H. exact (H _ Hin).
Qed.

(** parsing accepts exactly the unsigned decimal numerals (digits only, optionally preceded by
    '+') whose value is in range *)
Theorem C05_parse_exactly_numerals : forall pmax max s,
  Z.of_N max <= pmax ->
  nt_from_str pmax max s =
  match numeral_value s with
  | Some v => if Z.leb v (Z.of_N max) then Some (Z.to_N v) else None
  | None => None
  end.
Proof. exact from_str_spec. Qed.

(** Display prints the decimal value, and printing then parsing is the identity *)
Theorem C05_display_decimal : forall v, (v < 65536)%N ->
  numeral_value (show v) = Some (Z.of_N v) /\
  (length (show v) = 1%nat \/ hd 0%N (show v) <> 48%N).
Proof. exact show_decimal. Qed.

Theorem C05_print_then_parse : forall pmax max v,
  Z.of_N max <= pmax -> (v <= max)%N -> (v < 65536)%N ->
  nt_from_str pmax max (show v) = Some v.
Proof.
  intros pmax max v Hm Hv Hb. rewrite from_str_spec by exact Hm.
  destruct (show_decimal v Hb) as [-> _].
  destruct (Z.leb_spec (Z.of_N v) (Z.of_N max)); [|lia]. rewrite N2Z.id. reflexivity.
Qed.

(** equality, ordering, MIN, MAX and Default: in the model a restricted integer *is* its number,
    so these are identities of [N]; the derives of the Rust type are modelled, not verified, and
    are compared with the numeric relations by the correspondence check (tags 43, 52). *)
Theorem C05_order_is_numeric : forall a b : N,
  (N.ltb a b = true <-> (a < b)%N) /\ (N.eqb a b = true <-> a = b).
Proof. intros a b. split; [apply N.ltb_lt|apply N.eqb_eq]. Qed.

Print Assumptions C05_conversions_value_faithful.
Print Assumptions C05_parse_exactly_numerals.
Print Assumptions C05_display_decimal.
Print Assumptions C05_print_then_parse.
Print Assumptions C05_order_is_numeric.
