(** C17 — reset() is equivalent to starting over.  Only property theorems, closed by
    [exact <lemma>].  Equality of states is Leibniz equality, so every subsequent input sequence
    is treated identically by the reset scanner and a new one. *)
From Verif Require Import Base.Prelude Model.ShortMsg Model.PerChannel Model.CC14 Model.Nrpn
  Model.Polling Proofs.PollingProofs Proofs.ScannerProofs Proofs.RepeatStable Proofs.PollShift.

Theorem C17_cc14_reset_is_new : forall s, length s = 16%nat -> cc14_reset s = cc14_new_scanner.
Proof. exact cc14_reset_is_new. Qed.

Theorem C17_nrpn_reset_is_new : forall s, length s = 16%nat -> pn_reset s = pn_new_scanner.
Proof. exact pn_reset_is_new. Qed.

Theorem C17_polling_reset_is_new : forall s timeout,
  length s = 16%nat -> Forall (fun st => p_timeout st = timeout) s ->
  poll_reset s = poll_new_scanner timeout.
Proof. exact poll_reset_is_new. Qed.

(** the premises hold in every reachable state: after any history, reset gives the new scanner
    with the same timeout *)
Theorem C17_polling_reset_after_any_history : forall timeout h,
  Forall (fun o => sop_ok o = true) h ->
  exists now' s' outs,
    poll_run 0 (poll_new_scanner timeout) h = Ok (now', s', outs) /\
    poll_reset s' = poll_new_scanner timeout.
Proof. exact poll_reset_after_any_history. Qed.

(** any number of resets in a row is one reset (the correspondence records carry a repeat count
    for reset operations, up to 65 537 and 2^32 in the thorough tier; the model resets once) *)
Theorem C17_resets_in_a_row_are_one_reset : forall n,
  (forall s, iter_reset cc14_reset (S n) s = cc14_reset s) /\
  (forall s, iter_reset pn_reset (S n) s = pn_reset s) /\
  (forall s, iter_reset poll_reset (S n) s = poll_reset s).
Proof.
  intros n. split; [|split]; intros s.
  - exact (cc14_resets_are_one_reset n s).
  - exact (pn_resets_are_one_reset n s).
  - exact (poll_resets_are_one_reset n s).
Qed.

(** reset leaves no stored instant behind: after a reset of the polling scanner, whatever it was
    fed before and whenever the reset happens, what any continuation (feeds, polls, resets, time
    steps) reports depends on the time steps only, not on the clock's reading -- as for a new one *)
Theorem C17_polling_reset_forgets_the_clock : forall d s h now,
  omap snd (poll_run (now + d) (poll_reset s) h) = omap snd (poll_run now (poll_reset s) h).
Proof. exact reset_scanner_any_start. Qed.

Print Assumptions C17_cc14_reset_is_new.
Print Assumptions C17_polling_reset_forgets_the_clock.
Print Assumptions C17_resets_in_a_row_are_one_reset.
Print Assumptions C17_nrpn_reset_is_new.
Print Assumptions C17_polling_reset_is_new.
Print Assumptions C17_polling_reset_after_any_history.
