(** C09 — (N)RPN messages encode to the well-formed Control Change sequence.
    Only the property theorems; each closed by [exact <lemma>]. *)
From Verif Require Import Base.Prelude Model.ShortMsg Model.CC14 Model.Nrpn Spec.NrpnSpec
  Proofs.NrpnEncodeProofs.

(** the eight constructors report back exactly what they were given *)
Theorem C09_constructors_getters : forall ch n v,
  (let m := non_registered_7_bit ch n v in
   pn_channel m = ch /\ pn_number m = n /\ pn_value m = v /\ pn_is_registered m = false /\
   pn_is_14_bit m = false /\ pn_data_type m = DataEntry) /\
  (let m := non_registered_14_bit ch n v in
   pn_channel m = ch /\ pn_number m = n /\ pn_value m = v /\ pn_is_registered m = false /\
   pn_is_14_bit m = true /\ pn_data_type m = DataEntry) /\
  (let m := non_registered_decrement ch n v in
   pn_channel m = ch /\ pn_number m = n /\ pn_value m = v /\ pn_is_registered m = false /\
   pn_is_14_bit m = false /\ pn_data_type m = DataDecrement) /\
  (let m := non_registered_increment ch n v in
   pn_channel m = ch /\ pn_number m = n /\ pn_value m = v /\ pn_is_registered m = false /\
   pn_is_14_bit m = false /\ pn_data_type m = DataIncrement) /\
  (let m := registered_7_bit ch n v in
   pn_channel m = ch /\ pn_number m = n /\ pn_value m = v /\ pn_is_registered m = true /\
   pn_is_14_bit m = false /\ pn_data_type m = DataEntry) /\
  (let m := registered_14_bit ch n v in
   pn_channel m = ch /\ pn_number m = n /\ pn_value m = v /\ pn_is_registered m = true /\
   pn_is_14_bit m = true /\ pn_data_type m = DataEntry) /\
  (let m := registered_decrement ch n v in
   pn_channel m = ch /\ pn_number m = n /\ pn_value m = v /\ pn_is_registered m = true /\
   pn_is_14_bit m = false /\ pn_data_type m = DataDecrement) /\
  (let m := registered_increment ch n v in
   pn_channel m = ch /\ pn_number m = n /\ pn_value m = v /\ pn_is_registered m = true /\
   pn_is_14_bit m = false /\ pn_data_type m = DataIncrement).
Proof. exact pn_ctor_getters. Qed.

(** 7-bit values are at most 127; 14-bit implies data entry *)
Theorem C09_constructed_messages_consistent : forall ch n v7 v14,
  ch < 16 -> n < 16384 -> v7 < 128 -> v14 < 16384 ->
  forallb pnmsg_wf
    [non_registered_7_bit ch n v7; non_registered_14_bit ch n v14;
     non_registered_decrement ch n v7; non_registered_increment ch n v7;
     registered_7_bit ch n v7; registered_14_bit ch n v14;
     registered_decrement ch n v7; registered_increment ch n v7] = true.
Proof. exact pn_ctor_wf. Qed.

(** the encoding (with the code's slot bookkeeping, which could panic) is exactly the slot table
    [pn_encode_spec], for every well-formed message and both byte orders *)
Theorem C09_encoding_is_slot_table : forall m order,
  pnmsg_wf m = true ->
  pn_to_short_message_bytes m order
  = Ok (pn_encode_spec m (match order with MsbFirst => true | LsbFirst => false end)).
Proof. exact pn_encode_is_spec. Qed.

(** ... for both factory implementations *)
Theorem C09_encoding_structured : forall m order,
  pnmsg_wf m = true ->
  omap (map (option_map struct_tb)) (pn_to_short_messages struct_fbu m order)
  = Ok (pn_encode_spec m (match order with MsbFirst => true | LsbFirst => false end)).
Proof. exact pn_encode_struct. Qed.

(** exactly the 14-bit messages fill all four slots; the first three are always filled *)
Theorem C09_fourth_slot_iff_14_bit : forall m order l,
  pnmsg_wf m = true -> pn_to_short_message_bytes m order = Ok l ->
  length l = 4%nat /\
  (nth_error l 3 <> Some None <-> pn_is_14_bit m = true) /\
  (forall i, (i < 3)%nat -> nth_error l i <> Some None).
Proof. exact pn_four_slots_iff_14_bit. Qed.

Print Assumptions C09_constructors_getters.
Print Assumptions C09_constructed_messages_consistent.
Print Assumptions C09_encoding_is_slot_table.
Print Assumptions C09_encoding_structured.
Print Assumptions C09_fourth_slot_iff_14_bit.
