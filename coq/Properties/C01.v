(** C01 — short messages preserve their bytes: lossless, canonical round trips.
    Only property theorems, each closed by [exact <lemma>]. *)
From Verif Require Import Base.Prelude Base.Enc Model.ShortMsg Spec.MidiTable Spec.Canon
  Spec.ShortMsgObs Proofs.ShortMsgProofs.
Open Scope N_scope.

(** creating a message from bytes succeeds exactly when the status byte is >= 0x80, for every
    factory implementation (parametric in [from_bytes_unchecked]) *)
Theorem C01_from_bytes_ok_iff : forall M (fbu : bytes -> outcome M) s a c,
  s < 256 -> (forall b, 128 <= fst (fst b) -> exists m, fbu b = Ok m) ->
  (exists m, from_bytes fbu (s, a, c) = Ok (Some m)) <-> 128 <= s.
Proof. exact from_bytes_ok_iff. Qed.

Theorem C01_from_bytes_rejects : forall M (fbu : bytes -> outcome M) s a c,
  s < 128 -> from_bytes fbu (s, a, c) = Ok None.
Proof. exact from_bytes_rejects. Qed.

(** RawShortMessage returns exactly the bytes it was made from *)
Theorem C01_raw_returns_its_bytes : forall b, omap raw_tb (raw_fbu b) = Ok b.
Proof. exact raw_bytes_id. Qed.

(** StructuredShortMessage returns them with only the information-free parts (unused data bytes,
    the reserved bit of a 'last' quarter frame) set to zero *)
Theorem C01_structured_returns_canonical_bytes : forall s a c,
  valid3 (s, a, c) = true -> omap struct_tb (struct_fbu (s, a, c)) = Ok (canon (s, a, c)).
Proof. exact struct_bytes_canon. Qed.

(** converting any StructuredShortMessage value to bytes and back, or to a RawShortMessage and
    back, never changes it *)
Theorem C01_structured_roundtrip : forall m,
  struct_wf m = true -> struct_of_bytes (struct_tb m) = Ok m.
Proof. exact struct_roundtrip. Qed.

Theorem C01_structured_via_raw_roundtrip : forall m,
  struct_wf m = true -> raw_ts (raw_tb (struct_tb m)) = Ok m.
Proof. exact struct_via_raw_roundtrip. Qed.

(** raw -> structured -> raw is idempotent *)
Theorem C01_canonicalisation_idempotent : forall b, canon (canon b) = canon b.
Proof. exact canon_idempotent. Qed.

(** the quarter-frame and message-type byte conversions on their own *)
Theorem C01_quarter_frame_roundtrip : forall f,
  tcqf_wf f = true -> tcqf_of_u7 (u7_of_tcqf f) = Ok f /\ u7_of_tcqf f < 128.
Proof. exact tcqf_roundtrip. Qed.

Theorem C01_quarter_frame_of_u7 : forall a, a < 128 ->
  exists f, tcqf_of_u7 a = Ok f /\ enc_tcqf f = qf_fields a /\ u7_of_tcqf f = canon_qf a /\
            tcqf_wf f = true.
Proof. exact tcqf_facts. Qed.

Theorem C01_type_code_roundtrip : forall t, smt_of_code (smt_code t) = Some t.
Proof. exact smt_roundtrip. Qed.

Theorem C01_type_of_code : forall b, b < 256 ->
  smt_of_code b =
  (if (N.leb 240 b) || (N.leb 128 b && N.eqb (b mod 16) 0) then type_table b else None).
Proof. exact smt_of_code_spec. Qed.

Print Assumptions C01_from_bytes_ok_iff.
Print Assumptions C01_from_bytes_rejects.
Print Assumptions C01_raw_returns_its_bytes.
Print Assumptions C01_structured_returns_canonical_bytes.
Print Assumptions C01_structured_roundtrip.
Print Assumptions C01_structured_via_raw_roundtrip.
Print Assumptions C01_canonicalisation_idempotent.
Print Assumptions C01_quarter_frame_roundtrip.
Print Assumptions C01_quarter_frame_of_u7.
Print Assumptions C01_type_code_roundtrip.
Print Assumptions C01_type_of_code.
