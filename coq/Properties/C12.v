(** C12 — the polling (N)RPN scanner decodes every documented sequence form.
    Only property theorems, each closed by [exact <lemma>].

    Spec/PollGrammar.v is the grammar of documented forms as a reference transducer:
    [g_run timeout now gstates_init h = Some exp] says that the history [h] is, per channel, a
    concatenation of documented forms after number selections (with polls, time and
    non-contributing messages in between; a poll inside an LSB,MSB pair must come before the
    timeout), and [exp] lists what must be reported at each call.  [call_ok] demands equality,
    except that up to a channel's first number byte a value still pending from earlier traffic
    may be flushed as a 7-bit data entry. *)
From Verif Require Import Base.Prelude Model.ShortMsg Model.PerChannel Model.Nrpn Model.Polling
  Spec.PollGrammar Proofs.PollingProofs Proofs.PollGrammarProofs.

Theorem C12_documented_forms_decoded : forall timeout prior sentence exp,
  Forall (fun o => sop_ok o = true) prior -> Forall (fun o => sop_ok o = true) sentence ->
  exists now s outs0,
    poll_run 0 (poll_new_scanner timeout) prior = Ok (now, s, outs0) /\
    (g_run timeout now gstates_init sentence = Some exp ->
     exists now' s' outs,
       poll_run now s sentence = Ok (now', s', outs) /\ Forall2 call_ok exp outs).
Proof. exact documented_forms_decoded. Qed.

(** what the grammar prescribes, form by form (reading aid; by computation):
    a lone MSB is reported at the next relevant message ... *)
Theorem C12_lone_msb_then_next_message :
  g_run 5 0 gstates_init
    [OFeed (176, 99, 1); OFeed (176, 98, 2); OFeed (176, 6, 7); OFeed (176, 6, 8); OFeed (176, 96, 3)]
  = Some [((None, None), true); ((None, None), false); ((None, None), false);
          ((Some (m7 0 1 2 false 7 DataEntry), None), false);
          ((Some (m7 0 1 2 false 8 DataEntry), Some (m7 0 1 2 false 3 DataIncrement)), false)].
Proof. vm_compute. reflexivity. Qed.

(** ... or at the first poll after the timeout (not before) *)
Theorem C12_lone_msb_then_poll :
  g_run 5 0 gstates_init
    [OFeed (176, 99, 1); OFeed (176, 98, 2); OFeed (176, 6, 7); OTick 4; OPoll 0; OTick 1; OPoll 0; OPoll 0]
  = Some [((None, None), true); ((None, None), false); ((None, None), false); ((None, None), false);
          ((None, None), false); ((None, None), false);
          ((Some (m7 0 1 2 false 7 DataEntry), None), false); ((None, None), false)].
Proof. vm_compute. reflexivity. Qed.

(** a completed pair is reported as 14-bit at its second byte (MSB,LSB or, directly after x,y,
    LSB,MSB), a further LSB as 14-bit with the retained MSB *)
Theorem C12_pairs_and_fine_adjustment :
  g_run 5 0 gstates_init
    [OFeed (176, 101, 1); OFeed (176, 100, 2); OFeed (176, 38, 9); OFeed (176, 6, 7);
     OFeed (176, 38, 10); OFeed (176, 6, 8); OFeed (176, 38, 11)]
  = Some [((None, None), true); ((None, None), false); ((None, None), false);
          ((Some (m14 0 1 2 true 7 9), None), false); ((Some (m14 0 1 2 true 7 10), None), false);
          ((None, None), false); ((Some (m14 0 1 2 true 8 11), None), false)].
Proof. vm_compute. reflexivity. Qed.

(** streams outside the documented forms are not claimed: e.g. a late poll inside an LSB,MSB pair *)
Theorem C12_grammar_rejects_late_poll_inside_pair :
  g_run 5 0 gstates_init
    [OFeed (176, 99, 1); OFeed (176, 98, 2); OFeed (176, 38, 9); OTick 5; OPoll 0; OFeed (176, 6, 7)]
  = None.
Proof. vm_compute. reflexivity. Qed.

(** consequently: encoding any ParameterNumberMessage in either byte order, feeding it and polling
    after the timeout reports exactly that message, once (grammar level; the theorem above
    transfers it to the scanner, after any prior traffic, preceded at most by a flush) *)
Theorem C12_encode_feed_poll_7bit : forall c hi lo reg v t timeout,
  exists g os g' o,
    g_feeds G0 c t [(sel_msb reg, hi); (sel_lsb reg, lo); (6, v)] = Some (g, os) /\
    g_poll timeout g c (t + timeout) = Some (g', o) /\
    reports os ++ (match o with Some m => [m] | None => [] end) = [m7 c hi lo reg v DataEntry] /\
    g_poll timeout g' c (t + timeout) = Some (g', None).
Proof. exact encode_feed_poll_7bit. Qed.

Theorem C12_encode_feed_poll_14bit : forall c hi lo reg vm vl t timeout (msb_first : bool),
  exists g os,
    g_feeds G0 c t ([(sel_msb reg, hi); (sel_lsb reg, lo)] ++
                    (if msb_first then [(6, vm); (38, vl)] else [(38, vl); (6, vm)])) = Some (g, os) /\
    reports os = [m14 c hi lo reg vm vl] /\
    g_poll timeout g c (t + timeout) = Some (g, None).
Proof. exact encode_feed_poll_14bit. Qed.

Theorem C12_encode_feed_poll_incdec : forall c hi lo reg v t timeout (inc : bool),
  exists g os,
    g_feeds G0 c t [(sel_msb reg, hi); (sel_lsb reg, lo); (if inc then 96 else 97, v)] = Some (g, os) /\
    reports os = [m7 c hi lo reg v (if inc then DataIncrement else DataDecrement)] /\
    g_poll timeout g c (t + timeout) = Some (g, None).
Proof. exact encode_feed_poll_incdec. Qed.

Print Assumptions C12_documented_forms_decoded.
Print Assumptions C12_encode_feed_poll_7bit.
Print Assumptions C12_encode_feed_poll_14bit.
Print Assumptions C12_encode_feed_poll_incdec.
Print Assumptions C12_lone_msb_then_next_message.
Print Assumptions C12_lone_msb_then_poll.
Print Assumptions C12_pairs_and_fine_adjustment.
Print Assumptions C12_grammar_rejects_late_poll_inside_pair.
