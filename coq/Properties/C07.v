(** C07 — 14-bit Control Change: encoding is correct and the scanner inverts it.
    This file contains only the property theorems; each is closed by [exact <lemma>]. *)
From Verif Require Import Base.Prelude Model.ShortMsg Model.PerChannel Model.CC14
  Spec.CC14Spec Proofs.CC14Proofs.

(** a message can be created exactly for MSB controller numbers 0-31 *)
Theorem C07_new_panics_iff : forall ch cn v, cc14_new ch cn v = Panic <-> 32 <= cn.
Proof. exact cc14_new_panic_iff. Qed.

(** it reports back channel, controller numbers (LSB = MSB + 32) and value *)
Theorem C07_getters : forall ch cn v, cn < 32 ->
  exists m, cc14_new ch cn v = Ok m /\
    cc_channel m = ch /\ cc_msb_cn m = cn /\ cc_value m = v /\ cc14_lsb_cn m = Ok (cn + 32).
Proof.
  intros ch cn v H. exists (mkCC14 ch cn v).
  split; [exact (cc14_new_ok ch cn v H)|]. repeat split.
  exact (cc14_lsb_is_msb_plus_32 ch cn v H).
Qed.

(** encoding: controller n with the high 7 bits, then n+32 with the low 7 bits, on its channel;
    for both factory implementations *)
Theorem C07_encode_raw : forall ch cn v, ch < 16 -> cn < 32 -> v < 16384 ->
  cc14_to_short_messages raw_fbu (mkCC14 ch cn v)
  = Ok ((176 + ch, cn, v / 128), (176 + ch, cn + 32, v mod 128)).
Proof. exact cc14_encode_raw. Qed.

Theorem C07_encode_structured : forall ch cn v, ch < 16 -> cn < 32 -> v < 16384 ->
  omap (fun p => (struct_tb (fst p), struct_tb (snd p)))
       (cc14_to_short_messages struct_fbu (mkCC14 ch cn v))
  = Ok ((176 + ch, cn, v / 128), (176 + ch, cn + 32, v mod 128)).
Proof. exact cc14_encode_struct. Qed.

(** whatever the scanner has been fed before (every state reachable by any valid history of
    feeds and resets, of any length), the two messages yield nothing, then the original *)
Theorem C07_scan_inverts_encode : forall h ch cn v,
  Forall (fun o => cc14op_valid o = true) h ->
  ch < 16 -> cn < 32 -> v < 16384 ->
  exists s0 outs0 s1,
    cc14_run cc14_new_scanner h = Ok (s0, outs0) /\
    cc14_run s0 [CFeed (176 + ch, cn, v / 128); CFeed (176 + ch, cn + 32, v mod 128)]
    = Ok (s1, [None; Some (mkCC14 ch cn v)]).
Proof. exact scan_encode_after_history. Qed.

Print Assumptions C07_new_panics_iff.
Print Assumptions C07_getters.
Print Assumptions C07_encode_raw.
Print Assumptions C07_encode_structured.
Print Assumptions C07_scan_inverts_encode.
