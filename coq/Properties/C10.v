(** C10 — the (N)RPN scanner inverts the encoder for the sequences it documents, regardless of
    what it was fed before.  Only the property theorems; each closed by [exact <lemma>]. *)
From Verif Require Import Base.Prelude Model.ShortMsg Model.CC14 Model.Nrpn Spec.NrpnSpec
  Proofs.NrpnEncodeProofs.

(** any 7-bit / increment / decrement message, either byte order, after any valid history *)
Theorem C10_scan_inverts_7_bit : forall h m order,
  Forall (fun o => pnop_valid o = true) h ->
  pnmsg_wf m = true -> pn_is_14_bit m = false ->
  exists ops s0 outs0 s1,
    omap (fun l => flat_map (fun o => match o with Some b => [NFeed b] | None => [] end) l)
         (pn_to_short_message_bytes m order) = Ok ops /\
    pn_run pn_new_scanner h = Ok (s0, outs0) /\
    pn_run s0 ops = Ok (s1, [None; None; Some m]).
Proof. exact scan_encode_7bit. Qed.

(** the LSB-first encoding of any 14-bit message *)
Theorem C10_scan_inverts_14_bit_lsb_first : forall h m,
  Forall (fun o => pnop_valid o = true) h ->
  pnmsg_wf m = true -> pn_is_14_bit m = true ->
  exists ops s0 outs0 s1,
    omap (fun l => flat_map (fun o => match o with Some b => [NFeed b] | None => [] end) l)
         (pn_to_short_message_bytes m LsbFirst) = Ok ops /\
    pn_run pn_new_scanner h = Ok (s0, outs0) /\
    pn_run s0 ops = Ok (s1, [None; None; None; Some m]).
Proof. exact scan_encode_14bit_lsb_first. Qed.

(** running form: after one selection, repeated data bytes (controller 6, 96 or 97) each yield
    a 7-bit data entry / increment / decrement -- for lists of any length *)
Theorem C10_running_single_bytes : forall h ch reg num n vs,
  Forall (fun o => pnop_valid o = true) h ->
  ch < 16 -> num < 16384 -> n = 6 \/ n = 96 \/ n = 97 -> Forall (fun v => v < 128) vs ->
  exists s0 outs0 s1,
    pn_run pn_new_scanner h = Ok (s0, outs0) /\
    pn_run s0 (select ch reg num ++ map (cc ch n) vs)
    = Ok (s1, [None; None] ++
              map (fun v => Some (mkPN ch num v reg false
                                    (if N.eqb n 96 then DataIncrement
                                     else if N.eqb n 97 then DataDecrement else DataEntry))) vs).
Proof. exact scan_running_single. Qed.

(** running form: repeated LSB,MSB pairs each yield a 14-bit message -- any number of pairs *)
Theorem C10_running_lsb_msb_pairs : forall h ch reg num ps,
  Forall (fun o => pnop_valid o = true) h ->
  ch < 16 -> num < 16384 -> Forall (fun p => fst p < 128 /\ snd p < 128) ps ->
  exists s0 outs0 s1,
    pn_run pn_new_scanner h = Ok (s0, outs0) /\
    pn_run s0 (select ch reg num ++ pairs_ops ch ps)
    = Ok (s1, [None; None] ++ pairs_outs ch num reg ps).
Proof. exact scan_running_pairs. Qed.

Print Assumptions C10_scan_inverts_7_bit.
Print Assumptions C10_scan_inverts_14_bit_lsb_first.
Print Assumptions C10_running_single_bytes.
Print Assumptions C10_running_lsb_msb_pairs.
