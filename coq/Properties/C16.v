(** C16 — non-contributing messages are transparent; the predicates name the contributors.
    Only property theorems, closed by [exact <lemma>] (or a complete evaluation of the generated
    constant table). *)
From Verif Require Import Base.Prelude Model.ShortMsg Model.PerChannel Model.CC14 Model.Nrpn
  Model.Polling Spec.MidiTable Spec.ScannerSpec Spec.ConstSpec Generated.CtrlConsts
  Proofs.PerChannelProofs Proofs.NrpnProofs Proofs.PollingProofs Proofs.ScannerProofs.

(** feeding a non-contributing message reports nothing and leaves the scanner equal, in every
    well-formed state (hence inserting such messages anywhere changes nothing) *)
Theorem C16_cc14_transparent : forall s b,
  length s = 16%nat -> Forall cc14_good s -> valid3 b = true -> noncontrib_cc14 b = true ->
  cc14_feed s b = Ok (s, None).
Proof. exact cc14_transparent. Qed.

Theorem C16_nrpn_transparent : forall s b,
  length s = 16%nat -> valid3 b = true -> noncontrib_pn b = true ->
  pn_feed s b = Ok (s, None).
Proof. exact pn_transparent. Qed.

Theorem C16_polling_transparent : forall now s b,
  length s = 16%nat -> valid3 b = true -> noncontrib_pn b = true ->
  poll_feed now s b = Ok (s, (None, None)).
Proof. exact poll_transparent. Qed.

(** the predicates: 0-63; n+32 exactly for 0-31; exactly {6, 38, 96..101} *)
Theorem C16_predicates_exact : forall n,
  n < 128 ->
  (can_be_part_of_14_bit n = true <-> n < 64) /\
  (corresponding_lsb n = (if N.ltb n 32 then Some (n + 32) else None)) /\
  (is_parameter_number_cn n = true <-> In n [6; 38; 96; 97; 98; 99; 100; 101]).
Proof. exact predicates_exact. Qed.

(** and they agree with the scanners: every controller they include makes the scanner react in
    some well-formed state (the ones they exclude are transparent, above) *)
Theorem C16_cc14_contributors_react : forall n v,
  n < 64 -> exists st, cc14_good st /\ cc14_f1v 0 st (Some (0, n, v)) <> (st, None).
Proof. exact cc14_contributors_react. Qed.

Theorem C16_nrpn_contributors_react : forall n v,
  In n [6; 38; 96; 97; 98; 99; 100; 101] ->
  exists st, pn_f1v 0 st (Some (0, n, v)) <> (st, None).
Proof. exact pn_contributors_react. Qed.

(** the [*_LSB] constants are their MSB constant + 32 (table regenerated from the source) *)
Theorem C16_lsb_constants : consts_ok = true /\ (12 <= lsb_constrained + lsb_unparsed)%nat.
Proof. split; vm_compute; [reflexivity|repeat constructor]. Qed.

Print Assumptions C16_cc14_transparent.
Print Assumptions C16_nrpn_transparent.
Print Assumptions C16_polling_transparent.
Print Assumptions C16_predicates_exact.
Print Assumptions C16_cc14_contributors_react.
Print Assumptions C16_nrpn_contributors_react.
Print Assumptions C16_lsb_constants.
