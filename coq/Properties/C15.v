(** C15 — scanners keep channels isolated.  Only property theorems, closed by [exact <lemma>].

    [outs_on c h outs] are the results at the operations of [h] that concern channel [c] (its
    feeds and polls, resets, time); [run1 ... c ... (filter (relevant c) h)] is a scanner of its own
    for channel [c] (the one-channel machine) fed only those operations, in the same order and at
    the same times. *)
From Verif Require Import Base.Prelude Model.ShortMsg Model.PerChannel Model.CC14 Model.Nrpn
  Model.Polling Spec.MidiTable Spec.ScannerSpec Spec.CC14Spec Spec.NrpnSpec
  Proofs.PerChannelProofs Proofs.NrpnProofs Proofs.PollingProofs Proofs.ScannerProofs.

Theorem C15_cc14_isolated : forall h c,
  Forall (fun o => cc14op_valid o = true) h -> c < 16 ->
  exists s' outs,
    cc14_run cc14_new_scanner h = Ok (s', outs) /\
    outs_on _ c (map cc14_sop h) outs
    = snd (run1 cc14st (option cc14msg) cc14_f1v cc14_p1 cc14_reset1 None c 0 cc14st_init
             (filter (relevant c) (map cc14_sop h))).
Proof. exact cc14_isolation. Qed.

Theorem C15_nrpn_isolated : forall h c,
  Forall (fun o => pnop_valid o = true) h -> c < 16 ->
  exists s' outs,
    pn_run pn_new_scanner h = Ok (s', outs) /\
    outs_on _ c (map pn_sop h) outs
    = snd (run1 pnst (option pnmsg) pn_f1v (fun _ st _ => (st, None)) pn_reset1 None c 0 pnst_init
             (filter (relevant c) (map pn_sop h))).
Proof. exact pn_isolation. Qed.

(** including polls and time for the polling scanner *)
Theorem C15_polling_isolated : forall timeout h c,
  Forall (fun o => sop_ok o = true) h -> c < 16 ->
  exists now' s' outs,
    poll_run 0 (poll_new_scanner timeout) h = Ok (now', s', outs) /\
    outs_on _ c h outs
    = snd (run1 pollst out2 poll_f1v poll_p1 poll_reset1 (None, None) c 0 (pollst_new timeout)
             (filter (relevant c) h)).
Proof. exact poll_isolation. Qed.

(** every reported message carries the channel of the input or poll that triggered it *)
Theorem C15_cc14_reports_trigger_channel : forall now st c n v st' m,
  cc14_f1v now st (Some (c, n, v)) = (st', Some m) -> cc_channel m = c.
Proof. exact cc14_out_channel. Qed.

Theorem C15_nrpn_reports_trigger_channel : forall now st c n v st' m,
  pn_f1v now st (Some (c, n, v)) = (st', Some m) -> pn_channel m = c.
Proof. exact pn_out_channel. Qed.

Theorem C15_polling_feed_reports_trigger_channel : forall now st c n v,
  out2_channels_ok c (snd (poll_f1v now st (Some (c, n, v)))).
Proof. exact poll_out_channel. Qed.

Theorem C15_polling_poll_reports_trigger_channel : forall now st c m st',
  poll_poll1 now st c = (st', Some m) -> pn_channel m = c.
Proof. exact poll_poll_channel. Qed.

(** system messages (no channel) report nothing and leave every channel unchanged: for the
    arithmetic machine of any scanner *)
Theorem C15_system_messages_inert : forall St Out f1v poll1 reset1 (none : Out) now (s : list St) b,
  channel_table (fst (fst b)) = None ->
  gstep St Out f1v poll1 reset1 none now s (OFeed b) = (now, s, none).
Proof. exact gstep_system. Qed.

Print Assumptions C15_cc14_isolated.
Print Assumptions C15_nrpn_isolated.
Print Assumptions C15_polling_isolated.
Print Assumptions C15_cc14_reports_trigger_channel.
Print Assumptions C15_nrpn_reports_trigger_channel.
Print Assumptions C15_polling_feed_reports_trigger_channel.
Print Assumptions C15_polling_poll_reports_trigger_channel.
Print Assumptions C15_system_messages_inert.
