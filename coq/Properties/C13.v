(** C13 — the polling scanner honours its timeout.
    Stated on the one-channel machine ([poll_poll1], [poll_f1v]); Properties/C15.v lifts every
    statement to the 16-channel scanner (what is reported for a channel under any interleaving is
    exactly what its own one-channel machine reports).  Only property theorems, each closed by
    [exact <lemma>]. *)
From Verif Require Import Base.Prelude Model.ShortMsg Model.PerChannel Model.CC14 Model.Nrpn
  Model.Polling Proofs.PerChannelProofs Proofs.PollingProofs Proofs.PollShift.

(** poll returns a message only if a data entry MSB is pending and at least the timeout has
    passed since it was fed; it is that 7-bit message, and the value is consumed *)
Theorem C13_poll_reports_only_when_due : forall now st c st' m,
  poll_poll1 now st c = (st', Some m) ->
  exists ns arrival v,
    p_state st = PPending ns arrival v true /\
    p_timeout st <= now - arrival /\
    m = pn_seven_bit c (ns_number ns) v (ns_reg ns) DataEntry /\
    st' = with_state st (PWaitVal ns).
Proof. exact poll_some_inv. Qed.

(** ... once: afterwards nothing is pending, and any number of further polls and time steps
    report nothing and change nothing until new input arrives *)
Theorem C13_reported_once : forall now st c st' m,
  poll_poll1 now st c = (st', Some m) -> not_pending st'.
Proof. exact poll_reported_then_silent. Qed.

Theorem C13_polls_silent_when_nothing_pending : forall c st, not_pending st -> forall h now,
  forallb poll_or_tick h = true ->
  exists now', run1 pollst out2 poll_f1v poll_p1 poll_reset1 (None, None) c now st h
               = (now', st, map (fun _ => (None, None)) h).
Proof. exact polls_silent. Qed.

(** a poll before the timeout returns nothing and has no effect (the state is equal) *)
Theorem C13_early_poll_no_effect : forall now st c ns arrival v b,
  p_state st = PPending ns arrival v b -> now - arrival < p_timeout st ->
  poll_poll1 now st c = (st, None).
Proof. exact poll_early_noop. Qed.

(** the mere passage of time never changes what feed returns: the outputs of any sequence of
    feeds are the same under any two clocks (and from states that differ only in a stored
    arrival time) *)
Theorem C13_feed_independent_of_time : forall l1 l2, map snd l1 = map snd l2 -> forall st1 st2,
  erase st1 = erase st2 ->
  snd (feeds_run st1 l1) = snd (feeds_run st2 l2).
Proof. exact feeds_time_independent. Qed.

(** an unpaired data entry LSB is dropped by the first poll after the timeout ... *)
Theorem C13_unpaired_lsb_dropped : forall now st c ns arrival l,
  p_state st = PPending ns arrival l false -> p_timeout st <= now - arrival ->
  poll_poll1 now st c = (with_state st (PWaitVal ns), None).
Proof. exact unpaired_lsb_dropped_by_late_poll. Qed.

(** ... and never reported: every input other than the data entry MSB that pairs with it
    reports nothing, and every contributing one forgets it *)
Theorem C13_unpaired_lsb_never_reported : forall now st ch cn v ns arrival l,
  p_state st = PPending ns arrival l false -> cn <> 6 ->
  snd (poll_dispatch now st ch cn v) = (None, None) /\
  (is_parameter_number_cn cn = true ->
   exists ns', p_state (fst (poll_dispatch now st ch cn v)) = PWaitVal ns') /\
  (is_parameter_number_cn cn = false -> poll_dispatch now st ch cn v = (st, (None, None))).
Proof. exact unpaired_lsb_never_reported. Qed.

(** the clock has no observable origin: any history of feeds, polls, resets and time steps, run
    [d] nanoseconds later from a state whose stored arrival time is [d] later too, reports exactly
    the same and ends in the correspondingly moved state; in particular what a new scanner reports
    does not depend on when it is started (only differences of instants matter: "at least the
    configured timeout has passed since it was fed") *)
Theorem C13_clock_origin_irrelevant : forall d c h now st,
  run1 pollst out2 poll_f1v poll_p1 poll_reset1 (None, None) c (now + d) (shift d st) h =
  (let '(now', st', outs) := run1 pollst out2 poll_f1v poll_p1 poll_reset1 (None, None) c now st h in
   (now' + d, shift d st', outs)).
Proof. exact clock_origin_irrelevant. Qed.

Theorem C13_new_scanner_any_start : forall d c t h now,
  snd (run1 pollst out2 poll_f1v poll_p1 poll_reset1 (None, None) c (now + d) (pollst_new t) h) =
  snd (run1 pollst out2 poll_f1v poll_p1 poll_reset1 (None, None) c now (pollst_new t) h).
Proof. exact new_scanner_any_start. Qed.

(** the same for the 16-channel scanner of the model, [poll_run] -- the function the
    correspondence check evaluates against the implementation driven by the mock clock *)
Theorem C13_clock_origin_irrelevant_scanner : forall d h now s,
  poll_run (now + d) (shift_all d s) h =
  omap (fun r => let '(now', s', outs) := r in (now' + d, shift_all d s', outs)) (poll_run now s h).
Proof. exact clock_origin_irrelevant_16. Qed.

Theorem C13_new_scanner_any_start_scanner : forall d t h now,
  omap snd (poll_run (now + d) (poll_new_scanner t) h) = omap snd (poll_run now (poll_new_scanner t) h).
Proof. exact new_scanner_any_start_16. Qed.

(** the deadline is a threshold in time: a poll that acts at some instant (reports the pending
    MSB or drops the unpaired LSB) acts in exactly the same way at any later instant instead, and
    a poll that is too early at some instant is too early at every earlier one *)
Theorem C13_once_due_always_due : forall now now' st c,
  now <= now' -> fst (poll_poll1 now st c) <> st \/ snd (poll_poll1 now st c) <> None ->
  poll_poll1 now' st c = poll_poll1 now st c.
Proof. exact poll_due_monotone. Qed.

Theorem C13_early_before_is_early : forall now now' st c ns a fv fm,
  p_state st = PPending ns a fv fm -> now <= now' -> now' - a < p_timeout st ->
  poll_poll1 now st c = (st, None).
Proof. exact poll_early_monotone. Qed.

(** non-vacuity: a reachable state with a pending MSB; late poll reports, early poll does not *)
Theorem C13_example :
  exists st st', fst (feeds_run (pollst_new 5) [(0, Some (0, 99, 1)); (0, Some (0, 98, 2)); (3, Some (0, 6, 7))]) = st
             /\ poll_poll1 8 st 0 = (st', Some (pn_seven_bit 0 130 7 false DataEntry))
             /\ poll_poll1 7 st 0 = (st, None).
Proof. exact pending_msb_reported. Qed.

Print Assumptions C13_poll_reports_only_when_due.
Print Assumptions C13_reported_once.
Print Assumptions C13_polls_silent_when_nothing_pending.
Print Assumptions C13_early_poll_no_effect.
Print Assumptions C13_feed_independent_of_time.
Print Assumptions C13_unpaired_lsb_dropped.
Print Assumptions C13_unpaired_lsb_never_reported.
Print Assumptions C13_clock_origin_irrelevant.
Print Assumptions C13_new_scanner_any_start.
Print Assumptions C13_once_due_always_due.
Print Assumptions C13_early_before_is_early.
Print Assumptions C13_clock_origin_irrelevant_scanner.
Print Assumptions C13_new_scanner_any_start_scanner.
Print Assumptions C13_example.
