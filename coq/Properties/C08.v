(** C08 — the 14-bit CC scanner reports exactly the justified messages.
    Only the property theorems; each closed by [exact <lemma>]. *)
From Verif Require Import Base.Prelude Model.ShortMsg Model.PerChannel Model.CC14
  Spec.MidiTable Spec.CC14Spec Proofs.CC14Proofs Proofs.RepeatStable.

(** For every finite history of valid feeds and resets (no bound on its length), the scanner never
    panics and its outputs are, operation by operation, those of the history-level specification
    [cc14_spec_outs]: a report exactly for a Control Change n in 32-63 on channel c whose most recent
    Control Change < 32 on c since creation/reset was n-32, carrying 128 * that value + the current
    one; nothing otherwise. *)
Theorem C08_scanner_exact : forall h,
  Forall (fun o => cc14op_valid o = true) h ->
  exists s', cc14_run cc14_new_scanner h = Ok (s', cc14_spec_outs h).
Proof. exact cc14_exact. Qed.

(** the specification, spelled out for one step (so that the statement above can be read
    without unfolding): *)
Theorem C08_spec_reads : forall hr s a c,
  cc14_spec_out hr (CFeed (s, a, c)) =
  match as_cc (s, a, c) with
  | Some (ch, n, v) =>
      if N.leb 32 n && N.ltb n 64 then
        match last_msb_rev ch hr with
        | Some (n0, v0) => if N.eqb (n0 + 32) n then Some (mkCC14 ch n0 (128 * v0 + v)) else None
        | None => None
        end
      else None
  | None => None
  end.
Proof. reflexivity. Qed.

(** corollaries named in the property: an LSB repeated alone re-reports with the retained MSB;
    a stale MSB is replaced by any newer MSB on that channel *)
Theorem C08_lsb_repeat_and_msb_replace :
  cc14_spec_outs [CFeed (176, 1, 10); CFeed (176, 33, 1); CFeed (176, 33, 2);
                  CFeed (176, 2, 20); CFeed (176, 33, 3); CFeed (176, 34, 4)]
  = [None; Some (mkCC14 0 1 1281); Some (mkCC14 0 1 1282); None; None; Some (mkCC14 0 2 2564)].
Proof. vm_compute. reflexivity. Qed.

(** feeding one message again and again: after its first application the scanner is at a fixed
    point of that message -- every further application returns the same state and the same
    output, however often it is repeated (what "the previous operation again n times" of the
    correspondence records relies on) *)
Theorem C08_repeated_feed_is_stable : forall s b s1 o1 s2 o2,
  cc14_feed s b = Ok (s1, o1) -> cc14_feed s1 b = Ok (s2, o2) -> cc14_feed s2 b = Ok (s2, o2).
Proof. exact cc14_feed_repeats. Qed.

Print Assumptions C08_scanner_exact.
Print Assumptions C08_repeated_feed_is_stable.
Print Assumptions C08_spec_reads.
Print Assumptions C08_lsb_repeat_and_msb_replace.
