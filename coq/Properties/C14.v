(** C14 — the polling scanner never fabricates, duplicates or loses data entries.
    Only the property theorems; each closed by [exact <lemma>].

    [check_C14 timeout h outs] (Spec/PollMonitor.v) is the decidable trace predicate: it runs, per
    channel, a monitor that knows only history observers (latest number bytes, most recent
    controller-6/38 bytes with their times, and whether the controller-6 byte was reported) and
    rejects the trace as soon as a reported message has the wrong channel / number / registered
    flag, a value not taken from the prescribed received bytes, a controller-6 byte reported twice
    as 7-bit or as 7-bit after being part of a 14-bit value, an outstanding controller-6 byte
    (received with a complete number) not reported by the next contributing message or by the first
    poll after the timeout, or a malformed pair of results. *)
From Verif Require Import Base.Prelude Model.ShortMsg Model.PerChannel Model.Nrpn Model.Polling
  Spec.PollMonitor Proofs.PollingProofs Proofs.PollMonitorMain.

Theorem C14_every_trace_accepted : forall timeout h,
  Forall (fun o => sop_ok o = true) h ->
  exists now' s' outs,
    poll_run 0 (poll_new_scanner timeout) h = Ok (now', s', outs) /\
    check_C14 timeout h outs = true.
Proof. exact poll_trace_ok. Qed.

(** the monitor is not vacuous: it rejects a trace that loses a pending MSB at a number byte,
    one that reports it twice, and one that fabricates a value *)
Theorem C14_monitor_rejects_loss :
  check_C14 0 [OFeed (176, 99, 1); OFeed (176, 98, 2); OFeed (176, 6, 7); OFeed (176, 99, 3)]
            [(None, None); (None, None); (None, None); (None, None)] = false.
Proof. vm_compute. reflexivity. Qed.

Theorem C14_monitor_rejects_duplicate :
  check_C14 0 [OFeed (176, 99, 1); OFeed (176, 98, 2); OFeed (176, 6, 7); OPoll 0; OPoll 0]
            [(None, None); (None, None); (None, None);
             (Some (mkPN 0 130 7 false false DataEntry), None);
             (Some (mkPN 0 130 7 false false DataEntry), None)] = false.
Proof. vm_compute. reflexivity. Qed.

Theorem C14_monitor_rejects_fabrication :
  check_C14 0 [OFeed (176, 99, 1); OFeed (176, 98, 2); OFeed (176, 6, 7); OPoll 0]
            [(None, None); (None, None); (None, None);
             (Some (mkPN 0 130 8 false false DataEntry), None)] = false.
Proof. vm_compute. reflexivity. Qed.

Theorem C14_monitor_accepts_example :
  check_C14 5 [OFeed (176, 99, 1); OFeed (176, 98, 2); OFeed (176, 6, 7); OTick 5; OPoll 0;
               OFeed (176, 6, 8); OFeed (176, 96, 1)]
            [(None, None); (None, None); (None, None); (None, None);
             (Some (mkPN 0 130 7 false false DataEntry), None); (None, None);
             (Some (mkPN 0 130 8 false false DataEntry), Some (mkPN 0 130 1 false false DataIncrement))]
  = true.
Proof. vm_compute. reflexivity. Qed.

Print Assumptions C14_every_trace_accepted.
Print Assumptions C14_monitor_rejects_loss.
Print Assumptions C14_monitor_rejects_duplicate.
Print Assumptions C14_monitor_rejects_fabrication.
Print Assumptions C14_monitor_accepts_example.
