(** C04 — restricted integer types never hold an out-of-range value.
    Only property theorems; the instances (types, conversions, cfg guards, features) are the
    tables regenerated from the source on every run (Generated/NewtypeTables.v), so a conversion
    or guard that changes in the crate changes the statement being checked here. *)
From Coq Require Import String.
From Verif Require Import Base.Prelude Base.Cfg Model.ShortMsg Model.Newtypes
  Generated.NewtypeTables Generated.CtrlConsts Generated.SerdeShapes Spec.ConstSpec Proofs.BitFacts
  Proofs.NewtypeProofs.
Open Scope Z_scope.
Open Scope string_scope.

(** the six types and their documented ranges *)
Definition triple_eqb (a b : string * string * N) : bool :=
  String.eqb (fst (fst a)) (fst (fst b)) && String.eqb (snd (fst a)) (snd (fst b)) && N.eqb (snd a) (snd b).
Definition documented_types : list (string * string * N) :=
  [("Channel", "u8", 15%N); ("ControllerNumber", "u8", 127%N); ("KeyNumber", "u8", 127%N);
   ("U14", "u16", 16383%N); ("U4", "u8", 15%N); ("U7", "u8", 127%N)].

(** as a set: the order of the declarations in the source is not observable *)
Theorem C04_types_as_documented :
  length newtype_defs = 6%nat /\
  forallb (fun d => existsb (triple_eqb d) newtype_defs) documented_types = true /\
  forallb (fun d => existsb (triple_eqb d) documented_types) newtype_defs = true.
Proof. repeat split; vm_compute; reflexivity. Qed.

(** every conversion implemented by the crate is sound: complete evaluation of the side
    condition over the regenerated table ... *)
Theorem C04_every_conversion_entry_ok : forallb (entry_ok newtype_defs) conv_table = true.
Proof. vm_compute. reflexivity. Qed.

(** ... which, for every entry and *every* source value (all of u8 ... u128, i8 ... i128, usize,
    isize and the newtypes), gives: the result is in the target's range; fallible conversions fail
    exactly for out-of-range input *)
Theorem C04_conversions_stay_in_range : forall k src dst x,
  In (k, src, dst) conv_table -> in_rng (type_range newtype_defs src) x = true ->
  exists dlo dhi, type_range newtype_defs dst = Some (dlo, dhi) /\
    conv_apply newtype_defs (k, src, dst) x =
      Some (if is_try k && negb (Z.leb 0 x && Z.leb x dhi) then None else Some x) /\
    (is_try k && negb (Z.leb 0 x && Z.leb x dhi) = false -> dlo <= x <= dhi).
Proof.
  intros k src dst x Hin Hx. apply conv_sound; [|exact Hx].
  pose proof C04_every_conversion_entry_ok as H. rewrite forallb_forall in H. exact (H _ Hin).
Qed.

(** the checked constructor's assertion is compiled in every feature configuration -- default
    features, no default features, with and without the serde features *)
Definition configurations : list (list string) :=
  [cargo_default; []; (cargo_default ++ serde_features ++ cargo_serde)%list; (serde_features ++ cargo_serde)%list].

Theorem C04_new_checked_in_every_configuration :
  forallb (new_checked new_cfg_guards) configurations = true.
Proof. vm_compute. reflexivity. Qed.

(** the translator recognised the assertion in the body of [new] (otherwise the theorem above is
    about an empty table and the orchestrator reports it as not shown) *)
Theorem C04_new_guards_understood : new_guards_known = true.
Proof. reflexivity. Qed.

Theorem C04_new_panics_exactly_out_of_range : forall enabled max v,
  In enabled configurations ->
  nt_new new_cfg_guards enabled max v = if N.leb v max then Ok v else Panic.
Proof.
  intros enabled max v Hin. apply nt_new_spec.
  pose proof C04_new_checked_in_every_configuration as H. rewrite forallb_forall in H. exact (H _ Hin).
Qed.

(** deserialization is a safe way of obtaining a value too: in every feature configuration that
    enables serde (with or without std / serde_repr; cfg_attr conditions evaluated by the
    translator) the restricted integer types do not obtain Deserialize by a plain derive, which
    would store any value of the representation type (Properties/C19.v has the rest) *)
Fixpoint shape_of (name : string) (l : list (string * string)) : string :=
  match l with
  | [] => ""
  | (n, s) :: t => if String.eqb n name then s else shape_of name t
  end.

Theorem C04_deserialization_checked_in_every_configuration :
  forallb (fun cs => negb (String.eqb (shape_of "newtype" (snd cs)) "derive")) serde_shapes_by_cfg = true
  /\ length serde_shapes_by_cfg = 4%nat.
Proof. split; reflexivity. Qed.

(** parsing never yields an out-of-range value *)
Theorem C04_parse_in_range : forall pmax max s v,
  Z.of_N max <= pmax -> nt_from_str pmax max s = Some v -> (v <= max)%N.
Proof.
  intros pmax max s v Hm H. rewrite from_str_spec in H by exact Hm.
  destruct (numeral_value s) as [z|]; [|discriminate].
  destruct (Z.leb_spec z (Z.of_N max)); [|discriminate]. inversion H. lia.
Qed.

(** constants: every controller_numbers::* constant is a valid controller number *)
Theorem C04_constants_in_range : consts_ok = true.
Proof. vm_compute. reflexivity. Qed.

(** values produced by the bit helpers used by factories, encoders and scanners *)
Theorem C04_helpers_in_range : forall v hi lo,
  (extract_high_7 v < 128 /\ extract_low_7 v < 128)%N /\
  ((hi < 128 -> lo < 128 -> build_14 hi lo < 16384)%N).
Proof. intros v hi lo. split; [apply high_low_7_lt|apply build_14_lt]. Qed.

Print Assumptions C04_types_as_documented.
Print Assumptions C04_every_conversion_entry_ok.
Print Assumptions C04_conversions_stay_in_range.
Print Assumptions C04_new_checked_in_every_configuration.
Print Assumptions C04_new_guards_understood.
Print Assumptions C04_new_panics_exactly_out_of_range.
Print Assumptions C04_deserialization_checked_in_every_configuration.
Print Assumptions C04_parse_in_range.
Print Assumptions C04_constants_in_range.
Print Assumptions C04_helpers_in_range.
