(** C18 — real-time safety: no panic on valid input; panics occur only where documented.
    (The heap-allocation half of the property is a property of the compiled Rust code which no
    Gallina model exhibits; it is *monitored* by the correspondence run of this check -- every
    implementation call of every generator runs under a counting allocator -- and is not proved.
    This property is therefore claimed as partial; see DESIGN.md.)

    Only property theorems, each closed by [exact <lemma>]: every [outcome]-returning function of
    the model returns [Ok] on valid input -- which covers every [assert!], [expect], [unreachable!],
    array index and overflow site modelled in Model/*.v. *)
From Coq Require Import String.
From Verif Require Import Base.Prelude Base.Enc Base.Cfg Model.ShortMsg Model.Factory
  Model.Newtypes Model.PerChannel
  Model.CC14 Model.Nrpn Model.Polling Spec.MidiTable Spec.Canon Spec.ShortMsgObs Spec.CC14Spec
  Spec.NrpnSpec Spec.PollMonitor Proofs.ShortMsgFacts Proofs.ShortMsgProofs Proofs.FactoryProofs
  Proofs.CC14Proofs Proofs.NrpnProofs Proofs.NrpnEncodeProofs Proofs.PollingProofs
  Proofs.PollMonitorMain Proofs.NewtypeProofs.
Open Scope N_scope.

(** ** short messages: accessors, conversions *)
Lemma acc_spec_no_panic s a c :
  valid3 (s, a, c) = true -> Forall (fun z => z <> ZPANIC) (acc_spec (s, a, c)).
Proof.
  intros Hv. apply valid3_bounds in Hv as (H1 & H2 & _ & _).
  destruct (type_table_some s H1 H2) as [t Ht]. unfold acc_spec. rewrite Ht.
  assert (Hz : forall n, zN n <> ZPANIC) by (intros n; unfold zN, ZPANIC; lia).
  assert (Hb : forall b, zb b <> ZPANIC) by (intros [|]; unfold zb, ZPANIC; lia).
  unfold acc_by_type, struct_by_type, qf_fields, ZNONE.
  destruct t; cbn [is_channel_type app];
    repeat match goal with
      | |- context [if ?b then _ else _] => destruct b
      end;
    repeat constructor; try apply Hz; try apply Hb; unfold ZPANIC; try lia.
Qed.

(** no accessor, classification method or conversion of any implementor panics on a valid message
    (the [expect]/[unreachable!] sites of short_message.rs and structured_short_message.rs are dead) *)
Theorem C18_accessors_never_panic : forall s a c,
  valid3 (s, a, c) = true ->
  Forall (fun z => z <> ZPANIC) (acc_obs bytes raw_sb raw_d1 raw_d2 raw_ts (s, a, c)) /\
  Forall (fun z => z <> ZPANIC) (acc_obs_kind 1 (s, a, c)).
Proof.
  intros s a c Hv. rewrite (acc_raw_spec s a c Hv), (acc_struct_spec s a c Hv).
  split; apply acc_spec_no_panic; exact Hv.
Qed.

Theorem C18_structured_conversion_never_panics : forall s a c,
  valid3 (s, a, c) = true -> exists m, struct_fbu (s, a, c) = Ok m.
Proof. exact struct_fbu_ok. Qed.

(** ** encoders *)
Theorem C18_cc14_encoder_never_panics : forall ch cn v, ch < 16 -> cn < 32 -> v < 16384 ->
  cc14_to_short_messages raw_fbu (mkCC14 ch cn v)
  = Ok ((176 + ch, cn, v / 128), (176 + ch, cn + 32, v mod 128)).
Proof. exact cc14_encode_raw. Qed.

Theorem C18_nrpn_encoder_never_panics : forall m order,
  pnmsg_wf m = true ->
  pn_to_short_message_bytes m order
  = Ok (pn_encode_spec m (match order with MsbFirst => true | LsbFirst => false end)).
Proof. exact pn_encode_is_spec. Qed.

(** ** scanners: for every finite history of valid operations, no feed, poll or reset panics
    (array indexing by channel, the [expect("impossible")] of the 14-bit CC scanner) *)
Theorem C18_cc14_scanner_never_panics : forall h,
  Forall (fun o => cc14op_valid o = true) h ->
  exists s', cc14_run cc14_new_scanner h = Ok (s', cc14_spec_outs h).
Proof. exact cc14_exact. Qed.

Theorem C18_nrpn_scanner_never_panics : forall h,
  Forall (fun o => pnop_valid o = true) h ->
  exists s', pn_run pn_new_scanner h = Ok (s', pn_spec_outs h).
Proof. exact pn_exact. Qed.

Theorem C18_polling_scanner_never_panics : forall timeout h,
  Forall (fun o => sop_ok o = true) h ->
  exists now' s' outs,
    poll_run 0 (poll_new_scanner timeout) h = Ok (now', s', outs) /\
    check_C14 timeout h outs = true.
Proof. exact poll_trace_ok. Qed.

(** ** panics occur only where documented, and exactly there *)
Theorem C18_cc14_new_panics_iff : forall ch cn v, cc14_new ch cn v = Panic <-> 32 <= cn.
Proof. exact cc14_new_panic_iff. Qed.

Theorem C18_generic_constructors_panic_iff_wrong_category :
  forall M (fbu : bytes -> outcome M) t ch a c,
  channel_message fbu t ch a c =
  if N.ltb (smt_code t) 240 then fbu (build_status_byte (smt_code t) ch, a, c) else Panic.
Proof. exact channel_message_spec. Qed.

Theorem C18_checked_constructor_panics_iff_out_of_range : forall guards enabled max v,
  new_checked guards enabled = true ->
  nt_new guards enabled max v = if N.leb v max then Ok v else Panic.
Proof. exact nt_new_spec. Qed.

Theorem C18_shorthands_panic_iff_out_of_range : forall idx x y z,
  idx <= 18 -> idx <> 8 ->
  tu_ctor idx x y z =
  if ctor_args_ok idx x y z
  then Ok (ctor_layout idx (if Nat.leb 1 (ctor_arity idx) then x else 0)
                           (if Nat.leb 2 (ctor_arity idx) then y else 0)
                           (if Nat.leb 3 (ctor_arity idx) then z else 0))
  else Panic.
Proof. exact tu_ctor_spec. Qed.

Print Assumptions C18_accessors_never_panic.
Print Assumptions C18_structured_conversion_never_panics.
Print Assumptions C18_cc14_encoder_never_panics.
Print Assumptions C18_nrpn_encoder_never_panics.
Print Assumptions C18_cc14_scanner_never_panics.
Print Assumptions C18_nrpn_scanner_never_panics.
Print Assumptions C18_polling_scanner_never_panics.
Print Assumptions C18_cc14_new_panics_iff.
Print Assumptions C18_generic_constructors_panic_iff_wrong_category.
Print Assumptions C18_checked_constructor_panics_iff_out_of_range.
Print Assumptions C18_shorthands_panic_iff_out_of_range.
