(** C02 — classification and field accessors follow the MIDI 1.0 status table.
    Only property theorems, each closed by [exact <lemma>] (or [reflexivity] over a table
    regenerated from the source).

    [acc_obs M sb d1 d2 ts m] lists what every classification and accessor method of the trait
    returns for [m] (type, super type, main category, channel, key number, velocity, controller
    number, control value, program number, pressure amount, pitch bend value, is_note, is_note_on,
    is_note_off, the structured form, and the type's own super type / main category);
    [acc_spec b] is the MIDI 1.0 table (Spec/ShortMsgObs.v: [type_table], [acc_by_type]). *)
From Verif Require Import Base.Prelude Base.Enc Model.ShortMsg Spec.MidiTable Spec.Canon
  Spec.ShortMsgObs Generated.CtrlConsts Generated.EnumTables Proofs.ShortMsgFacts
  Proofs.ShortMsgProofs.
Open Scope N_scope.

Theorem C02_raw_accessors_follow_table : forall s a c,
  valid3 (s, a, c) = true ->
  acc_obs bytes raw_sb raw_d1 raw_d2 raw_ts (s, a, c) = acc_spec (s, a, c).
Proof. exact acc_raw_spec. Qed.

Theorem C02_structured_accessors_follow_table : forall s a c,
  valid3 (s, a, c) = true -> acc_obs_kind 1 (s, a, c) = acc_spec (s, a, c).
Proof. exact acc_struct_spec. Qed.

(** every implementor of the three byte getters (a third-party type included) *)
Theorem C02_any_implementor_follows_table :
  forall (M : Type) (sb d1 d2 : M -> N) (tb : M -> bytes) (ts : M -> outcome structured) (m : M),
  tb m = (sb m, d1 m, d2 m) ->
  ts m = g_to_structured_default tb m ->
  valid3 (sb m, d1 m, d2 m) = true ->
  acc_obs M sb d1 d2 ts m = acc_spec (sb m, d1 m, d2 m).
Proof. exact acc_generic_spec. Qed.

(** the type is determined by the status byte alone, for all 256 bytes *)
Theorem C02_type_from_status : forall s, s < 256 -> extract_type s = type_table s.
Proof. exact extract_type_table. Qed.

(** obligations tying the hand-written model to the source (tables regenerated on every run):
    the constant Channel Mode compares with, and the discriminants of the type enums *)
Definition same_codes (a b : list N) : bool :=
  Nat.eqb (length a) (length b) &&
  forallb (fun x => existsb (N.eqb x) b) a && forallb (fun x => existsb (N.eqb x) a) b.

(** [channel_mode_threshold_gen] is [None] when the body of the predicate has a shape the
    translator does not read; the constant is then tied by the correspondence only.  The enum
    discriminants are compared as sets (declaration order is not observable). *)
Theorem C02_model_matches_source_tables :
  (channel_mode_threshold_gen = Some channel_mode_threshold \/ channel_mode_threshold_gen = None) /\
  same_codes (map snd smt_table_gen) (map smt_code all_smtypes) = true /\
  same_codes (map snd tct_table_gen) (map tct_code [Fps24; Fps25; Fps30DropFrame; Fps30NonDrop]) = true.
Proof. split; [left; reflexivity || (right; reflexivity)|split; vm_compute; reflexivity]. Qed.

(** non-vacuity / reading aid: All Sound Off (controller 120) is a Channel Mode message *)
Theorem C02_example_all_sound_off :
  nth 1 (acc_spec (176, 120, 0)) 99%Z = 1%Z /\ nth 1 (acc_spec (176, 119, 0)) 99%Z = 0%Z.
Proof. split; reflexivity. Qed.

Print Assumptions C02_raw_accessors_follow_table.
Print Assumptions C02_structured_accessors_follow_table.
Print Assumptions C02_any_implementor_follows_table.
Print Assumptions C02_type_from_status.
Print Assumptions C02_model_matches_source_tables.
Print Assumptions C02_example_all_sound_off.
