(** C19 — deserialization enforces the same invariants as the constructors.
    Only property theorems.  How each type obtains Deserialize is read from the source on every
    run (Generated/SerdeShapes.v); the first theorem is the obligation that the source uses the
    validating shapes the theorems below are about.  The serde model itself (Model/Serde.v:
    serde, serde_derive, serde_repr and serde_json's value deserializer) is trusted and tied to
    the implementation by the correspondence check. *)
From Coq Require Import String.
From Verif Require Import Base.Prelude Model.ShortMsg Model.CC14 Model.Nrpn Model.Serde
  Spec.NrpnSpec Generated.SerdeShapes Proofs.SerdeProofs Proofs.SerdeRoundtrip.
Open Scope Z_scope.
Open Scope string_scope.

Fixpoint shape (name : string) (l : list (string * string)) : string :=
  match l with
  | [] => ""
  | (n, s) :: t => if String.eqb n name then s else shape name t
  end.

(** the source's serde attributes: none of the types with an invariant of its own -- the
    restricted integers, RawShortMessage, the two multi-field messages -- obtains Deserialize by
    a plain derive (which stores the fields without looking at them: the defects D4-D6), and
    ShortMessageType does not either (it goes through serde_repr's checked conversion).  The
    other shapes the translator reports ("try_from:<T>", a hand-written impl, one it does not
    recognise) are modelled as validating; that the implementation validates is then shown per
    input by the correspondence check. *)
Definition invariant_types : list string :=
  ["newtype"; "RawShortMessage"; "ControlChange14BitMessage"; "ParameterNumberMessage";
   "ShortMessageType"].

Definition not_plain_derive (shapes : list (string * string)) (name : string) : bool :=
  negb (String.eqb (shape name shapes) "derive").

Theorem C19_source_uses_validating_shapes :
  forallb (not_plain_derive serde_shapes) invariant_types = true.
Proof. reflexivity. Qed.

(** ... and in *every* feature configuration that enables serde (with or without std, with or
    without serde_repr): the [cfg_attr] conditions of the attributes are evaluated per
    configuration by the translator, so a validating attribute that is gated on another feature
    than the derive it belongs to shows up here *)
Theorem C19_validating_shapes_in_every_configuration :
  forallb (fun cs => forallb (not_plain_derive (snd cs)) invariant_types) serde_shapes_by_cfg = true
  /\ length serde_shapes_by_cfg = 4%nat.
Proof. split; reflexivity. Qed.

(** restricted integers in range (any JSON input) *)
Theorem C19_integers_in_range : forall rmax max v n,
  de_nt (shape "newtype" serde_shapes) rmax max v = Some n -> (n <= max)%N.
Proof. intros rmax max v n. apply de_nt_valid. reflexivity. Qed.

(** short messages with a valid status byte *)
Theorem C19_raw_valid : forall de_u7,
  (forall v n, de_u7 v = Some n -> (n < 128)%N) ->
  forall v b, de_raw de_u7 (shape "RawShortMessage" serde_shapes) v = Some b -> valid3 b = true.
Proof. intros de_u7 H v b. apply (de_raw_valid de_u7 H). reflexivity. Qed.

(** 14-bit Control Change messages with an MSB controller number of 0-31 *)
Theorem C19_cc14_valid : forall de_u14 de_channel de_cn,
  (forall v n, de_u14 v = Some n -> (n < 16384)%N) ->
  (forall v n, de_channel v = Some n -> (n < 16)%N) ->
  forall v m,
  de_cc14 de_u14 de_channel de_cn (shape "ControlChange14BitMessage" serde_shapes) v = Some m ->
  (cc_channel m < 16 /\ cc_msb_cn m < 32 /\ cc_value m < 16384)%N.
Proof.
  intros de_u14 de_channel de_cn H1 H2 v m.
  apply (de_cc14_valid de_u14 de_channel de_cn H1 H2). reflexivity.
Qed.

(** (N)RPN messages whose resolution, value and data type are consistent *)
Theorem C19_pn_valid : forall de_u14 de_channel,
  (forall v n, de_u14 v = Some n -> (n < 16384)%N) ->
  (forall v n, de_channel v = Some n -> (n < 16)%N) ->
  forall v m,
  de_pn de_u14 de_channel (shape "ParameterNumberMessage" serde_shapes) v = Some m ->
  pnmsg_wf m = true.
Proof.
  intros de_u14 de_channel H1 H2 v m.
  apply (de_pn_valid de_u14 de_channel H1 H2). reflexivity.
Qed.

(** structured messages and quarter frames: every field is a restricted integer *)
Theorem C19_structured_valid : forall de_u4 de_u7 de_u14 de_channel de_key de_cn,
  (forall v n, de_u4 v = Some n -> (n < 16)%N) ->
  (forall v n, de_u7 v = Some n -> (n < 128)%N) ->
  (forall v n, de_u14 v = Some n -> (n < 16384)%N) ->
  (forall v n, de_channel v = Some n -> (n < 16)%N) ->
  (forall v n, de_key v = Some n -> (n < 128)%N) ->
  (forall v n, de_cn v = Some n -> (n < 128)%N) ->
  forall v m, de_structured de_u4 de_u7 de_u14 de_channel de_key de_cn v = Some m ->
              struct_wf m = true.
Proof. exact de_structured_valid. Qed.

(** the natural representation of every valid value deserializes to an equal value *)
Theorem C19_integer_roundtrip : forall rmax max n,
  (n <= max)%N -> (max <= 65535)%N ->
  de_nt (shape "newtype" serde_shapes) rmax max (JInt (Z.of_N n)) = Some n.
Proof. intros rmax max n. apply de_nt_roundtrip. reflexivity. Qed.

Theorem C19_raw_roundtrip : forall de_u7,
  (forall n, (n < 128)%N -> de_u7 (jn n) = Some n) ->
  forall s a c, valid3 (s, a, c) = true ->
  de_raw de_u7 (shape "RawShortMessage" serde_shapes) (ser_raw (s, a, c)) = Some (s, a, c).
Proof. intros de_u7 H s a c. apply (raw_roundtrip de_u7 H). reflexivity. Qed.

Theorem C19_cc14_roundtrip : forall de_u14 de_channel de_cn,
  (forall n, (n < 16384)%N -> de_u14 (jn n) = Some n) ->
  (forall n, (n < 16)%N -> de_channel (jn n) = Some n) ->
  (forall n, (n < 128)%N -> de_cn (jn n) = Some n) ->
  forall ch n v, (ch < 16)%N -> (n < 32)%N -> (v < 16384)%N ->
  de_cc14 de_u14 de_channel de_cn (shape "ControlChange14BitMessage" serde_shapes)
          (ser_cc14 (mkCC14 ch n v)) = Some (mkCC14 ch n v).
Proof.
  intros de_u14 de_channel de_cn H1 H2 H3 ch n v.
  apply (cc14_roundtrip de_u14 de_channel de_cn H1 H2 H3). reflexivity.
Qed.

Theorem C19_pn_roundtrip : forall de_u14 de_channel,
  (forall n, (n < 16384)%N -> de_u14 (jn n) = Some n) ->
  (forall n, (n < 16)%N -> de_channel (jn n) = Some n) ->
  forall m, pnmsg_wf m = true ->
  de_pn de_u14 de_channel (shape "ParameterNumberMessage" serde_shapes) (ser_pn m) = Some m.
Proof.
  intros de_u14 de_channel H1 H2 m.
  apply (pn_roundtrip de_u14 de_channel H1 H2). reflexivity.
Qed.

Print Assumptions C19_source_uses_validating_shapes.
Print Assumptions C19_validating_shapes_in_every_configuration.
Print Assumptions C19_integers_in_range.
Print Assumptions C19_raw_valid.
Print Assumptions C19_cc14_valid.
Print Assumptions C19_pn_valid.
Print Assumptions C19_structured_valid.
Print Assumptions C19_integer_roundtrip.
Print Assumptions C19_raw_roundtrip.
Print Assumptions C19_cc14_roundtrip.
Print Assumptions C19_pn_roundtrip.
