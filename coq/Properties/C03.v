(** C03 — all ShortMessage implementations are observationally equivalent.
    Only property theorems, each closed by [exact <lemma>]. *)
From Verif Require Import Base.Prelude Base.Enc Model.ShortMsg Spec.MidiTable Spec.Canon
  Spec.ShortMsgObs Proofs.ShortMsgProofs.
Open Scope N_scope.

(** raw, the structured message converted from it, and any third-party implementor of the three
    getters with the same bytes give the same answer for every trait method *)
Theorem C03_structured_equals_raw : forall s a c,
  valid3 (s, a, c) = true ->
  acc_obs_kind 1 (s, a, c) = acc_obs bytes raw_sb raw_d1 raw_d2 raw_ts (s, a, c).
Proof.
  intros s a c Hv. rewrite (acc_struct_spec s a c Hv). symmetry. exact (acc_raw_spec s a c Hv).
Qed.

Theorem C03_third_party_equals_raw :
  forall (M : Type) (sb d1 d2 : M -> N) (tb : M -> bytes) (ts : M -> outcome structured) (m : M),
  tb m = (sb m, d1 m, d2 m) ->
  ts m = g_to_structured_default tb m ->
  valid3 (sb m, d1 m, d2 m) = true ->
  acc_obs M sb d1 d2 ts m = acc_obs bytes raw_sb raw_d1 raw_d2 raw_ts (sb m, d1 m, d2 m).
Proof.
  intros M sb d1 d2 tb ts m H1 H2 Hv. rewrite (acc_generic_spec M sb d1 d2 tb ts m H1 H2 Hv).
  symmetry. exact (acc_raw_spec _ _ _ Hv).
Qed.

(** the only permitted difference: StructuredShortMessage reports information-free data bytes
    as zero -- and no accessor can see that *)
Theorem C03_structured_bytes_differ_only_canonically : forall s a c,
  valid3 (s, a, c) = true -> omap struct_tb (struct_fbu (s, a, c)) = Ok (canon (s, a, c)).
Proof. exact struct_bytes_canon. Qed.

Theorem C03_accessors_blind_to_canonicalisation : forall s a c,
  valid3 (s, a, c) = true -> acc_spec (canon (s, a, c)) = acc_spec (s, a, c).
Proof. exact acc_spec_canon. Qed.

Print Assumptions C03_structured_equals_raw.
Print Assumptions C03_third_party_equals_raw.
Print Assumptions C03_structured_bytes_differ_only_canonically.
Print Assumptions C03_accessors_blind_to_canonicalisation.
