(** C16 (constants part): every [X_LSB] controller-number constant whose [X] is also a constant
    has value [X + 32]; all constants are valid controller numbers.  Over the generated table. *)
From Coq Require Import NArith List String Bool.
From Verif Require Import Base.Cfg Generated.CtrlConsts.
Import ListNotations.
Open Scope N_scope.
Open Scope string_scope.

Definition ends_with (suffix s : string) : bool :=
  let ls := String.length s in
  let lx := String.length suffix in
  Nat.leb lx ls && String.eqb (substring (ls - lx) lx s) suffix.

Definition strip_suffix (suffix s : string) : string :=
  substring 0 (String.length s - String.length suffix) s.

Fixpoint lookup (name : string) (l : list (string * N)) : option N :=
  match l with
  | [] => None
  | (n, v) :: t => if String.eqb n name then Some v else lookup name t
  end.

(** the value [X_LSB] must have according to the MIDI rule, if [X] is a constant *)
Definition lsb_expected (tbl : list (string * N)) (name : string) : option N :=
  if ends_with "_LSB" name then
    match lookup (strip_suffix "_LSB" name) tbl with
    | Some x => Some (x + 32)
    | None => None
    end
  else None.

Definition const_ok (tbl : list (string * N)) (p : string * N) : bool :=
  N.ltb (snd p) 128 &&
  match lsb_expected tbl (fst p) with
  | Some e => N.eqb (snd p) e
  | None => true
  end.

Definition consts_ok : bool := forallb (const_ok ctrl_consts) ctrl_consts.

(** how many constants the LSB rule actually constrains (non-vacuity); constants whose
    initialiser is not a literal are outside the table and tied by the correspondence only *)
Definition lsb_constrained : nat :=
  List.length (filter (fun p => match lsb_expected ctrl_consts (fst p) with Some _ => true | None => false end)
            ctrl_consts).
Definition lsb_unparsed : nat :=
  List.length (filter (ends_with "_LSB") ctrl_const_unparsed).

Definition lsb_suffix : string := "_LSB".
