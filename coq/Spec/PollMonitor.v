(** C14 as a runtime monitor: a decidable predicate on the *trace* of a polling scanner
    (inputs with timestamps and the messages reported for each call).  The monitor keeps, per
    channel, only history observers (latest number bytes, most recent controller-6 / 38 bytes and
    whether the controller-6 byte has been reported) -- nothing of the scanner's phases.
    It is evaluated on the implementation's trace (violation oracle) and proved to accept every
    trace of the model (Proofs/PollMonitorProofs.v).  Definitions only. *)
From Verif Require Import Base.Prelude Model.ShortMsg Model.PerChannel Model.CC14 Model.Nrpn
  Model.Polling Spec.MidiTable.

Inductive c6status := Fresh | Rep7 | In14.

Record c6info : Type := mkC6 {
  c6_value : N;
  c6_time : N;
  c6_status : c6status;
  c6_counted : bool   (* received while the parameter number was complete *)
}.

Record mon : Type := mkMon {
  m_num_msb : option N;
  m_num_lsb : option N;
  m_reg : bool;
  m_last6 : option c6info;
  m_last38 : option N
}.

Definition mon_init : mon := mkMon None None false None None.

Definition mon_number (m : mon) : option N :=
  match m_num_msb m, m_num_lsb m with
  | Some h, Some l => Some (128 * h + l)
  | _, _ => None
  end.

Definition pn_eqb (a b : pnmsg) : bool :=
  N.eqb (pn_channel a) (pn_channel b) && N.eqb (pn_number a) (pn_number b) &&
  N.eqb (pn_value a) (pn_value b) && Bool.eqb (pn_is_registered a) (pn_is_registered b) &&
  Bool.eqb (pn_is_14_bit a) (pn_is_14_bit b) && datatype_eqb (pn_data_type a) (pn_data_type b).

(** clause (a): channel of the triggering call, number and registered flag from the latest number
    bytes received before the call; nothing before the number is complete *)
Definition header_ok (m : mon) (c : N) (r : pnmsg) : bool :=
  N.eqb (pn_channel r) c &&
  match mon_number m with
  | Some num => N.eqb (pn_number r) num
  | None => false
  end &&
  Bool.eqb (pn_is_registered r) (m_reg m).

(** one reported message at a call on channel [c] that fed controller [n] with value [v]
    ([n] = 128 for a poll, which feeds nothing).  [pre6] is the most recent controller-6 byte
    received strictly before the call, [new6] the controller-6 byte fed by this call (if any).
    Returns the updated pair if the report is justified (clauses a, b, c). *)
Definition mark (st : c6status) (i : c6info) : c6info :=
  mkC6 (c6_value i) (c6_time i) st (c6_counted i).

Definition report_ok (m : mon) (c n v : N) (pre6 new6 : option c6info) (r : pnmsg)
  : option (option c6info * option c6info) :=
  if negb (header_ok m c r) then None
  else if pn_is_14_bit r then
    (* 14-bit data entry: most recent cc6 and cc38 up to and including this message *)
    let cur38 := if N.eqb n 38 then Some v else m_last38 m in
    if negb (datatype_eqb (pn_data_type r) DataEntry) then None
    else
      match new6, pre6, cur38 with
      | Some i, _, Some l =>
          if N.eqb (pn_value r) (128 * c6_value i + l) then Some (pre6, Some (mark In14 i))
          else None
      | None, Some i, Some l =>
          if N.eqb (pn_value r) (128 * c6_value i + l) then Some (Some (mark In14 i), new6)
          else None
      | _, _, _ => None
      end
  else
    match pn_data_type r with
    | DataEntry =>
        (* 7-bit: the most recent cc6 received strictly before this call, not reported before *)
        match pre6 with
        | Some i =>
            match c6_status i with
            | Fresh =>
                if N.eqb (pn_value r) (c6_value i) then Some (Some (mark Rep7 i), new6) else None
            | _ => None
            end
        | None => None
        end
    | DataIncrement => if N.eqb n 96 && N.eqb (pn_value r) v then Some (pre6, new6) else None
    | DataDecrement => if N.eqb n 97 && N.eqb (pn_value r) v then Some (pre6, new6) else None
    end.

Definition is_fresh_counted (o : option c6info) : bool :=
  match o with
  | Some i => match c6_status i with Fresh => c6_counted i | _ => false end
  | None => false
  end.

Definition is_pn_cn (n : N) : bool :=
  N.eqb n 6 || N.eqb n 38 || N.eqb n 96 || N.eqb n 97 || N.eqb n 98 || N.eqb n 99 ||
  N.eqb n 100 || N.eqb n 101.

(** a feed of Control Change ([n], [v]) on the monitored channel [c] at time [t], which returned
    [(o1, o2)].  [None] = the trace violates C14. *)
Definition mon_feed (m : mon) (c n v t : N) (o1 o2 : option pnmsg) : option mon :=
  (* clause (e): two results only for inc/dec after a pending MSB, data entry first *)
  let shape_ok :=
    match o1, o2 with
    | _, None => true
    | None, Some _ => false
    | Some r1, Some r2 =>
        (N.eqb n 96 || N.eqb n 97) && negb (pn_is_14_bit r1) &&
        datatype_eqb (pn_data_type r1) DataEntry && negb (pn_is_14_bit r2) &&
        negb (datatype_eqb (pn_data_type r2) DataEntry)
    end in
  if negb shape_ok then None
  else
    let number_complete := match mon_number m with Some _ => true | None => false end in
    let new6 := if N.eqb n 6 then Some (mkC6 v t Fresh number_complete) else None in
    let st0 := Some (m_last6 m, new6) in
    let apply := fun (st : option (option c6info * option c6info)) (o : option pnmsg) =>
                   match st, o with
                   | None, _ => None
                   | Some p, None => Some p
                   | Some (pre6, n6), Some r => report_ok m c n v pre6 n6 r
                   end in
    match apply (apply st0 o1) o2 with
    | None => None
    | Some (pre6', new6') =>
        (* clause (d): a contributing message must settle an outstanding cc6 *)
        if is_pn_cn n && is_fresh_counted (m_last6 m) && is_fresh_counted pre6' then None
        else
          Some (mkMon
                  (if N.eqb n 99 || N.eqb n 101 then Some v else m_num_msb m)
                  (if N.eqb n 98 || N.eqb n 100 then Some v else m_num_lsb m)
                  (if N.leb 98 n && N.leb n 101 then N.leb 100 n else m_reg m)
                  (if N.eqb n 6 then new6' else pre6')
                  (if N.eqb n 38 then Some v else m_last38 m))
    end.

(** a poll of the monitored channel at time [t] which returned [o] *)
Definition mon_poll (timeout : N) (m : mon) (c t : N) (o : option pnmsg) : option mon :=
  let r :=
    match o with
    | None => Some (m_last6 m)
    | Some r =>
        if pn_is_14_bit r || negb (datatype_eqb (pn_data_type r) DataEntry) then None
        else match report_ok m c 128 0 (m_last6 m) None r with
             | Some (p, _) => Some p
             | None => None
             end
    end in
  match r with
  | None => None
  | Some last6' =>
      (* clause (d): the first poll after the timeout must report an outstanding cc6 *)
      let due := match m_last6 m with
                 | Some i => is_fresh_counted (m_last6 m) && N.leb timeout (t - c6_time i)
                 | None => false
                 end in
      if due && is_fresh_counted last6' then None
      else Some (mkMon (m_num_msb m) (m_num_lsb m) (m_reg m) last6' (m_last38 m))
  end.

(** * the 16-channel monitor over a scanner history with its outputs *)
Definition mons := list mon.
Definition mons_init : mons := replicate 16 mon_init.

Definition none2 (o : out2) : bool :=
  match o with (None, None) => true | _ => false end.

Definition mons_step (timeout : N) (now : N) (ms : mons) (o : sop) (out : out2)
  : option (N * mons) :=
  match o with
  | OFeed b =>
      match channel_table (fst (fst b)) with
      | None => if none2 out then Some (now, ms) else None
      | Some c =>
          match as_cc b, nth_error ms (N.to_nat c) with
          | Some (_, n, v), Some m =>
              match mon_feed m c n v now (fst out) (snd out) with
              | Some m' => Some (now, upd ms (N.to_nat c) m')
              | None => None
              end
          | None, _ => if none2 out then Some (now, ms) else None
          | _, None => None
          end
      end
  | OPoll c =>
      match nth_error ms (N.to_nat c), snd out with
      | Some m, None =>
          match mon_poll timeout m c now (fst out) with
          | Some m' => Some (now, upd ms (N.to_nat c) m')
          | None => None
          end
      | _, _ => None
      end
  | OReset => if none2 out then Some (now, map (fun _ => mon_init) ms) else None
  | OTick dt => if none2 out then Some (now + dt, ms) else None
  end.

Fixpoint mons_run (timeout now : N) (ms : mons) (h : list sop) (outs : list out2) : bool :=
  match h, outs with
  | [], [] => true
  | o :: h', out :: outs' =>
      match mons_step timeout now ms o out with
      | Some (now', ms') => mons_run timeout now' ms' h' outs'
      | None => false
      end
  | _, _ => false
  end.

(** C14 for a whole history from a new scanner *)
Definition check_C14 (timeout : N) (h : list sop) (outs : list out2) : bool :=
  mons_run timeout 0 mons_init h outs.
