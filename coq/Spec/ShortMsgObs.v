(** Observation encoders for short messages: the accessor observation of an implementor
    ([acc_obs], generic in the implementor) and its specification read off the MIDI tables
    ([acc_spec]).  Definitions only. *)
From Verif Require Import Base.Prelude Base.Enc Model.ShortMsg Model.Factory Spec.MidiTable Spec.Canon.
Open Scope Z_scope.

(** * short messages: C01 / C02 / C03 / C06 *)
Definition enc_tcqf (f : tcqf) : list Z :=
  match f with
  | FrameCountLsNibble v => [0; zN v; 0]
  | FrameCountMsNibble v => [1; zN v; 0]
  | SecondsCountLsNibble v => [2; zN v; 0]
  | SecondsCountMsNibble v => [3; zN v; 0]
  | MinutesCountLsNibble v => [4; zN v; 0]
  | MinutesCountMsNibble v => [5; zN v; 0]
  | HoursCountLsNibble v => [6; zN v; 0]
  | TcLast b t => [7; zb b; zN (tct_code t)]
  end.

Definition enc_struct (m : structured) : list Z :=
  match m with
  | SNoteOff ch a b => [0; zN ch; zN a; zN b]
  | SNoteOn ch a b => [1; zN ch; zN a; zN b]
  | SPolyphonicKeyPressure ch a b => [2; zN ch; zN a; zN b]
  | SControlChange ch a b => [3; zN ch; zN a; zN b]
  | SProgramChange ch a => [4; zN ch; zN a; 0]
  | SChannelPressure ch a => [5; zN ch; zN a; 0]
  | SPitchBendChange ch v => [6; zN ch; zN v; 0]
  | SSystemExclusiveStart => [7; 0; 0; 0]
  | STimeCodeQuarterFrame f => 8 :: enc_tcqf f
  | SSongPositionPointer p => [9; zN p; 0; 0]
  | SSongSelect n => [10; zN n; 0; 0]
  | STuneRequest => [11; 0; 0; 0]
  | SSystemExclusiveEnd => [12; 0; 0; 0]
  | STimingClock => [13; 0; 0; 0]
  | SStart => [14; 0; 0; 0]
  | SContinue => [15; 0; 0; 0]
  | SStop => [16; 0; 0; 0]
  | SActiveSensing => [17; 0; 0; 0]
  | SSystemReset => [18; 0; 0; 0]
  | SSystemCommonUndefined1 => [19; 0; 0; 0]
  | SSystemCommonUndefined2 => [20; 0; 0; 0]
  | SSystemRealTimeUndefined1 => [21; 0; 0; 0]
  | SSystemRealTimeUndefined2 => [22; 0; 0; 0]
  end.

Definition dec_tcqf (i x y : Z) : tcqf :=
  match i with
  | 0 => FrameCountLsNibble (nz x)
  | 1 => FrameCountMsNibble (nz x)
  | 2 => SecondsCountLsNibble (nz x)
  | 3 => SecondsCountMsNibble (nz x)
  | 4 => MinutesCountLsNibble (nz x)
  | 5 => MinutesCountMsNibble (nz x)
  | 6 => HoursCountLsNibble (nz x)
  | _ => TcLast (Z.eqb x 1)
           (match tct_of_code (nz y) with Some t => t | None => Fps24 end)
  end.

Definition dec_struct (v x y z : Z) : structured :=
  match v with
  | 0 => SNoteOff (nz x) (nz y) (nz z)
  | 1 => SNoteOn (nz x) (nz y) (nz z)
  | 2 => SPolyphonicKeyPressure (nz x) (nz y) (nz z)
  | 3 => SControlChange (nz x) (nz y) (nz z)
  | 4 => SProgramChange (nz x) (nz y)
  | 5 => SChannelPressure (nz x) (nz y)
  | 6 => SPitchBendChange (nz x) (nz y)
  | 7 => SSystemExclusiveStart
  | 8 => STimeCodeQuarterFrame (dec_tcqf x y z)
  | 9 => SSongPositionPointer (nz x)
  | 10 => SSongSelect (nz x)
  | 11 => STuneRequest
  | 12 => SSystemExclusiveEnd
  | 13 => STimingClock
  | 14 => SStart
  | 15 => SContinue
  | 16 => SStop
  | 17 => SActiveSensing
  | 18 => SSystemReset
  | 19 => SSystemCommonUndefined1
  | 20 => SSystemCommonUndefined2
  | 21 => SSystemRealTimeUndefined1
  | _ => SSystemRealTimeUndefined2
  end.

Definition zo {A} (f : A -> Z) (o : outcome A) : Z := match o with Ok a => f a | Panic => ZPANIC end.
Definition zol {A} (n : nat) (f : A -> list Z) (o : outcome A) : list Z :=
  match o with Ok a => f a | Panic => repeat ZPANIC n end.

(** the accessor observation of an implementor (tag 20 layout) *)
Definition acc_obs (M : Type) (sb d1 d2 : M -> N) (ts : M -> outcome structured) (m : M) : list Z :=
  [zo (fun t => zN (smt_code t)) (g_type M sb m);
   zo (fun x => zN (super_code x)) (g_super_type M sb d1 m);
   zo (fun x => zN (main_code x)) (g_main_category M sb d1 m);
   zo zopt (g_channel M sb d1 m);
   zo zopt (g_key_number M sb d1 m);
   zo zopt (g_velocity M sb d2 m);
   zo zopt (g_controller_number M sb d1 m);
   zo zopt (g_control_value M sb d2 m);
   zo zopt (g_program_number M sb d1 m);
   zo zopt (g_pressure_amount M sb d1 d2 m);
   zo zopt (g_pitch_bend_value M sb d1 d2 m);
   zo zb (g_is_note M sb m);
   zo zb (g_is_note_on M ts m);
   zo zb (g_is_note_off M ts m)]
  ++ zol 4 enc_struct (ts m)
  ++ [zo (fun t => zN (fuzzy_code (smt_super t))) (g_type M sb m);
      zo (fun t => zN (main_code (fuzzy_main (smt_super t)))) (g_type M sb m)].

Definition acc_obs_kind (k : Z) (b : bytes) : list Z :=
  if Z.eqb k 1 then
    match struct_of_bytes b with
    | Ok m => acc_obs structured struct_sb struct_d1 struct_d2 struct_ts m
    | Panic => [ZPANIC]
    end
  else acc_obs bytes raw_sb raw_d1 raw_d2 raw_ts b.

(** The MIDI 1.0 message table, indexed by message type: which fields a message of each type
    carries and where (data byte 1 = [a], data byte 2 = [c]; 14-bit values are [128 * c + a]).
    Together with [type_table] (status byte -> type) and [s mod 16] (channel) this is the
    specification of every accessor. *)
Definition is_channel_type (t : smtype) : bool :=
  match t with
  | TNoteOff | TNoteOn | TPolyphonicKeyPressure | TControlChange | TProgramChange
  | TChannelPressure | TPitchBendChange => true
  | _ => false
  end.

Definition super_of_type (t : smtype) (a : N) : super :=
  match t with
  | TControlChange => if N.leb 120 a && N.leb a 127 then ChannelMode else ChannelVoice
  | TSystemExclusiveStart => SystemExclusive
  | TTimeCodeQuarterFrame | TSongPositionPointer | TSongSelect | TSystemCommonUndefined1
  | TSystemCommonUndefined2 | TTuneRequest | TSystemExclusiveEnd => SystemCommon
  | TTimingClock | TSystemRealTimeUndefined1 | TStart | TContinue | TStop
  | TSystemRealTimeUndefined2 | TActiveSensing | TSystemReset => SystemRealTime
  | _ => ChannelVoice
  end.

Definition fuzzy_of_type (t : smtype) : fuzzy_super :=
  if is_channel_type t then FChannel
  else match t with
       | TSystemExclusiveStart => FSystemExclusive
       | TTimeCodeQuarterFrame | TSongPositionPointer | TSongSelect | TSystemCommonUndefined1
       | TSystemCommonUndefined2 | TTuneRequest | TSystemExclusiveEnd => FSystemCommon
       | _ => FSystemRealTime
       end.

(** quarter frame read arithmetically: 0nnn dddd *)
Definition qf_fields (a : N) : list Z :=
  if N.ltb (a / 16) 7 then [zN (a / 16); zN (a mod 16); 0]
  else [7; zN (a mod 2); zN ((a / 2) mod 4)].

(** the structured form: variant index (as numbered in the harness) and fields *)
Definition struct_by_type (t : smtype) (ch a c : N) : list Z :=
  match t with
  | TNoteOff => [0; zN ch; zN a; zN c]
  | TNoteOn => [1; zN ch; zN a; zN c]
  | TPolyphonicKeyPressure => [2; zN ch; zN a; zN c]
  | TControlChange => [3; zN ch; zN a; zN c]
  | TProgramChange => [4; zN ch; zN a; 0]
  | TChannelPressure => [5; zN ch; zN a; 0]
  | TPitchBendChange => [6; zN ch; zN (128 * c + a); 0]
  | TSystemExclusiveStart => [7; 0; 0; 0]
  | TTimeCodeQuarterFrame => 8 :: qf_fields a
  | TSongPositionPointer => [9; zN (128 * c + a); 0; 0]
  | TSongSelect => [10; zN a; 0; 0]
  | TTuneRequest => [11; 0; 0; 0]
  | TSystemExclusiveEnd => [12; 0; 0; 0]
  | TTimingClock => [13; 0; 0; 0]
  | TStart => [14; 0; 0; 0]
  | TContinue => [15; 0; 0; 0]
  | TStop => [16; 0; 0; 0]
  | TActiveSensing => [17; 0; 0; 0]
  | TSystemReset => [18; 0; 0; 0]
  | TSystemCommonUndefined1 => [19; 0; 0; 0]
  | TSystemCommonUndefined2 => [20; 0; 0; 0]
  | TSystemRealTimeUndefined1 => [21; 0; 0; 0]
  | TSystemRealTimeUndefined2 => [22; 0; 0; 0]
  end.

Definition acc_by_type (t : smtype) (ch a c : N) : list Z :=
  let chan := is_channel_type t in
  [zN (smt_code t);
   zN (super_code (super_of_type t a));
   zN (main_code (if chan then CatChannel else CatSystem));
   (if chan then zN ch else ZNONE);
   (match t with TNoteOff | TNoteOn | TPolyphonicKeyPressure => zN a | _ => ZNONE end);
   (match t with TNoteOff | TNoteOn => zN c | _ => ZNONE end);
   (match t with TControlChange => zN a | _ => ZNONE end);
   (match t with TControlChange => zN c | _ => ZNONE end);
   (match t with TProgramChange => zN a | _ => ZNONE end);
   (match t with TPolyphonicKeyPressure => zN c | TChannelPressure => zN a | _ => ZNONE end);
   (match t with TPitchBendChange => zN (128 * c + a) | _ => ZNONE end);
   zb (match t with TNoteOff | TNoteOn => true | _ => false end);
   zb (match t with TNoteOn => N.ltb 0 c | _ => false end);
   zb (match t with TNoteOff => true | TNoteOn => N.eqb c 0 | _ => false end)]
  ++ struct_by_type t ch a c
  ++ [zN (fuzzy_code (fuzzy_of_type t)); zN (main_code (if chan then CatChannel else CatSystem))].

Definition acc_spec (b : bytes) : list Z :=
  let '(s, a, c) := b in
  match type_table s with
  | Some t => acc_by_type t (s mod 16) a c
  | None => [ZPANIC]
  end.

(** bytes an implementor of kind [k] reports for a message made from [b] *)
Definition kind_bytes (k : Z) (b : bytes) : outcome bytes :=
  if Z.eqb k 1 then omap struct_tb (struct_of_bytes b) else Ok b.

