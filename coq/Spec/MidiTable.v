(** Independent reading of the MIDI 1.0 status table, written arithmetically
    (not from the match arms of the implementation).  Definitions only. *)
From Verif Require Import Base.Prelude Model.ShortMsg.

(** message type determined by the status byte alone *)
Definition type_table (s : N) : option smtype :=
  if N.ltb s 128 then None
  else if N.ltb s 240 then
    match s / 16 with
    | 8 => Some TNoteOff
    | 9 => Some TNoteOn
    | 10 => Some TPolyphonicKeyPressure
    | 11 => Some TControlChange
    | 12 => Some TProgramChange
    | 13 => Some TChannelPressure
    | _ => Some TPitchBendChange
    end
  else
    match s - 240 with
    | 0 => Some TSystemExclusiveStart
    | 1 => Some TTimeCodeQuarterFrame
    | 2 => Some TSongPositionPointer
    | 3 => Some TSongSelect
    | 4 => Some TSystemCommonUndefined1
    | 5 => Some TSystemCommonUndefined2
    | 6 => Some TTuneRequest
    | 7 => Some TSystemExclusiveEnd
    | 8 => Some TTimingClock
    | 9 => Some TSystemRealTimeUndefined1
    | 10 => Some TStart
    | 11 => Some TContinue
    | 12 => Some TStop
    | 13 => Some TSystemRealTimeUndefined2
    | 14 => Some TActiveSensing
    | 15 => Some TSystemReset
    | _ => None
    end.

(** channel: present exactly for status bytes 0x80..0xEF, equal to the low nibble *)
Definition channel_table (s : N) : option N :=
  if N.leb 128 s && N.ltb s 240 then Some (s mod 16) else None.

(** a Control Change on channel [c] with controller [n] and value [v], read arithmetically *)
Definition as_cc (b : bytes) : option (N * N * N) :=
  let '(s, a, c) := b in
  if N.eqb (s / 16) 11 then Some (s mod 16, a, c) else None.

(** super type from the MIDI tables: Channel Mode <=> Control Change with controller 120-127;
    0xF0 exclusive; 0xF1-0xF7 common; 0xF8-0xFF real time *)
Definition super_table (s d1 : N) : super :=
  if N.ltb s 240 then
    if N.eqb (s / 16) 11 && N.leb 120 d1 && N.leb d1 127 then ChannelMode else ChannelVoice
  else if N.eqb s 240 then SystemExclusive
  else if N.ltb s 248 then SystemCommon
  else SystemRealTime.

Definition main_table (s : N) : maincat := if N.ltb s 240 then CatChannel else CatSystem.
