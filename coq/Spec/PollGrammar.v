(** C12: the documented sequence forms of the polling (N)RPN scanner, as a grammar-shaped
    reference transducer.  It accepts exactly the per-channel streams that are concatenations of
    the documented forms after a number selection x,y (in either order) --
      MSB alone | MSB then LSB | a further LSB after a 14-bit value |
      LSB then MSB directly after x,y | increment / decrement
    -- with polls, time and non-contributing messages anywhere in between (a poll strictly inside
    a two-byte form must come before the timeout), and says what must be reported at each call:
    a lone MSB as 7-bit data entry at the next relevant message or at the first poll after the
    timeout, every completed pair as 14-bit at its second byte, a further LSB as 14-bit with the
    retained MSB, increments/decrements immediately.  Definitions only. *)
From Verif Require Import Base.Prelude Model.ShortMsg Model.PerChannel Model.CC14 Model.Nrpn
  Model.Polling Spec.MidiTable.

Inductive gstate : Type :=
| G0                                             (* before the first number selection *)
| GSel1 (is_msb : bool) (x : N) (reg : bool)     (* first byte of a selection received *)
| GFresh (hi lo : N) (reg : bool)                (* directly after x,y *)
| GIdle (hi lo : N) (reg : bool)                 (* number selected, nothing pending *)
| GLsb (hi lo : N) (reg : bool) (l t0 : N)       (* LSB-first pair begun *)
| GMsb (hi lo : N) (reg : bool) (m t0 : N)       (* MSB received, waiting *)
| GC14 (hi lo : N) (reg : bool) (m : N).         (* a 14-bit value was completed *)

Definition num (hi lo : N) : N := 128 * hi + lo.
Definition m7 (c hi lo : N) (reg : bool) (v : N) (dt : datatype) : pnmsg :=
  mkPN c (num hi lo) v reg false dt.
Definition m14 (c hi lo : N) (reg : bool) (m l : N) : pnmsg :=
  mkPN c (num hi lo) (128 * m + l) reg true DataEntry.

(** a parameter-number byte (controller 98-101) *)
Definition g_number (g : gstate) (c : N) (is_msb reg : bool) (v : N) : option (gstate * out2) :=
  match g with
  | G0 => Some (GSel1 is_msb v reg, (None, None))
  | GSel1 k x r =>
      if negb (Bool.eqb k is_msb) && Bool.eqb r reg
      then Some (if k then GFresh x v reg else GFresh v x reg, (None, None))
      else None
  | GFresh _ _ _ | GIdle _ _ _ | GC14 _ _ _ _ => Some (GSel1 is_msb v reg, (None, None))
  | GMsb hi lo r m _ => Some (GSel1 is_msb v reg, (Some (m7 c hi lo r m DataEntry), None))
  | GLsb _ _ _ _ _ => None
  end.

(** data entry LSB (controller 38) *)
Definition g_lsb (g : gstate) (c v t : N) : option (gstate * out2) :=
  match g with
  | GFresh hi lo r => Some (GLsb hi lo r v t, (None, None))
  | GMsb hi lo r m _ => Some (GC14 hi lo r m, (Some (m14 c hi lo r m v), None))
  | GC14 hi lo r m => Some (GC14 hi lo r m, (Some (m14 c hi lo r m v), None))
  | _ => None
  end.

(** data entry MSB (controller 6) *)
Definition g_msb (g : gstate) (c v t : N) : option (gstate * out2) :=
  match g with
  | GFresh hi lo r | GIdle hi lo r | GC14 hi lo r _ => Some (GMsb hi lo r v t, (None, None))
  | GMsb hi lo r m _ => Some (GMsb hi lo r v t, (Some (m7 c hi lo r m DataEntry), None))
  | GLsb hi lo r l _ => Some (GC14 hi lo r v, (Some (m14 c hi lo r v l), None))
  | _ => None
  end.

(** data increment / decrement (controller 96 / 97) *)
Definition g_incdec (g : gstate) (c : N) (dt : datatype) (v : N) : option (gstate * out2) :=
  match g with
  | GFresh hi lo r | GIdle hi lo r | GC14 hi lo r _ =>
      Some (GIdle hi lo r, (Some (m7 c hi lo r v dt), None))
  | GMsb hi lo r m _ =>
      Some (GIdle hi lo r, (Some (m7 c hi lo r m DataEntry), Some (m7 c hi lo r v dt)))
  | _ => None
  end.

(** a feed of Control Change ([n], [v]) on channel [c] at time [t]; [None] = not a documented form *)
Definition g_feed (g : gstate) (c n v t : N) : option (gstate * out2) :=
  if N.eqb n 99 then g_number g c true false v
  else if N.eqb n 98 then g_number g c false false v
  else if N.eqb n 101 then g_number g c true true v
  else if N.eqb n 100 then g_number g c false true v
  else if N.eqb n 38 then g_lsb g c v t
  else if N.eqb n 6 then g_msb g c v t
  else if N.eqb n 96 then g_incdec g c DataIncrement v
  else if N.eqb n 97 then g_incdec g c DataDecrement v
  else Some (g, (None, None)).                       (* non-contributing controller *)

(** a poll of the channel at time [t] *)
Definition g_poll (timeout : N) (g : gstate) (c t : N) : option (gstate * option pnmsg) :=
  match g with
  | GMsb hi lo r m t0 =>
      if N.leb timeout (t - t0) then Some (GIdle hi lo r, Some (m7 c hi lo r m DataEntry))
      else Some (g, None)
  | GLsb _ _ _ _ t0 =>
      if N.leb timeout (t - t0) then None   (* a late poll inside the LSB,MSB form *)
      else Some (g, None)
  | _ => Some (g, None)
  end.

(** * 16 channels over a scanner history; resets are not part of any documented form *)
Definition gstates := list gstate.
Definition gstates_init : gstates := replicate 16 G0.

Definition g_step (timeout now : N) (gs : gstates) (o : sop)
  : option (N * gstates * out2 * bool (* first token of its channel *)) :=
  match o with
  | OFeed b =>
      match channel_table (fst (fst b)), as_cc b with
      | Some c, Some (_, n, v) =>
          match nth_error gs (N.to_nat c) with
          | Some g =>
              match g_feed g c n v now with
              | Some (g', out) =>
                  Some (now, upd gs (N.to_nat c) g', out, match g with G0 => true | _ => false end)
              | None => None
              end
          | None => None
          end
      | _, _ => Some (now, gs, (None, None), false)
      end
  | OPoll c =>
      match nth_error gs (N.to_nat c) with
      | Some g =>
          match g_poll timeout g c now with
          | Some (g', out) =>
              Some (now, upd gs (N.to_nat c) g', (out, None), match g with G0 => true | _ => false end)
          | None => None
          end
      | None => None
      end
  | OReset => None
  | OTick dt => Some (now + dt, gs, (None, None), false)
  end.

(** the expected outputs of a grammar-conforming history ([None]: not conforming); the flag
    marks the calls on a channel up to and including its first number byte, at which a value
    still pending from earlier traffic may be flushed as a 7-bit data entry *)
Fixpoint g_run (timeout now : N) (gs : gstates) (h : list sop) : option (list (out2 * bool)) :=
  match h with
  | [] => Some []
  | o :: h' =>
      match g_step timeout now gs o with
      | Some (now', gs', out, first) =>
          match g_run timeout now' gs' h' with
          | Some r => Some ((out, first) :: r)
          | None => None
          end
      | None => None
      end
  end.
