(** Shared vocabulary for the scanner-level properties C15 / C16 / C17.  Definitions only. *)
From Verif Require Import Base.Prelude Model.ShortMsg Model.PerChannel Spec.MidiTable.

(** which operations of an interleaved stream concern channel [c]: its own feeds and polls,
    every reset, and the passage of time *)
Definition relevant (c : N) (o : sop) : bool :=
  match o with
  | OFeed b => optN_eqb (channel_table (fst (fst b))) (Some c)
  | OPoll c' => N.eqb c' c
  | OReset | OTick _ => true
  end.

(** outputs of the interleaved run at the operations that concern [c] *)
Fixpoint outs_on (Out : Type) (c : N) (h : list sop) (outs : list Out) : list Out :=
  match h, outs with
  | o :: h', x :: outs' =>
      if relevant c o then x :: outs_on Out c h' outs' else outs_on Out c h' outs'
  | _, _ => []
  end.

(** a message that cannot be part of a 14-bit Control Change message *)
Definition noncontrib_cc14 (b : bytes) : bool :=
  match as_cc b with
  | Some (_, n, _) => N.leb 64 n
  | None => true
  end.

(** a message that cannot be part of an (N)RPN message *)
Definition noncontrib_pn (b : bytes) : bool :=
  match as_cc b with
  | Some (_, n, _) =>
      negb (N.eqb n 6 || N.eqb n 38 || N.eqb n 96 || N.eqb n 97 || N.eqb n 98 || N.eqb n 99
            || N.eqb n 100 || N.eqb n 101)
  | None => true
  end.
