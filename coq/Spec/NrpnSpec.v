(** History-level specification of the (N)RPN encoder and scanner (C09, C10, C11).
    Observers scan the history (most recent first) since creation or the last reset, with
    arithmetic readings of the bytes.  Definitions only. *)
From Verif Require Import Base.Prelude Model.ShortMsg Model.CC14 Model.Nrpn Spec.MidiTable.

Definition is_number_cn (n : N) : bool := N.leb 98 n && N.leb n 101.

(** control value of the most recent Control Change on channel [c] whose controller satisfies [p] *)
Fixpoint latest_cc (p : N -> bool) (c : N) (hr : list pnop) : option N :=
  match hr with
  | [] => None
  | NReset :: _ => None
  | NFeed b :: t =>
      match as_cc b with
      | Some (c', n, v) => if N.eqb c' c && p n then Some v else latest_cc p c t
      | None => latest_cc p c t
      end
  end.

Definition latest_number_msb := latest_cc (fun n => N.eqb n 99 || N.eqb n 101).
Definition latest_number_lsb := latest_cc (fun n => N.eqb n 98 || N.eqb n 100).

(** whether the most recent number byte (controller 98-101) on [c] was a registered one (100/101) *)
Fixpoint latest_registered (c : N) (hr : list pnop) : bool :=
  match hr with
  | [] => false
  | NReset :: _ => false
  | NFeed b :: t =>
      match as_cc b with
      | Some (c', n, _) =>
          if N.eqb c' c && is_number_cn n then N.leb 100 n else latest_registered c t
      | None => latest_registered c t
      end
  end.

(** the most recent controller-38 value on [c] received after the most recent number byte *)
Fixpoint v38_after_number (c : N) (hr : list pnop) : option N :=
  match hr with
  | [] => None
  | NReset :: _ => None
  | NFeed b :: t =>
      match as_cc b with
      | Some (c', n, v) =>
          if N.eqb c' c then
            if N.eqb n 38 then Some v
            else if is_number_cn n then None
            else v38_after_number c t
          else v38_after_number c t
      | None => v38_after_number c t
      end
  end.

Definition pn_spec_out (hr : list pnop) (o : pnop) : option pnmsg :=
  match o with
  | NReset => None
  | NFeed b =>
      match as_cc b with
      | Some (c, n, v) =>
          if N.eqb n 6 || N.eqb n 96 || N.eqb n 97 then
            match latest_number_msb c hr, latest_number_lsb c hr with
            | Some m, Some l =>
                let number := 128 * m + l in
                let reg := latest_registered c hr in
                if N.eqb n 96 then Some (mkPN c number v reg false DataIncrement)
                else if N.eqb n 97 then Some (mkPN c number v reg false DataDecrement)
                else
                  match v38_after_number c hr with
                  | Some l38 => Some (mkPN c number (128 * v + l38) reg true DataEntry)
                  | None => Some (mkPN c number v reg false DataEntry)
                  end
            | _, _ => None
            end
          else None
      | None => None
      end
  end.

Fixpoint pn_spec_outs_from (hr : list pnop) (h : list pnop) : list (option pnmsg) :=
  match h with
  | [] => []
  | o :: t => pn_spec_out hr o :: pn_spec_outs_from (o :: hr) t
  end.

Definition pn_spec_outs (h : list pnop) : list (option pnmsg) := pn_spec_outs_from [] h.

Definition pnop_valid (o : pnop) : bool :=
  match o with NFeed b => valid3 b | NReset => true end.

(** C09: the encoding as a slot table, read arithmetically.  [order]: true = MSB first. *)
Definition pn_encode_spec (m : pnmsg) (msb_first : bool) : list (option bytes) :=
  let st := 176 + pn_channel m in
  let sel := [Some (st, (if pn_is_registered m then 101 else 99), pn_number m / 128);
              Some (st, (if pn_is_registered m then 100 else 98), pn_number m mod 128)] in
  match pn_data_type m with
  | DataEntry =>
      if pn_is_14_bit m then
        if msb_first then
          sel ++ [Some (st, 6, pn_value m / 128); Some (st, 38, pn_value m mod 128)]
        else
          sel ++ [Some (st, 38, pn_value m mod 128); Some (st, 6, pn_value m / 128)]
      else sel ++ [Some (st, 6, pn_value m); None]
  | DataIncrement => sel ++ [Some (st, 96, pn_value m); None]
  | DataDecrement => sel ++ [Some (st, 97, pn_value m); None]
  end.

(** the messages a public constructor can build *)
Definition pnmsg_wf (m : pnmsg) : bool :=
  N.ltb (pn_channel m) 16 && N.ltb (pn_number m) 16384 &&
  (if pn_is_14_bit m then N.ltb (pn_value m) 16384 && datatype_eqb (pn_data_type m) DataEntry
   else N.ltb (pn_value m) 128).
