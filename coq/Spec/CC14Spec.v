(** History-level specification of the 14-bit Control Change encoder and scanner (C07, C08).
    Written over the *history* (what was fed since creation or the last reset), with arithmetic
    readings of bytes; independent of the scanner's state representation.  Definitions only. *)
From Verif Require Import Base.Prelude Model.ShortMsg Model.CC14 Spec.MidiTable.

(** most recent Control Change with controller < 32 on channel [c], scanning a history given
    most-recent-first, stopping at a reset *)
Fixpoint last_msb_rev (c : N) (hr : list cc14op) : option (N * N) :=
  match hr with
  | [] => None
  | CReset :: _ => None
  | CFeed b :: t =>
      match as_cc b with
      | Some (c', n, v) =>
          if N.eqb c' c && N.ltb n 32 then Some (n, v) else last_msb_rev c t
      | None => last_msb_rev c t
      end
  end.

(** what the scanner must report for operation [o] after the (reversed) history [hr] *)
Definition cc14_spec_out (hr : list cc14op) (o : cc14op) : option cc14msg :=
  match o with
  | CReset => None
  | CFeed b =>
      match as_cc b with
      | Some (c, n, v) =>
          if N.leb 32 n && N.ltb n 64 then
            match last_msb_rev c hr with
            | Some (n0, v0) =>
                if N.eqb (n0 + 32) n then Some (mkCC14 c n0 (128 * v0 + v)) else None
            | None => None
            end
          else None
      | None => None
      end
  end.

Fixpoint cc14_spec_outs_from (hr : list cc14op) (h : list cc14op) : list (option cc14msg) :=
  match h with
  | [] => []
  | o :: t => cc14_spec_out hr o :: cc14_spec_outs_from (o :: hr) t
  end.

Definition cc14_spec_outs (h : list cc14op) : list (option cc14msg) :=
  cc14_spec_outs_from [] h.

Definition cc14op_valid (o : cc14op) : bool :=
  match o with CFeed b => valid3 b | CReset => true end.

(** C07: the encoding, read arithmetically *)
Definition cc14_encode_spec (ch cn v : N) : list bytes :=
  [(176 + ch, cn, v / 128); (176 + ch, cn + 32, v mod 128)].
