(** Independent specification of short-message byte layouts (C01, C02, C03, C06):
    which data bytes each message type uses, the canonical (information-free parts zeroed) form,
    and every accessor read off the status table arithmetically.  Definitions only. *)
From Verif Require Import Base.Prelude Model.ShortMsg Spec.MidiTable.

(** data-usage table: does a message with this status byte use data byte 1 / 2 ? *)
Definition uses_d1 (s : N) : bool :=
  (N.leb 128 s && N.ltb s 240) || N.eqb s 241 || N.eqb s 242 || N.eqb s 243.
Definition uses_d2 (s : N) : bool :=
  (N.leb 128 s && N.ltb s 192) || (N.leb 224 s && N.ltb s 240) || N.eqb s 242.

(** a quarter-frame data byte: 0nnn dddd; for nnn = 7 bit 3 is reserved *)
Definition canon_qf (a : N) : N :=
  if N.eqb (a / 16) 7 && N.eqb ((a / 8) mod 2) 1 then a - 8 else a.

Definition canon (b : bytes) : bytes :=
  let '(s, a, c) := b in
  (s,
   (if uses_d1 s then (if N.eqb s 241 then canon_qf a else a) else 0),
   (if uses_d2 s then c else 0)).

Definition super_code (x : super) : N :=
  match x with ChannelVoice => 0 | ChannelMode => 1 | SystemCommon => 2 | SystemRealTime => 3
          | SystemExclusive => 4 end.
Definition main_code (x : maincat) : N := match x with CatChannel => 0 | CatSystem => 1 end.
Definition fuzzy_code (x : fuzzy_super) : N :=
  match x with FChannel => 0 | FSystemCommon => 1 | FSystemRealTime => 2 | FSystemExclusive => 3 end.

(** C06: byte layout of the named constructors (arithmetic) *)
Definition ctor_layout (idx x y z : N) : bytes :=
  match idx with
  | 0 => (144 + x, y, z)
  | 1 => (128 + x, y, z)
  | 2 => (176 + x, y, z)
  | 3 => (192 + x, y, 0)
  | 4 => (160 + x, y, z)
  | 5 => (208 + x, y, 0)
  | 6 => (224 + x, y mod 128, y / 128)
  | 7 => (240, 0, 0)
  | 8 => (241, canon_qf x, 0)   (* the frame decoded from the 7-bit value x *)
  | 9 => (242, x mod 128, x / 128)
  | 10 => (243, x, 0)
  | 11 => (246, 0, 0)
  | 12 => (247, 0, 0)
  | 13 => (248, 0, 0)
  | 14 => (250, 0, 0)
  | 15 => (251, 0, 0)
  | 16 => (252, 0, 0)
  | 17 => (254, 0, 0)
  | _ => (255, 0, 0)
  end.
