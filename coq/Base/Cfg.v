(** Rust [cfg] predicates and conversion-macro kinds, as data for the generated tables. *)
From Coq Require Import List String Bool.
Import ListNotations.

Inductive cfgexpr : Type :=
| CTrue
| CFeature (name : string)
| CFlag (name : string)
| CNot (e : cfgexpr)
| CAll (l : list cfgexpr)
| CAny (l : list cfgexpr).

(** evaluation under a set of enabled features ([--cfg] flags are off in user builds) *)
Fixpoint cfg_eval (enabled : list string) (e : cfgexpr) : bool :=
  match e with
  | CTrue => true
  | CFeature n => existsb (String.eqb n) enabled
  | CFlag _ => false
  | CNot e' => negb (cfg_eval enabled e')
  | CAll l => forallb (cfg_eval enabled) l
  | CAny l => existsb (cfg_eval enabled) l
  end.

(** the conversion macros of src/newtype_macros.rs *)
(** TrySPN: TryFrom a signed primitive whose non-negative range fits (added by the D2 repair) *)
(** [CFrom]: an [impl From<S> for D]; [CTry]: an [impl TryFrom<S> for D] *)
Inductive conv_kind := CFrom | CTry.
