(** Integer encoding of observations shared by the checker and the specifications:
    [-1] = None, [-2] = the call panicked, booleans 0/1. *)
From Verif Require Import Base.Prelude Model.ShortMsg.
Open Scope Z_scope.

Definition ZNONE : Z := -1.
Definition ZPANIC : Z := -2.

Definition zN (n : N) : Z := Z.of_N n.
Definition zb (b : bool) : Z := if b then 1 else 0.
Definition zopt (o : option N) : Z := match o with Some n => zN n | None => ZNONE end.
Definition nz (z : Z) : N := Z.to_N z.

Definition enc_bytes (b : bytes) : list Z :=
  let '(s, a, c) := b in [zN s; zN a; zN c].

