(** Common imports, the [outcome] monad (Rust panics), and small list helpers.
    Definitions only + tiny lemmas; everything here is executable and extractable. *)
From Coq Require Export NArith ZArith List Bool Lia.
Export ListNotations.
Open Scope N_scope.

Arguments N.add : simpl never.
Arguments N.sub : simpl never.
Arguments N.mul : simpl never.
Arguments N.div : simpl never.
Arguments N.modulo : simpl never.
Arguments N.eqb : simpl never.
Arguments N.ltb : simpl never.
Arguments N.leb : simpl never.
Arguments N.land : simpl never.
Arguments N.lor : simpl never.
Arguments N.shiftl : simpl never.
Arguments N.shiftr : simpl never.

(** A Rust call either returns or panics. *)
Inductive outcome (A : Type) : Type :=
| Ok (a : A)
| Panic.
Arguments Ok {A} a.
Arguments Panic {A}.

Definition obind {A B} (o : outcome A) (f : A -> outcome B) : outcome B :=
  match o with Ok a => f a | Panic => Panic end.
Definition omap {A B} (f : A -> B) (o : outcome A) : outcome B :=
  match o with Ok a => Ok (f a) | Panic => Panic end.
Definition is_ok {A} (o : outcome A) : bool :=
  match o with Ok _ => true | Panic => false end.

Notation "x <- e ;; k" := (obind e (fun x => k))
  (at level 61, e at next level, right associativity).

(** Replace the [i]-th element (no-op when out of bounds; the API layer guards the index). *)
Fixpoint upd {A} (l : list A) (i : nat) (x : A) : list A :=
  match l, i with
  | [], _ => []
  | _ :: t, O => x :: t
  | h :: t, S i' => h :: upd t i' x
  end.

Lemma upd_length {A} (l : list A) i x : length (upd l i x) = length l.
Proof. revert i; induction l as [|h t IH]; intros [|i]; simpl; auto. Qed.

Lemma nth_error_upd_same {A} (l : list A) i x :
  (i < length l)%nat -> nth_error (upd l i x) i = Some x.
Proof.
  revert i; induction l as [|h t IH]; intros [|i] H; simpl in *; try lia; auto.
  apply IH; lia.
Qed.

Lemma nth_error_upd_other {A} (l : list A) i j x :
  i <> j -> nth_error (upd l i x) j = nth_error l j.
Proof.
  revert i j; induction l as [|h t IH]; intros [|i] [|j] H; simpl; auto; try congruence.
Qed.

Lemma upd_same_id {A} (l : list A) i x :
  nth_error l i = Some x -> upd l i x = l.
Proof.
  revert i; induction l as [|h t IH]; intros [|i] H; simpl in *; try congruence.
  f_equal; auto.
Qed.

(** Boolean equality on options / lists of N (for executable deciders). *)
Definition optN_eqb (a b : option N) : bool :=
  match a, b with
  | Some x, Some y => N.eqb x y
  | None, None => true
  | _, _ => false
  end.

Lemma optN_eqb_eq a b : optN_eqb a b = true <-> a = b.
Proof.
  destruct a, b; simpl; split; intros H; try congruence; auto.
  - apply N.eqb_eq in H; congruence.
  - inversion H; apply N.eqb_refl.
Qed.

Fixpoint listZ_eqb (a b : list Z) : bool :=
  match a, b with
  | [], [] => true
  | x :: a', y :: b' => Z.eqb x y && listZ_eqb a' b'
  | _, _ => false
  end.

Lemma listZ_eqb_eq a b : listZ_eqb a b = true <-> a = b.
Proof.
  revert b; induction a as [|x a IH]; intros [|y b]; simpl; split; intros H;
    try congruence; auto.
  - apply andb_true_iff in H as [H1 H2]. apply Z.eqb_eq in H1. apply IH in H2. congruence.
  - inversion H; subst. rewrite Z.eqb_refl. simpl. apply IH; reflexivity.
Qed.
