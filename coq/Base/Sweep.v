(** Complete sweeps of finite domains [0, n), evaluated by [vm_compute] and lifted to
    universally quantified statements.  A sweep of the *whole* domain, with the bound stated in
    the theorem, is a proof (not a sample). *)
From Verif Require Import Base.Prelude.

Definition sweep_step (f : N -> bool) (st : N * bool) : N * bool :=
  (N.succ (fst st), if f (fst st) then snd st else false).

Definition forallN (n : N) (f : N -> bool) : bool :=
  snd (N.iter n (sweep_step f) (0, true)).

Lemma forallN_iter_fst n f : fst (N.iter n (sweep_step f) (0, true)) = n.
Proof.
  induction n as [|n IH] using N.peano_ind.
  - reflexivity.
  - rewrite N.iter_succ. unfold sweep_step at 1. cbn [fst]. rewrite IH. reflexivity.
Qed.

Lemma forallN_spec n f : forallN n f = true -> forall x, x < n -> f x = true.
Proof.
  unfold forallN.
  induction n as [|n IH] using N.peano_ind; intros H x Hx.
  - lia.
  - rewrite N.iter_succ in H. unfold sweep_step at 1 in H. cbn [snd] in H.
    rewrite forallN_iter_fst in H.
    destruct (f n) eqn:Hfn; [|discriminate].
    destruct (N.eq_dec x n) as [->|Hne]; [exact Hfn|].
    apply IH; [exact H|lia].
Qed.

Lemma forallN_complete n f : (forall x, x < n -> f x = true) -> forallN n f = true.
Proof.
  unfold forallN.
  induction n as [|n IH] using N.peano_ind; intros H.
  - reflexivity.
  - rewrite N.iter_succ. unfold sweep_step at 1. cbn [snd].
    rewrite forallN_iter_fst. rewrite (H n) by lia. apply IH. intros x Hx. apply H. lia.
Qed.

Definition forallN2 (n m : N) (f : N -> N -> bool) : bool :=
  forallN n (fun x => forallN m (f x)).

Lemma forallN2_spec n m f :
  forallN2 n m f = true -> forall x y, x < n -> y < m -> f x y = true.
Proof.
  intros H x y Hx Hy. unfold forallN2 in H.
  pose proof (forallN_spec _ _ H x Hx) as H1. cbv beta in H1.
  exact (forallN_spec _ _ H1 y Hy).
Qed.

Definition forallN3 (n m k : N) (f : N -> N -> N -> bool) : bool :=
  forallN n (fun x => forallN2 m k (f x)).

Lemma forallN3_spec n m k f :
  forallN3 n m k f = true ->
  forall x y z, x < n -> y < m -> z < k -> f x y z = true.
Proof.
  intros H x y z Hx Hy Hz. unfold forallN3 in H.
  pose proof (forallN_spec _ _ H x Hx) as H1. cbv beta in H1.
  exact (forallN2_spec _ _ _ H1 y z Hy Hz).
Qed.

(** First counterexample below [n] (used by refuters / [_refuted] lemmas). *)
Definition findN (n : N) (f : N -> bool) : option N :=
  snd (N.iter n (fun st : N * option N =>
                   (N.succ (fst st),
                    match snd st with
                    | Some w => Some w
                    | None => if f (fst st) then None else Some (fst st)
                    end)) (0, None)).
