#!/usr/bin/env python3
"""Translator: regenerates the *declarative* parts of the model from /repo's current tree.

    gen_tables.py pre <repo> <verif-root>          before the harness is compiled
    gen_tables.py <repo> <verif-root> <dump-file>  after `harness dump` ran

Two sources, by robustness:
  * what the *compiler* sees (`harness dump`, compiled against /repo): the restricted types and
    their maxima, every From / TryFrom impl on the 18x18 grid of numeric types (autoref probes),
    the values of the controller-number constants, the enum discriminants.  Independent of how
    the source spells them (macros, hand-written impls, lists).
  * what only the *source text* shows (regular expressions over comment-stripped text): the cfg
    guards of the range assertion in `new`, Cargo features, serde attribute shapes, the constant
    is_channel_mode_message_controller_number compares with, and the *names* of the
    controller-number constants (documented names still mentioned in the source + every
    `pub const X: ControllerNumber`).  A construct that is not recognised is recorded as unknown
    (Generated/status.json or an explicit `..._known := false`), never guessed.

Writes (only when the content changed, so that make/cargo caches stay valid):
    coq/Generated/{NewtypeTables,CtrlConsts,EnumTables,SerdeShapes}.v, coq/Generated/status.json
    harness/src/generated/consts.rs   (mode `pre`)

Only tables are translated; macro bodies, match tables and state machines are hand-modelled and
tied by the correspondence check."""
import os
import re
import sys


def strip_comments(src):
    out = []
    i = 0
    n = len(src)
    while i < n:
        c = src[i]
        if src.startswith("//", i):
            j = src.find("\n", i)
            i = n if j < 0 else j
        elif src.startswith("/*", i):
            depth = 1
            i += 2
            while i < n and depth:
                if src.startswith("/*", i):
                    depth += 1
                    i += 2
                elif src.startswith("*/", i):
                    depth -= 1
                    i += 2
                else:
                    i += 1
        elif c == '"':
            j = i + 1
            while j < n and src[j] != '"':
                j += 2 if src[j] == "\\" else 1
            out.append(src[i:j + 1])
            i = j + 1
        elif c == "r" and re.match(r'r#*"', src[i:]):
            m = re.match(r'r(#*)"', src[i:])
            hashes = m.group(1)
            end = src.find('"' + hashes, i + len(m.group(0)))
            out.append('""')
            i = end + 1 + len(hashes)
        else:
            out.append(c)
            i += 1
    return "".join(out)


def read_sources(repo):
    """every .rs file under src/ (recursively), keyed by base name (path-qualified on clashes)"""
    srcs = {}
    d = os.path.join(repo, "src")
    for root, _dirs, files in sorted(os.walk(d)):
        for f in sorted(files):
            if f.endswith(".rs"):
                key = f if f not in srcs else os.path.relpath(os.path.join(root, f), d)
                srcs[key] = strip_comments(open(os.path.join(root, f)).read())
    return srcs


def find_src(srcs, hint, pattern):
    """the text of the file that contains `pattern`: the usual file if it still does, else the
    first other file that does (items move between files in refactorings), else ''"""
    s = srcs.get(hint, "")
    if re.search(pattern, s):
        return s
    for _f, t in sorted(srcs.items()):
        if re.search(pattern, t):
            return t
    return ""


def matching(src, i, open_c, close_c):
    depth = 0
    while i < len(src):
        if src[i] == open_c:
            depth += 1
        elif src[i] == close_c:
            depth -= 1
            if depth == 0:
                return i
        i += 1
    return -1


errors = []          # (table, message)
CURRENT = ['general']


class _Err(list):
    def append(self, msg):
        list.append(self, (CURRENT[0], msg))


errors = _Err()


def parse_newtypes(srcs):
    defs = []
    for f, s in srcs.items():
        if f == "newtype_macros.rs":
            continue
        for m in re.finditer(r"\bnewtype!\s*\{", s):
            end = matching(s, m.end() - 1, "{", "}")
            body = s[m.end():end]
            nm = re.search(r"\bname\s*=\s*(\w+)", body)
            rp = re.search(r"\brepr\s*=\s*(\w+)", body)
            mx = re.search(r"\bmax\s*=\s*(\d+)", body)
            if not (nm and rp and mx):
                errors.append("cannot parse newtype! in " + f)
                continue
            defs.append((nm.group(1), rp.group(1), int(mx.group(1))))
    return defs


def parse_cfg(expr):
    """cfg predicate -> Coq cfgexpr term"""
    expr = expr.strip()
    m = re.fullmatch(r'feature\s*=\s*"([^"]*)"', expr)
    if m:
        return 'CFeature "%s"' % m.group(1)
    m = re.fullmatch(r"(not|all|any)\s*\((.*)\)", expr, re.S)
    if m:
        inner = m.group(2)
        parts = []
        depth = 0
        cur = ""
        for ch in inner:
            if ch == "(":
                depth += 1
            elif ch == ")":
                depth -= 1
            if ch == "," and depth == 0:
                parts.append(cur)
                cur = ""
            else:
                cur += ch
        if cur.strip():
            parts.append(cur)
        sub = [parse_cfg(p) for p in parts]
        if m.group(1) == "not":
            return "CNot (%s)" % sub[0]
        return "%s [%s]" % ("CAll" if m.group(1) == "all" else "CAny", "; ".join("(%s)" % x for x in sub))
    m = re.fullmatch(r"(\w+)", expr)
    if m:
        return 'CFlag "%s"' % m.group(1)
    errors.append("cannot parse cfg predicate: " + expr)
    return 'CFlag "?"'


def split_top(inner):
    parts, depth, cur = [], 0, ""
    for ch in inner:
        if ch in "([{":
            depth += 1
        elif ch in ")]}":
            depth -= 1
        if ch == "," and depth == 0:
            parts.append(cur)
            cur = ""
        else:
            cur += ch
    if cur.strip():
        parts.append(cur)
    return parts


def eval_cfg(expr, enabled):
    """truth value of a cfg predicate under a set of enabled features (unknown flags: false)"""
    expr = expr.strip()
    m = re.fullmatch(r'feature\s*=\s*"([^"]*)"', expr)
    if m:
        return m.group(1) in enabled
    m = re.fullmatch(r"(not|all|any)\s*\((.*)\)", expr, re.S)
    if m:
        sub = [eval_cfg(p, enabled) for p in split_top(m.group(2))]
        if m.group(1) == "not":
            return not sub[0]
        return all(sub) if m.group(1) == "all" else any(sub)
    return False


PANICKY = re.compile(r"\b(?:assert|assert_eq|assert_ne|panic|unreachable|unimplemented)!|\.expect\s*\(|\.unwrap\s*\(\s*\)")


def panicky_cfgs(body):
    """(guards, unguarded, any): cfg predicates of the `#[cfg(X)]`-attributed blocks / statements
    of `body` that contain a panicking macro; whether one occurs outside all of them"""
    guards = []
    covered = []     # (start, end) ranges of cfg-attributed items
    for mm in re.finditer(r"#\s*\[\s*cfg\s*\(", body):
        pend = matching(body, mm.end() - 1, "(", ")")
        cfg = body[mm.end():pend]
        close = body.find("]", pend)
        k = close + 1
        while k < len(body) and body[k].isspace():
            k += 1
        if k < len(body) and body[k] == "{":
            e = matching(body, k, "{", "}")
        else:
            # a statement: up to the first ';' outside brackets
            depth = 0
            e = k
            while e < len(body):
                c = body[e]
                if c in "([{":
                    depth += 1
                elif c in ")]}":
                    depth -= 1
                    if depth < 0:
                        break
                elif c == ";" and depth == 0:
                    break
                e += 1
        item = body[k:e + 1]
        covered.append((mm.start(), e + 1))
        if PANICKY.search(item):
            guards.append(parse_cfg(cfg))
    unguarded = False
    any_panicky = False
    for pm in PANICKY.finditer(body):
        any_panicky = True
        if not any(a <= pm.start() < b for a, b in covered):
            unguarded = True
    return guards, unguarded, any_panicky


def fn_body(text, name):
    m = re.search(r"\bfn\s+%s\s*(?:<[^>{]*>)?\s*\(" % re.escape(name), text)
    if not m:
        return None
    b0 = text.find("{", m.end())
    semi = text.find(";", m.end())
    if b0 < 0 or (0 <= semi < b0):
        return None
    return text[b0 + 1:matching(text, b0, "{", "}")]


def parse_new_guards(srcs):
    """cfg predicates under which the checked constructor `new` panics on invalid input.
    Returns (guards, unguarded, known).  Every `#[cfg(X)]`-attributed block or statement of the
    body that contains a panicking macro contributes X; a panicking macro outside all of them
    counts as unconditional.  If the body itself has none, the private helper functions it calls
    (two levels) are looked at in the same way; if nothing is found the body is not understood
    (known = False)."""
    pat = r"pub\s+(?:const\s+)?fn\s+new\s*\(\s*\w+\s*:\s*\$\w+\s*\)\s*->\s*(?:\$\w+|Self)\s*\{"
    s = find_src(srcs, "newtype_macros.rs", pat)
    m = re.search(pat, s)
    if not m:
        return [], False, False
    end = matching(s, m.end() - 1, "{", "}")
    body = s[m.end():end]
    alltext = "\n".join(srcs.values())
    seen = set()
    frontier = [body]
    for _level in range(3):
        guards, unguarded, found = [], False, False
        nxt = []
        for b in frontier:
            g, u, f = panicky_cfgs(b)
            guards += g
            unguarded |= u
            found |= f
            for cm in re.finditer(r"\b([a-z_][a-z0-9_]*)\s*(?:::\s*<[^>]*>\s*)?\(", b):
                name = cm.group(1)
                if name in seen or name in ("if", "match", "while", "for", "return", "new", "is_valid", "concat", "stringify"):
                    continue
                seen.add(name)
                fb = fn_body(s, name) or fn_body(alltext, name)
                if fb is not None:
                    nxt.append(fb)
        if found:
            return guards, unguarded, True
        frontier = nxt
        if not frontier:
            break
    return [], False, False


def parse_features(repo):
    s = open(os.path.join(repo, "Cargo.toml")).read()
    m = re.search(r"^\[features\]\s*$(.*?)(?=^\[|\Z)", s, re.M | re.S)
    feats = {}
    if not m:
        errors.append("no [features] table in Cargo.toml")
        return feats
    for line in m.group(1).split("\n"):
        line = line.split("#")[0].strip()
        mm = re.match(r"([\w-]+)\s*=\s*\[(.*)\]", line)
        if mm:
            feats[mm.group(1)] = [x.strip().strip('"') for x in mm.group(2).split(",") if x.strip()]
    # optional dependencies are implicit features
    md = re.search(r"^\[dependencies\]\s*$(.*?)(?=^\[|\Z)", s, re.M | re.S)
    if md:
        for line in md.group(1).split("\n"):
            mm = re.match(r"\s*([\w-]+)\s*=\s*\{.*optional\s*=\s*true", line)
            if mm and mm.group(1) not in feats:
                feats[mm.group(1)] = []
    return feats


DOCUMENTED_CONSTS = """BANK_SELECT MODULATION_WHEEL BREATH_CONTROLLER FOOT_CONTROLLER PORTAMENTO_TIME DATA_ENTRY_MSB
CHANNEL_VOLUME BALANCE PAN EXPRESSION_CONTROLLER EFFECT_CONTROL_1 EFFECT_CONTROL_2 GENERAL_PURPOSE_CONTROLLER_1
GENERAL_PURPOSE_CONTROLLER_2 GENERAL_PURPOSE_CONTROLLER_3 GENERAL_PURPOSE_CONTROLLER_4 BANK_SELECT_LSB
MODULATION_WHEEL_LSB BREATH_CONTROLLER_LSB FOOT_CONTROLLER_LSB PORTAMENTO_TIME_LSB DATA_ENTRY_MSB_LSB
CHANNEL_VOLUME_LSB BALANCE_LSB PAN_LSB EXPRESSION_CONTROLLER_LSB EFFECT_CONTROL_1_LSB EFFECT_CONTROL_2_LSB
GENERAL_PURPOSE_CONTROLLER_1_LSB GENERAL_PURPOSE_CONTROLLER_2_LSB GENERAL_PURPOSE_CONTROLLER_3_LSB
GENERAL_PURPOSE_CONTROLLER_4_LSB""".split()


def parse_const_names(srcs):
    """names of the controller_numbers::* constants: every `pub const X: ControllerNumber` of the
    source plus every documented 14-bit name (above) that the source still mentions as a word --
    however it declares it.  Their *values* come from the compiled implementation."""
    s = find_src(srcs, "controller_number_mod.rs", r"pub\s+mod\s+controller_numbers\b")
    names = [m.group(1) for m in re.finditer(r"pub\s+const\s+(\w+)\s*:\s*ControllerNumber\b", s)]
    # entries of a declaring macro invocation: NAME = <literal>
    i = s.find("pub mod controller_numbers")
    if i >= 0:
        j = s.find("{", i)
        mod_body = s[j:matching(s, j, "{", "}")]
        for m in re.finditer(r"\b([A-Z][A-Z0-9_]+)\s*(?::\s*ControllerNumber\s*)?=\s*(?:ControllerNumber\s*\(\s*)?(?:0x[0-9A-Fa-f]+|\d+)", mod_body):
            if m.group(1) not in names:
                names.append(m.group(1))
    for n in DOCUMENTED_CONSTS:
        if n not in names and re.search(r"\b%s\b" % n, s):
            names.append(n)
    if not names:
        errors.append("no controller number constants found")
    return names


def parse_channel_mode_const(srcs, consts):
    """the constant is_channel_mode_message_controller_number compares with (>=), if the body has
    one of the recognised shapes; None otherwise (the tie is then by correspondence only)"""
    s = find_src(srcs, "controller_number_mod.rs", r"fn\s+is_channel_mode_message_controller_number\b")
    m = re.search(r"fn\s+is_channel_mode_message_controller_number\s*\(\s*&self\s*\)\s*->\s*bool\s*\{(.*?)\}", s, re.S)
    if not m:
        return None
    body = re.sub(r"\s+", "", m.group(1))
    d = {k: v for k, v in consts if v is not None}
    for pat in (r"\*self>=(?:controller_numbers::)?(\w+)", r"self\.0>=(?:controller_numbers::)?(\w+)\.0",
                r"self\.get\(\)>=(?:controller_numbers::)?(\w+)\.get\(\)"):
        mm = re.fullmatch(pat, body)
        if mm and mm.group(1) in d:
            return d[mm.group(1)]
    mm = re.fullmatch(r"self\.0>=(0x[0-9A-Fa-f]+|\d+)", body)
    if mm:
        return int(mm.group(1), 0)
    mm = re.fullmatch(r"matches!\(self\.0,(0x[0-9A-Fa-f]+|\d+)\.\.=(?:127|0x7[fF])\)", body)
    if mm:
        return int(mm.group(1), 0)
    return None


def parse_enum(srcs, fname, ename):
    s = srcs.get(fname, "")
    m = re.search(r"pub\s+enum\s+%s\s*\{" % ename, s)
    if not m:
        errors.append("enum %s not found" % ename)
        return []
    end = matching(s, m.end() - 1, "{", "}")
    body = s[m.end():end]
    out = []
    for mm in re.finditer(r"(\w+)\s*=\s*(0x[0-9A-Fa-f]+|\d+)\s*,", body):
        out.append((mm.group(1), int(mm.group(2), 0)))
    return out


SERDE_TYPES = [
    ("newtype_macros.rs", "struct", "$name"),
    ("raw_short_message.rs", "struct", "RawShortMessage"),
    ("structured_short_message.rs", "enum", "StructuredShortMessage"),
    ("control_change_14_bit_message.rs", "struct", "ControlChange14BitMessage"),
    ("parameter_number_message.rs", "struct", "ParameterNumberMessage"),
    ("parameter_number_message.rs", "enum", "DataType"),
    ("short_message.rs", "enum", "ShortMessageType"),
    ("short_message.rs", "enum", "TimeCodeQuarterFrame"),
    ("short_message.rs", "enum", "TimeCodeType"),
]


def item_attrs(s, start):
    """the attributes immediately preceding the item that starts at s[start]"""
    head = s[:start]
    attrs = []
    while True:
        h = head.rstrip()
        if not h.endswith("]"):
            break
        depth = 0
        i = len(h) - 1
        while i >= 0:
            if h[i] == "]":
                depth += 1
            elif h[i] == "[":
                depth -= 1
                if depth == 0:
                    break
            i -= 1
        if i > 0 and h[i - 1] == "#":
            attrs.append(h[i + 1:-1])
            head = h[:i - 1]
        else:
            break
    return attrs


def shape_of_attrs(text, s):
    """the Deserialize shape that the (active) attribute text of an item denotes, or None"""
    if re.search(r"Deserialize_repr", text):
        return "repr"
    if re.search(r"\bDeserialize\b", text):
        t = re.search(r'serde\s*\(\s*try_from\s*=\s*"([^"]*)"', text)
        if t:
            ty = re.sub(r"\s+", "", t.group(1))
            # a (private) type alias of the same file stands for its definition
            for _ in range(4):
                al = re.search(r"\btype\s+%s\s*=\s*([^;]+);" % re.escape(ty.split("::")[-1]), s)
                if not al:
                    break
                ty = re.sub(r"\s+", "", al.group(1))
            ty = re.sub(r"\b(?:crate|super|self)::", "", ty)
            return "try_from:" + ty
        if re.search(r'serde\s*\(\s*(?:from|remote|deserialize_with|with)\b', text):
            return "unknown"
        return "derive"
    return None


SERDE_CONFIGS = [["serde"], ["serde", "serde_repr"], ["std", "serde"], ["std", "serde", "serde_repr"]]
HARNESS_CONFIG = ["std", "serde", "serde_repr"]


def feature_closure(feats, fs):
    """features enabled by enabling `fs` (a feature enables the features it lists; entries like
    "dep:x" or "crate/feat" are not features of this crate)"""
    out, todo = [], list(fs)
    while todo:
        f = todo.pop(0)
        if f in out or f.startswith("dep:") or "/" in f:
            continue
        out.append(f)
        todo.extend(feats.get(f, []))
    return out


def parse_serde_shapes(srcs, feats=None):
    """For each public type and each feature configuration with serde enabled: how Deserialize is
    obtained, as far as the source text shows.
       'derive'        a plain derive(Deserialize): fields are stored unvalidated
       'try_from:<T>'  derive with serde(try_from = "T") (type aliases of the file resolved)
       'repr'          serde_repr
       'custom'        a hand-written `impl Deserialize for <type>` somewhere in the crate
       'unknown'       none of these was recognised (e.g. the item is generated by a macro)
       'none'          no Deserialize derive is active in that configuration
    `cfg_attr(COND, ...)` attributes count only in the configurations in which COND holds.
    Returns (shapes under the harness configuration, [(config, shapes)])."""
    alltext = "\n".join(srcs.values())
    per_cfg = {tuple(c): [] for c in SERDE_CONFIGS}
    for f, kind, name in SERDE_TYPES:
        pretty = name.replace("$name", "newtype")
        cands = [srcs.get(f, "")] + [t for g, t in srcs.items() if g != f]
        m = None
        s = ""
        for t in cands:
            m = re.search(r"pub\s+%s\s+%s\b" % (kind, re.escape(name)), t)
            if m:
                s = t
                break
        custom = re.search(r"\bimpl\s*<\s*'de[^>]*>\s*(?:[\w:]*::)?Deserialize\s*<\s*'de\s*>\s*for\s+(?:[\w:]*::)?%s\b"
                           % re.escape(name), alltext)
        conds = []   # (condition text or None, attribute text)
        if m:
            for a in item_attrs(s, m.start()):
                am = re.match(r"\s*cfg_attr\s*\(", a)
                if am:
                    inner = a[am.end():a.rstrip().rfind(")")]
                    parts = split_top(inner)
                    conds.append((parts[0], " ".join(parts[1:])))
                else:
                    conds.append((None, a))
        for c in SERDE_CONFIGS:
            enabled = feature_closure(feats or {}, c)
            if m:
                text = " ".join(t for (cond, t) in conds if cond is None or eval_cfg(cond, enabled))
                shape = shape_of_attrs(text, s)
                if shape is None:
                    shape = "custom" if custom else "none"
            else:
                shape = "custom" if custom else "unknown"
            per_cfg[tuple(c)].append((pretty, shape))
    return per_cfg[tuple(HARNESS_CONFIG)], [(list(c), per_cfg[tuple(c)]) for c in SERDE_CONFIGS]


def coq_str(s):
    return '"%s"' % s


def write_if_changed(path, content):
    os.makedirs(os.path.dirname(path), exist_ok=True)
    if os.path.exists(path) and open(path).read() == content:
        return False
    with open(path, "w") as fh:
        fh.write(content)
    return True


PRIM_RS = ["u8", "u16", "u32", "u64", "u128", "usize", "i8", "i16", "i32", "i64", "i128", "isize"]


def write_harness_consts(root, names):
    c = ["// GENERATED by translator/gen_tables.py -- do not edit.",
         "pub fn consts() -> Vec<(&'static str, i64)> {", "    vec!["]
    for a in names:
        c.append('        ("%s", helgoboss_midi::controller_numbers::%s.get() as i64),' % (a, a))
    c.append("    ]")
    c.append("}")
    write_if_changed(os.path.join(root, "harness", "src", "generated", "consts.rs"), "\n".join(c) + "\n")


def read_dump(path):
    d = {"NT": [], "CONV": [], "CONST": [], "SMT": [], "TCT": []}
    for line in open(path):
        f = line.split()
        if f and f[0] in d:
            d[f[0]].append(f[1:])
    return d


def main():
    if sys.argv[1] == "pre":
        repo, root = sys.argv[2], sys.argv[3]
        srcs = read_sources(repo)
        CURRENT[0] = "CtrlConsts"
        write_harness_consts(root, parse_const_names(srcs))
        for t, msg in errors:
            print("translator[%s]: %s" % (t, msg))
        return 0
    repo, root, dump_path = sys.argv[1], sys.argv[2], sys.argv[3]
    srcs = read_sources(repo)
    dump = read_dump(dump_path)
    CURRENT[0] = "NewtypeTables"
    defs = [(a, b, int(c)) for a, b, c in dump["NT"]]
    convs = [("CFrom" if k == "0" else "CTry", a, b) for k, a, b in dump["CONV"]]
    if not defs or not convs:
        errors.append("the compiled probe reported no restricted types / conversions")
    guards, unguarded, guards_known = parse_new_guards(srcs)
    feats = parse_features(repo)
    CURRENT[0] = "CtrlConsts"
    names = parse_const_names(srcs)
    consts = [(a, int(b)) for a, b in dump["CONST"]]
    if [a for a, _ in consts] != names:
        errors.append("the compiled harness lists other constants than the source (stale build?)")
    cm = parse_channel_mode_const(srcs, consts)
    CURRENT[0] = "EnumTables"
    smt = [(a, int(b)) for a, b in dump["SMT"]]
    tct = [(a, int(b)) for a, b in dump["TCT"]]
    CURRENT[0] = "SerdeShapes"
    shapes, shapes_by_cfg = parse_serde_shapes(srcs, feats)

    hdr = ["(* GENERATED by translator/gen_tables.py from /repo's current tree -- do not edit. *)",
           "From Coq Require Import NArith List String.",
           "From Verif Require Import Base.Cfg.",
           "Import ListNotations.",
           "Open Scope N_scope.",
           "Open Scope string_scope.",
           ""]
    gen = os.path.join(root, "coq", "Generated")
    changed = False

    v = list(hdr)
    v.append("(* the restricted types as compiled: name, repr, MAX *)")
    v.append("Definition newtype_defs : list (string * string * N) :=\n  [%s]." % ";\n   ".join(
        "(%s, %s, %d)" % (coq_str(a), coq_str(b), c) for a, b, c in defs))
    v.append("")
    v.append("(* every From / TryFrom impl between the numeric types that the compiler sees: kind, source, target *)")
    v.append("Definition conv_table : list (conv_kind * string * string) :=\n  [%s]." % ";\n   ".join(
        "(%s, %s, %s)" % (k, coq_str(a), coq_str(b)) for k, a, b in convs))
    v.append("")
    v.append("(* cfg predicates under which `new` contains its range assertion; an unguarded assertion counts as always on *)")
    v.append("Definition new_cfg_guards : list cfgexpr :=\n  [%s]." % "; ".join(
        ["(%s)" % g for g in guards] + (["CTrue"] if unguarded else [])))
    v.append("(* false: the body of `new` has no panicking statement the translator recognises *)")
    v.append("Definition new_guards_known : bool := %s." % ("true" if guards_known else "false"))
    v.append("")
    v.append("(* Cargo features (incl. optional dependencies) and the default set *)")
    v.append("Definition cargo_features : list string := [%s]." % "; ".join(coq_str(k) for k in feats if k != "default"))
    def closure(fs):
        return feature_closure(feats, fs)
    v.append("(* the default set, closed under the features each feature enables *)")
    v.append("Definition cargo_default : list string := [%s]." % "; ".join(coq_str(k) for k in closure(feats.get("default", []))))
    v.append("(* what enabling the serde features enables *)")
    v.append("Definition cargo_serde : list string := [%s]." % "; ".join(coq_str(k) for k in closure(["serde", "serde_repr"])))
    v.append("")
    changed |= write_if_changed(os.path.join(gen, "NewtypeTables.v"), "\n".join(v))

    v = list(hdr)
    v.append("(* controller_numbers::* with the values the compiled crate gives them *)")
    v.append("Definition ctrl_consts : list (string * N) :=\n  [%s]." % ";\n   ".join(
        "(%s, %d)" % (coq_str(a), b) for a, b in consts))
    v.append("")
    v.append("(* every constant's name, in the order the harness observes them *)")
    v.append("Definition ctrl_const_names : list string :=\n  [%s]." % ";\n   ".join(coq_str(a) for a, _ in consts))
    v.append("")
    v.append("(* constants without a value in the table (none: values come from the compiled crate) *)")
    v.append("Definition ctrl_const_unparsed : list string := [].")
    v.append("")
    v.append("(* the constant is_channel_mode_message_controller_number compares with (>=) *)")
    v.append("Definition channel_mode_threshold_gen : option N := %s." % ("Some %d" % cm if cm is not None else "None"))
    v.append("")
    changed |= write_if_changed(os.path.join(gen, "CtrlConsts.v"), "\n".join(v))

    v = list(hdr)
    v.append("(* discriminants as compiled: every u8 the enum's TryFrom accepts, with the variant's u8::from *)")
    v.append("Definition smt_table_gen : list (string * N) :=\n  [%s]." % ";\n   ".join(
        "(%s, %d)" % (coq_str(a), b) for a, b in smt))
    v.append("Definition tct_table_gen : list (string * N) := [%s]." % "; ".join(
        "(%s, %d)" % (coq_str(a), b) for a, b in tct))
    v.append("")
    changed |= write_if_changed(os.path.join(gen, "EnumTables.v"), "\n".join(v))

    v = list(hdr)
    v.append("(* how each public type obtains Deserialize (std + serde + serde_repr: the harness build) *)")
    v.append("Definition serde_shapes : list (string * string) :=\n  [%s]." % ";\n   ".join(
        "(%s, %s)" % (coq_str(a), coq_str(b)) for a, b in shapes))
    v.append("")
    v.append("(* the same in every feature configuration that enables serde: cfg_attr conditions evaluated *)")
    v.append("Definition serde_shapes_by_cfg : list (list string * list (string * string)) :=\n  [%s]." % ";\n   ".join(
        "([%s],\n    [%s])" % ("; ".join(coq_str(x) for x in c),
                                ";\n     ".join("(%s, %s)" % (coq_str(a), coq_str(b)) for a, b in sh))
        for c, sh in shapes_by_cfg))
    v.append("")
    changed |= write_if_changed(os.path.join(gen, "SerdeShapes.v"), "\n".join(v))

    import json
    status = {}
    for t, msg in errors:
        status.setdefault(t, []).append(msg)
    with open(os.path.join(gen, "status.json"), "w") as fh:
        json.dump(status, fh, indent=1)
    for t, msg in errors:
        print("translator[%s]: %s" % (t, msg))
    print("translator: %d newtypes, %d conversions, %d guards%s%s, %d consts, %d+%d enum variants, %d serde shapes%s"
          % (len(defs), len(convs), len(guards), " (+unguarded)" if unguarded else "",
             "" if guards_known else " (not understood)", len(consts), len(smt), len(tct),
             len(shapes), " [changed]" if changed else ""))
    return 0   # per-table problems are reported through Generated/status.json


if __name__ == "__main__":
    sys.exit(main())
