#!/usr/bin/env python3
"""Translator: regenerates the *declarative* parts of the model from /repo's current sources.

    gen_tables.py <repo> <verif-root>

Writes (only when the content changed, so that make/cargo caches stay valid):
    coq/Generated/{NewtypeTables,CtrlConsts,EnumTables,SerdeShapes}.v   newtype definitions, conversion-macro invocations,
                                      cfg guards of `new`, Cargo features, controller-number
                                      constants, enum discriminants, serde attribute shapes,
                                      the constant compared with in is_channel_mode_...
    harness/src/generated/convs.rs    one conversion case per table entry (so that an impl added
                                      to the crate is exercised without a hand edit)
    harness/src/generated/consts.rs   the controller-number constants

Only tables are translated; macro bodies, match tables and state machines are hand-modelled and
tied by the correspondence check.  Exit status 1 if a construct that must be present cannot be
parsed (the orchestrator then reports the affected properties as no longer shown)."""
import os
import re
import sys


def strip_comments(src):
    out = []
    i = 0
    n = len(src)
    while i < n:
        c = src[i]
        if src.startswith("//", i):
            j = src.find("\n", i)
            i = n if j < 0 else j
        elif src.startswith("/*", i):
            depth = 1
            i += 2
            while i < n and depth:
                if src.startswith("/*", i):
                    depth += 1
                    i += 2
                elif src.startswith("*/", i):
                    depth -= 1
                    i += 2
                else:
                    i += 1
        elif c == '"':
            j = i + 1
            while j < n and src[j] != '"':
                j += 2 if src[j] == "\\" else 1
            out.append(src[i:j + 1])
            i = j + 1
        elif c == "r" and re.match(r'r#*"', src[i:]):
            m = re.match(r'r(#*)"', src[i:])
            hashes = m.group(1)
            end = src.find('"' + hashes, i + len(m.group(0)))
            out.append('""')
            i = end + 1 + len(hashes)
        else:
            out.append(c)
            i += 1
    return "".join(out)


def read_sources(repo):
    srcs = {}
    d = os.path.join(repo, "src")
    for f in sorted(os.listdir(d)):
        if f.endswith(".rs"):
            srcs[f] = strip_comments(open(os.path.join(d, f)).read())
    return srcs


def matching(src, i, open_c, close_c):
    depth = 0
    while i < len(src):
        if src[i] == open_c:
            depth += 1
        elif src[i] == close_c:
            depth -= 1
            if depth == 0:
                return i
        i += 1
    return -1


errors = []          # (table, message)
CURRENT = ['general']


class _Err(list):
    def append(self, msg):
        list.append(self, (CURRENT[0], msg))


errors = _Err()


def parse_newtypes(srcs):
    defs = []
    for f, s in srcs.items():
        if f == "newtype_macros.rs":
            continue
        for m in re.finditer(r"\bnewtype!\s*\{", s):
            end = matching(s, m.end() - 1, "{", "}")
            body = s[m.end():end]
            nm = re.search(r"\bname\s*=\s*(\w+)", body)
            rp = re.search(r"\brepr\s*=\s*(\w+)", body)
            mx = re.search(r"\bmax\s*=\s*(\d+)", body)
            if not (nm and rp and mx):
                errors.append("cannot parse newtype! in " + f)
                continue
            defs.append((nm.group(1), rp.group(1), int(mx.group(1))))
    return defs


CONV_MACROS = {
    "impl_from_newtype_to_newtype": "FromNN",
    "impl_from_newtype_to_primitive": "FromNP",
    "impl_from_primitive_to_newtype": "FromPN",
    "impl_try_from_newtype_to_newtype": "TryNN",
    "impl_try_from_primitive_to_newtype": "TryPN",
    "impl_try_from_signed_primitive_to_newtype": "TrySPN",
}


def parse_convs(srcs):
    convs = []
    for f, s in srcs.items():
        if f == "newtype_macros.rs":
            continue
        for m in re.finditer(r"\b(impl_(?:try_)?from_\w+)!\s*\(\s*([\w:]+)\s*,\s*([\w:]+)\s*\)", s):
            mac, a, b = m.group(1), m.group(2), m.group(3)
            if mac not in CONV_MACROS:
                errors.append("unknown conversion macro %s in %s" % (mac, f))
                continue
            convs.append((CONV_MACROS[mac], a.split("::")[-1], b.split("::")[-1]))
    # hand-written From/TryFrom impls between the numeric types would escape the table
    types = {"U4", "U7", "U14", "Channel", "KeyNumber", "ControllerNumber"}
    prims = {"u8", "u16", "u32", "u64", "u128", "usize", "i8", "i16", "i32", "i64", "i128", "isize"}
    for f, s in srcs.items():
        if f == "newtype_macros.rs":
            continue
        for m in re.finditer(r"\bimpl\s+(?:core::convert::)?(?:Try)?From\s*<\s*([\w:]+)\s*>\s*for\s+([\w:]+)", s):
            a, b = m.group(1).split("::")[-1], m.group(2).split("::")[-1]
            if (a in types and (b in types or b in prims)) or (b in types and a in prims):
                errors.append("hand-written conversion impl From<%s> for %s in %s is not in the table" % (a, b, f))
    return convs


def parse_cfg(expr):
    """cfg predicate -> Coq cfgexpr term"""
    expr = expr.strip()
    m = re.fullmatch(r'feature\s*=\s*"([^"]*)"', expr)
    if m:
        return 'CFeature "%s"' % m.group(1)
    m = re.fullmatch(r"(not|all|any)\s*\((.*)\)", expr, re.S)
    if m:
        inner = m.group(2)
        parts = []
        depth = 0
        cur = ""
        for ch in inner:
            if ch == "(":
                depth += 1
            elif ch == ")":
                depth -= 1
            if ch == "," and depth == 0:
                parts.append(cur)
                cur = ""
            else:
                cur += ch
        if cur.strip():
            parts.append(cur)
        sub = [parse_cfg(p) for p in parts]
        if m.group(1) == "not":
            return "CNot (%s)" % sub[0]
        return "%s [%s]" % ("CAll" if m.group(1) == "all" else "CAny", "; ".join("(%s)" % x for x in sub))
    m = re.fullmatch(r"(\w+)", expr)
    if m:
        return 'CFlag "%s"' % m.group(1)
    errors.append("cannot parse cfg predicate: " + expr)
    return 'CFlag "?"'


def parse_new_guards(srcs):
    s = srcs.get("newtype_macros.rs", "")
    m = re.search(r"pub\s+fn\s+new\s*\(\s*value\s*:\s*\$repr\s*\)\s*->\s*\$name\s*\{", s)
    if not m:
        errors.append("cannot find `pub fn new` in newtype! macro")
        return [], False
    end = matching(s, m.end() - 1, "{", "}")
    body = s[m.end():end]
    guards = []
    unguarded = False
    # statements of the body: cfg-attributed blocks and plain statements
    pos = 0
    while pos < len(body):
        mm = re.compile(r"\s*#\s*\[\s*cfg\s*\(").match(body, pos)
        if mm:
            pend = matching(body, mm.end() - 1, "(", ")")
            cfg = body[mm.end():pend]
            close = body.find("]", pend)
            rest = body[close + 1:]
            k = len(body) - len(rest)
            b0 = body.find("{", k)
            b1 = matching(body, b0, "{", "}")
            blk = body[b0:b1 + 1]
            if re.search(r"assert!\s*\(\s*\$name\s*::\s*is_valid\s*\(\s*value\s*\)", blk):
                guards.append(parse_cfg(cfg))
            pos = b1 + 1
        else:
            # plain statement up to ';' or end
            j = body.find(";", pos)
            stmt = body[pos:] if j < 0 else body[pos:j + 1]
            if re.search(r"assert!\s*\(\s*\$name\s*::\s*is_valid\s*\(\s*value\s*\)", stmt):
                unguarded = True
            pos = len(body) if j < 0 else j + 1
    return guards, unguarded


def parse_features(repo):
    s = open(os.path.join(repo, "Cargo.toml")).read()
    m = re.search(r"^\[features\]\s*$(.*?)(?=^\[|\Z)", s, re.M | re.S)
    feats = {}
    if not m:
        errors.append("no [features] table in Cargo.toml")
        return feats
    for line in m.group(1).split("\n"):
        line = line.split("#")[0].strip()
        mm = re.match(r"([\w-]+)\s*=\s*\[(.*)\]", line)
        if mm:
            feats[mm.group(1)] = [x.strip().strip('"') for x in mm.group(2).split(",") if x.strip()]
    # optional dependencies are implicit features
    md = re.search(r"^\[dependencies\]\s*$(.*?)(?=^\[|\Z)", s, re.M | re.S)
    if md:
        for line in md.group(1).split("\n"):
            mm = re.match(r"\s*([\w-]+)\s*=\s*\{.*optional\s*=\s*true", line)
            if mm and mm.group(1) not in feats:
                feats[mm.group(1)] = []
    return feats


def parse_consts(srcs):
    """all `pub const NAME: ControllerNumber = <init>;` -- value known only for literal initialisers"""
    s = srcs.get("controller_number_mod.rs", "")
    consts = []
    for m in re.finditer(r"pub\s+const\s+(\w+)\s*:\s*ControllerNumber\s*=\s*([^;]*);", s):
        init = m.group(2).strip()
        lit = re.fullmatch(r"ControllerNumber\s*\(\s*(0x[0-9A-Fa-f]+|\d+)\s*\)", init)
        consts.append((m.group(1), int(lit.group(1), 0) if lit else None))
    if not consts:
        errors.append("no controller number constants found")
    return consts


def parse_channel_mode_const(srcs, consts):
    """the constant is_channel_mode_message_controller_number compares with (>=), if the body has
    one of the recognised shapes; None otherwise (the tie is then by correspondence only)"""
    s = srcs.get("controller_number_mod.rs", "")
    m = re.search(r"fn\s+is_channel_mode_message_controller_number\s*\(\s*&self\s*\)\s*->\s*bool\s*\{(.*?)\}", s, re.S)
    if not m:
        return None
    body = re.sub(r"\s+", "", m.group(1))
    d = {k: v for k, v in consts if v is not None}
    for pat in (r"\*self>=(?:controller_numbers::)?(\w+)", r"self\.0>=(?:controller_numbers::)?(\w+)\.0",
                r"self\.get\(\)>=(?:controller_numbers::)?(\w+)\.get\(\)"):
        mm = re.fullmatch(pat, body)
        if mm and mm.group(1) in d:
            return d[mm.group(1)]
    mm = re.fullmatch(r"self\.0>=(0x[0-9A-Fa-f]+|\d+)", body)
    if mm:
        return int(mm.group(1), 0)
    mm = re.fullmatch(r"matches!\(self\.0,(0x[0-9A-Fa-f]+|\d+)\.\.=(?:127|0x7[fF])\)", body)
    if mm:
        return int(mm.group(1), 0)
    return None


def parse_enum(srcs, fname, ename):
    s = srcs.get(fname, "")
    m = re.search(r"pub\s+enum\s+%s\s*\{" % ename, s)
    if not m:
        errors.append("enum %s not found" % ename)
        return []
    end = matching(s, m.end() - 1, "{", "}")
    body = s[m.end():end]
    out = []
    for mm in re.finditer(r"(\w+)\s*=\s*(0x[0-9A-Fa-f]+|\d+)\s*,", body):
        out.append((mm.group(1), int(mm.group(2), 0)))
    return out


SERDE_TYPES = [
    ("newtype_macros.rs", "struct", "$name"),
    ("raw_short_message.rs", "struct", "RawShortMessage"),
    ("structured_short_message.rs", "enum", "StructuredShortMessage"),
    ("control_change_14_bit_message.rs", "struct", "ControlChange14BitMessage"),
    ("parameter_number_message.rs", "struct", "ParameterNumberMessage"),
    ("parameter_number_message.rs", "enum", "DataType"),
    ("short_message.rs", "enum", "ShortMessageType"),
    ("short_message.rs", "enum", "TimeCodeQuarterFrame"),
    ("short_message.rs", "enum", "TimeCodeType"),
]


def parse_serde_shapes(srcs):
    """For each public type: how Deserialize is obtained.
       'try_from:<T>' | 'derive' | 'repr' | 'none' """
    shapes = []
    for f, kind, name in SERDE_TYPES:
        s = srcs.get(f, "")
        m = re.search(r"pub\s+%s\s+%s\b" % (kind, re.escape(name)), s)
        if not m:
            errors.append("type %s not found in %s" % (name, f))
            continue
        # attributes immediately preceding the item
        head = s[:m.start()]
        attrs = []
        while True:
            mm = re.search(r"#\s*\[([^\[\]]*(?:\[[^\]]*\][^\[\]]*)*)\]\s*$", head, re.S)
            if not mm:
                # handle nested parens inside attribute by a manual scan
                h = head.rstrip()
                if h.endswith("]"):
                    # find the matching "#["
                    depth = 0
                    i = len(h) - 1
                    while i >= 0:
                        if h[i] == "]":
                            depth += 1
                        elif h[i] == "[":
                            depth -= 1
                            if depth == 0:
                                break
                        i -= 1
                    if i > 0 and h[i - 1] == "#":
                        attrs.append(h[i + 1:-1])
                        head = h[:i - 1]
                        continue
                break
            attrs.append(mm.group(1))
            head = head[:mm.start()]
        text = " ".join(attrs)
        shape = "none"
        if re.search(r"Deserialize_repr", text):
            shape = "repr"
        elif re.search(r"\bDeserialize\b", text):
            t = re.search(r'serde\s*\(\s*try_from\s*=\s*"([^"]*)"', text)
            shape = ("try_from:" + re.sub(r"\s+", "", t.group(1))) if t else "derive"
        shapes.append((name.replace("$name", "newtype"), shape))
    return shapes


def coq_str(s):
    return '"%s"' % s


def write_if_changed(path, content):
    os.makedirs(os.path.dirname(path), exist_ok=True)
    if os.path.exists(path) and open(path).read() == content:
        return False
    with open(path, "w") as fh:
        fh.write(content)
    return True


PRIM_RS = ["u8", "u16", "u32", "u64", "u128", "usize", "i8", "i16", "i32", "i64", "i128", "isize"]


def main():
    repo, root = sys.argv[1], sys.argv[2]
    srcs = read_sources(repo)
    CURRENT[0] = "NewtypeTables"
    defs = parse_newtypes(srcs)
    convs = parse_convs(srcs)
    guards, unguarded = parse_new_guards(srcs)
    feats = parse_features(repo)
    CURRENT[0] = "CtrlConsts"
    consts = parse_consts(srcs)
    cm = parse_channel_mode_const(srcs, consts)
    CURRENT[0] = "EnumTables"
    smt = parse_enum(srcs, "short_message.rs", "ShortMessageType")
    tct = parse_enum(srcs, "short_message.rs", "TimeCodeType")
    CURRENT[0] = "SerdeShapes"
    shapes = parse_serde_shapes(srcs)

    hdr = ["(* GENERATED by translator/gen_tables.py from /repo's current sources -- do not edit. *)",
           "From Coq Require Import NArith List String.",
           "From Verif Require Import Base.Cfg.",
           "Import ListNotations.",
           "Open Scope N_scope.",
           "Open Scope string_scope.",
           ""]
    gen = os.path.join(root, "coq", "Generated")
    changed = False

    v = list(hdr)
    v.append("(* newtype! invocations: name, repr, max *)")
    v.append("Definition newtype_defs : list (string * string * N) :=\n  [%s]." % ";\n   ".join(
        "(%s, %s, %d)" % (coq_str(a), coq_str(b), c) for a, b, c in defs))
    v.append("")
    v.append("(* conversion macro invocations: kind, source, target *)")
    v.append("Definition conv_table : list (conv_kind * string * string) :=\n  [%s]." % ";\n   ".join(
        "(%s, %s, %s)" % (k, coq_str(a), coq_str(b)) for k, a, b in convs))
    v.append("")
    v.append("(* cfg predicates guarding the range assertion inside `new`; an unguarded assertion counts as always on *)")
    v.append("Definition new_cfg_guards : list cfgexpr :=\n  [%s]." % "; ".join(
        ["(%s)" % g for g in guards] + (["CTrue"] if unguarded else [])))
    v.append("")
    v.append("(* Cargo features (incl. optional dependencies) and the default set *)")
    v.append("Definition cargo_features : list string := [%s]." % "; ".join(coq_str(k) for k in feats if k != "default"))
    v.append("Definition cargo_default : list string := [%s]." % "; ".join(coq_str(k) for k in feats.get("default", [])))
    v.append("")
    changed |= write_if_changed(os.path.join(gen, "NewtypeTables.v"), "\n".join(v))

    v = list(hdr)
    v.append("(* controller_numbers::* *)")
    v.append("Definition ctrl_consts : list (string * N) :=\n  [%s]." % ";\n   ".join(
        "(%s, %d)" % (coq_str(a), b) for a, b in consts if b is not None))
    v.append("")
    v.append("(* every constant's name, in declaration order (the harness observes them in this order) *)")
    v.append("Definition ctrl_const_names : list string :=\n  [%s]." % ";\n   ".join(coq_str(a) for a, _ in consts))
    v.append("")
    v.append("(* constants whose initialiser is not a literal: their values are tied by the correspondence only *)")
    v.append("Definition ctrl_const_unparsed : list string := [%s]." % "; ".join(
        coq_str(a) for a, b in consts if b is None))
    v.append("")
    v.append("(* the constant is_channel_mode_message_controller_number compares with (>=) *)")
    v.append("Definition channel_mode_threshold_gen : option N := %s." % ("Some %d" % cm if cm is not None else "None"))
    v.append("")
    changed |= write_if_changed(os.path.join(gen, "CtrlConsts.v"), "\n".join(v))

    v = list(hdr)
    v.append("Definition smt_table_gen : list (string * N) :=\n  [%s]." % ";\n   ".join(
        "(%s, %d)" % (coq_str(a), b) for a, b in smt))
    v.append("Definition tct_table_gen : list (string * N) := [%s]." % "; ".join(
        "(%s, %d)" % (coq_str(a), b) for a, b in tct))
    v.append("")
    changed |= write_if_changed(os.path.join(gen, "EnumTables.v"), "\n".join(v))

    v = list(hdr)
    v.append("(* how each public type obtains Deserialize *)")
    v.append("Definition serde_shapes : list (string * string) :=\n  [%s]." % ";\n   ".join(
        "(%s, %s)" % (coq_str(a), coq_str(b)) for a, b in shapes))
    v.append("")
    changed |= write_if_changed(os.path.join(gen, "SerdeShapes.v"), "\n".join(v))

    # harness: conversion cases
    r = []
    r.append("// GENERATED by translator/gen_tables.py -- do not edit.")
    r.append("// kind: 0 From newtype->newtype, 1 From newtype->primitive, 2 From primitive->newtype,")
    r.append("//       3 TryFrom newtype->newtype, 4 TryFrom primitive->newtype")
    kinds = {"FromNN": 0, "FromNP": 1, "FromPN": 2, "TryNN": 3, "TryPN": 4, "TrySPN": 5}
    r.append("pub fn run_conv(idx: i64, x: (bool, u128)) -> Vec<i64> {")
    r.append("    match idx {")
    for i, (k, a, b) in enumerate(convs):
        r.append("        %d => conv_%s!(%s, %s, x)," % (i, k, a, b))
    r.append("        _ => vec![-97],")
    r.append("    }")
    r.append("}")
    r.append("pub const CONVS: &[(i64, &str, &str)] = &[")
    for i, (k, a, b) in enumerate(convs):
        r.append('    (%d, "%s", "%s"),' % (kinds[k], a, b))
    r.append("];")
    r.append("pub const NEWTYPES: &[(&str, &str, i64)] = &[")
    for a, b, c in defs:
        r.append('    ("%s", "%s", %d),' % (a, b, c))
    r.append("];")
    write_if_changed(os.path.join(root, "harness", "src", "generated", "convs.rs"), "\n".join(r) + "\n")

    c = ["// GENERATED by translator/gen_tables.py -- do not edit.",
         "pub fn consts() -> Vec<(&'static str, i64)> {", "    vec!["]
    for a, _ in consts:
        c.append('        ("%s", helgoboss_midi::controller_numbers::%s.get() as i64),' % (a, a))
    c.append("    ]")
    c.append("}")
    write_if_changed(os.path.join(root, "harness", "src", "generated", "consts.rs"), "\n".join(c) + "\n")

    import json
    status = {}
    for t, msg in errors:
        status.setdefault(t, []).append(msg)
    with open(os.path.join(gen, "status.json"), "w") as fh:
        json.dump(status, fh, indent=1)
    for t, msg in errors:
        print("translator[%s]: %s" % (t, msg))
    print("translator: %d newtypes, %d conversions, %d guards%s, %d consts, %d+%d enum variants, %d serde shapes%s"
          % (len(defs), len(convs), len(guards), " (+unguarded)" if unguarded else "", len(consts), len(smt), len(tct),
             len(shapes), " [changed]" if changed else ""))
    return 0   # per-table problems are reported through Generated/status.json


if __name__ == "__main__":
    sys.exit(main())
